"""Per-check configuration shared by bin/check and bin/genmanifest."""

COMMON_ASSUME = [
    "executions run on the real implementation built from /repo's working tree with the sync/atomic imports of the go-data-transfer packages (and go-pubsub) rewritten to channel-based shims by a build-time overlay; no source hooks in /repo",
    "every execution runs inside a testing/synctest bubble (virtual clock, deterministic quiescence), GOMAXPROCS=1",
    "go-statestore, go-ds-versioning, ipld-prime run uninstrumented; go-statemachine and go-pubsub are vendored copies of the pinned versions (harness/third_party) whose only changes are: teardown escapes that fire after the harness called core.Abort (i.e. after an execution's verdict), recover() wrappers that report a panic of an event action / state entry function to the harness instead of killing the worker, and the sync shim import (go-pubsub); their goroutine schedule between two quiescent points is the Go runtime's",
]

CHECKS = {}


def check(pid, **kw):
    kw.setdefault("assumptions", COMMON_ASSUME)
    kw.setdefault("category", "model_checking")
    CHECKS[pid] = kw


check("C02",
      packages=["l1chan"],
      technique="explicit-state BFS with replay over the real channels FSM; terminal-absorption oracle on every (terminal state, event) pair",
      rule="BFS over operation histories of one channel on the real channels.Channels (4 roles); a state is the canonical accessor vector + reference bits; every operation of the alphabet is applied in every reachable state; in terminal states the full accessor vector and the event stream must be unchanged. distinct = distinct canonical states.",
      design_ref="DESIGN.md 5/C02",
      level_text="exhaustive within bounds: every event of the 30-operation alphabet applied in every reachable canonical state (factored key to closure, full key to depth 3) for all four roles",
      level_note="counters bounded to 2 positions per direction; messages/API level covered by the L2 cells")

check("C03",
      packages=["l1chan"],
      technique="explicit-state BFS with replay over the real channels FSM against a history-derived reference (tf/rc/rf/acc bits), R1-R4 oracles on every transition",
      rule="BFS to closure over role-consistent operation histories of one channel on the real channels.Channels; key = (status, pause flags, limit, finalization flag) + reference bits (factored) and the full accessor key to depth 3 (coupling guard). distinct = distinct canonical states.",
      design_ref="DESIGN.md 5/C03",
      level_text="exhaustive reachability of the single-channel state graph for both initiator and responder roles; every transition checked against the completion/bookkeeping/lifecycle rules",
      level_note="single channel; data positions bounded to 2 per direction; cleanup not held (Completing is observed as Completed at quiescence); the responder-finalization clause is also checked at manager level (l2node validation-update cells: every validator answer vector on a finalizing responder)")

check("C07",
      packages=["l1chan"],
      technique="explicit-state BFS with replay; monotonicity oracle on every transition",
      rule="same BFS as C03; oracle: no total/index decreases on any transition. distinct = distinct canonical states.",
      design_ref="DESIGN.md 5/C07",
      level_text="exhaustive within bounds",
      level_note="")

check("C11",
      packages=["l1chan"],
      technique="explicit-state BFS with replay over the real channels FSM; per-party pause-flag oracle on every transition",
      rule="same BFS as C03 with the four pause/resume actions applied in every reachable state; oracle: an action sets its own party's flag to the stated value or changes nothing, never the other flag or any other field, and must apply in the live statuses. distinct = distinct canonical states.",
      design_ref="DESIGN.md 5/C11",
      level_text="exhaustive within bounds",
      level_note="")

check("C19",
      packages=["l1chan"],
      technique="explicit-state BFS with replay; totality and consistency oracle on every state handed out (queries and subscriber snapshots)",
      rule="every ChannelState obtained by the explorers (GetByID after each operation and every subscriber snapshot) is passed through views.Check: every accessor returns, derived views agree, logs are append-only. distinct = distinct canonical states.",
      design_ref="DESIGN.md 5/C19",
      level_text="exhaustive within bounds",
      level_note="")

NOT_YET = {}

check("C06",
      packages=["l1chan"],
      category="fault_enumeration",
      technique="crash-point enumeration: every datastore write boundary of every explored (state, event) pair is reopened with a fresh Channels and compared with the announced states (prefix consistency)",
      rule="BFS (factored key, to closure; thorough adds role-inconsistent full-key depth 3) over operation histories on the real channels.Channels with a write-logging datastore; for the last operation of every history every write boundary image is reopened: listed channels = created channels, the accessor vector equals one of the states current for the channel, monotone; the queried state equals the durable image. distinct = distinct canonical states whose outgoing write boundaries were all reopened.",
      design_ref="DESIGN.md 5/C06",
      level_text="exhaustive within bounds: all write boundaries of all explored transitions",
      level_note="each FSM event is one single-key Put (atomic by the datastore contract), so no torn multi-key images exist; multi-channel and manager-level restart-of-cleanup cells are separate")

check("C09",
      packages=["l1chan"],
      technique="explicit-state BFS with replay + exhaustive (state x ending x window-event) enumeration with the cleanup callback held open",
      rule="(a) closure BFS: every transition into a terminal status is accompanied by exactly one CleanupChannel and one Unprotect, none otherwise, and no channel rests in a cleanup status; (b) for every representative state x every ending x every window event injected while the cleanup call is parked: terminal reached, #cleanup=#unprotect>=1 (=1 with no further input), no terminal status published before cleanup returned. distinct = distinct canonical states + distinct outcomes.",
      design_ref="DESIGN.md 5/C09",
      level_text="exhaustive within bounds",
      level_note="transport-level close cells (fakeGS) and manager-level cancel-message cells are separate packages")

check("C18",
      packages=["l1chan"],
      technique="explicit-state BFS with replay: duplicate CreateNew applied in every reachable state",
      rule="closure BFS with a duplicate CreateNew (same channel ID, different root/voucher) applied in every reachable canonical state: must return an error, leave the accessor vector unchanged and emit no event. distinct = distinct canonical states.",
      design_ref="DESIGN.md 5/C18",
      level_text="exhaustive within bounds",
      level_note="concurrent ID generation and manager lifetimes are covered by the scheduler cells")

check("C12",
      packages=["l0wire"],
      category="exploration",
      technique="exhaustive enumeration of constructor argument products and of systematic byte/type mutations of canonical encodings, against an independent DAG-CBOR encoder of the published schema",
      rule="(a) every constructor x argument domain (IDs incl. 2^63, 2^64-1; CIDs; selectors; IPLD value family; type ids; peer ids) round-tripped through ToNet/FromNet, ToIPLD/FromIPLD, ToExtensionData/GetTransferData, compared field by field and byte by byte with the harness's own schema encoder; (b) key permutations; (c) all byte strings of length <=2, every truncation / single-byte substitution / deletion / duplication of canonical encodings, every type confusion of every field. distinct = distinct encodings + distinct decoded observations.",
      design_ref="DESIGN.md 5/C12",
      level_text="exhaustive within the stated argument domains and single-mutation neighbourhoods",
      level_note="ipld-prime's generic dag-cbor codec is trusted for encoding voucher/selector values inside the independent encoder; inputs with >=2 simultaneous corruptions are outside the bound",
      assumptions=["pure functions; no bubble needed", "ipld-prime generic dag-cbor codec trusted for embedded Any values"])

check("C13",
      packages=["l1chan"],
      category="exploration",
      technique="exhaustive enumeration of version-2 records written by an independent CBOR writer, migrated by the real versioned FSM; differential BFS (migrated vs native channel) over the event alphabet",
      rule="(a) every status (19) x zero/non-zero of {totals, indexes, message, limit, finalization, total size} x roles (4) (thorough: x vouchers/results counts x stages x IPLD family) written by the harness's own CBOR map writer, opened by the real Channels: listed = stored, every accessor = source field, stages entry by entry, second Start writes nothing; (b) stores with 0/1/2 (all status pairs)/3 channels; (c) differential: for every representative native state the equivalent v2 record is migrated and every event must have the same effect and persist the same; (d) before Start / during a parked migration every operation is refused and nothing written. distinct = distinct accessor vectors observed.",
      design_ref="DESIGN.md 5/C13",
      level_text="exhaustive within the stated record domain and event alphabet",
      level_note="readiness announcement (OnReady) is checked at the manager level (l2node)")

check("C04",
      packages=["l2node"],
      technique="exhaustive enumeration of (request kind x registry x validator answer vector x malformed variants x process restart) on a real manager over recording doubles",
      rule="request in {new push/net, new pull/transport, new pull/net, restart push/net, restart pull/transport, restart pull/net} x registry in {{},{T},{U},{T,U}} x 96 validator answer vectors x {well-formed, no voucher, no selector, cid mismatch, other voucher} x {same manager, new manager on the store}; oracle: acceptance effects iff the registered validator was consulted once and accepted; refused otherwise; reply carries the validator's result and pause decision; bystander channel untouched; no panic. distinct = distinct outcome classes.",
      design_ref="DESIGN.md 5/C04",
      level_text="exhaustive over the stated input product",
      level_note="transport double records calls; the mapping from returned errors to graphsync termination is checked in the transport harness",
      min_nontrivial=2)

check("C05",
      packages=["l2node"],
      technique="exhaustive enumeration of (open-channel world x sender x message kind x transfer id) and of single-field mutations of restart requests on a real manager; legitimacy computed from authenticated sender and role",
      rule="world = 4 channels with B (created push, created pull, received push, received pull with a colliding numeric id) in {requested, ongoing, paused, terminated}; sender in {B, stranger C, self} x 18 message kinds x every existing id + a fresh one, + restart-existing requests naming each channel / foreign ids; oracle: for every channel for which the message is not legitimate: datastore record byte-identical, no event, no transport call, no validator call naming it. Restart requests: valid + 7 single-field mutations x push/pull x same/new manager; restart-existing: 5 cases x push/pull; local role checks. distinct = distinct outcome classes.",
      design_ref="DESIGN.md 5/C05",
      level_text="exhaustive over the stated product",
      level_note="graphsync-level role confusion (processExtension) is checked in the transport harness")

check("C08",
      packages=["l2node"],
      technique="deviation-bounded exhaustive enumeration of operation sequences (block reports, accepting/rejecting validation updates with limits around the progress, process restarts) on a real manager against a two-integer reference",
      rule="responder channel, direction in {push=>received, pull=>queued} x initial limit 0..6 x block sizes {1,2,3}^k; default op = report next block; every op of the 8-entry menu may be substituted at every step within the deviation bound (quick k=2, depth 5, 2 deviations; thorough k=3, depth 6, 3 deviations); oracle: pause signal + DataLimitExceeded + responder paused + pause notice to the initiator exactly on the crossing report, never below the limit; resume iff new limit is 0 or > progress; reject => Failed + transport closed; limit and progress survive a restart. distinct = distinct operation logs.",
      design_ref="DESIGN.md 5/C08",
      level_text="exhaustive within the stated deviation bound",
      level_note="reports arriving after the crossing while still over the limit are unconstrained (the statement only says no earlier report pauses)")

check("C10",
      packages=["l2node"],
      technique="exhaustive enumeration of (role x channel state x restart origin x validator answer x process restart) on a real manager over recording doubles; relational before/after oracle",
      rule="4 roles x every drivable state (10-12 per role, incl. terminal) x {local RestartDataTransferChannel, restart message from the peer} x validator answer {accept, reject, error} x {same manager, new manager on the store}; plus restart of a channel persisted in each cleanup status. Oracle: channel count, id, voucher, base cid, selector, peers, counters, indexes unchanged; exactly one re-issued request of the right kind carrying the original parameters; responders revalidate first; rejected => failed / error and nothing sent; cleanup status => only the cleanup is finished. distinct = distinct outcome classes.",
      design_ref="DESIGN.md 5/C10",
      level_text="exhaustive over the stated product",
      level_note="skip-count extension, cancel-before-reopen ordering and queued extensions are checked in the transport harness")
CHECKS["C06"]["packages"] = ["l1chan", "l2node"]
CHECKS["C02"]["packages"] = ["l1chan", "l2node"]

CHECKS["C09"]["packages"] = ["l1chan", "l2node"]
CHECKS["C11"]["packages"] = ["l1chan", "l2node"]

check("C17",
      packages=["l2node"],
      technique="explicit-state BFS with replay over interleaved stimuli on two channels of a real manager with 2 global, 1 late/removed and 1 per-transfer subscriber; stream-equality, snapshot-chain and exactly-once oracles",
      rule="BFS (quick depth 3, thorough depth 5) over 12 stimuli x 2 channels + subscribe/unsubscribe of a third subscriber; oracle on every history: both permanent global subscribers saw the same sequence; the per-transfer subscriber saw exactly its channel's subsequence; the late subscriber saw exactly the window between subscribe and unsubscribe; consecutive snapshots of a channel differ only in fields the announced event may change; last snapshot = ChannelState; stimuli on an ongoing channel announce exactly the expected events once, in order, and invalid ones announce nothing. distinct = distinct canonical two-channel states.",
      design_ref="DESIGN.md 5/C17",
      level_text="exhaustive within the depth bound",
      level_note="unsubscribe racing with a burst of events is covered by the scheduler cells")
CHECKS["C19"]["packages"] = ["l1chan", "l2node"]

check("C16",
      packages=["l2transport"],
      technique="explicit-state BFS with replay over graphsync callbacks and transport API calls on the real Transport with a fake graph exchange; ground-truth request->channel ownership kept by the harness",
      rule="BFS (quick depth 3 over ~130 operations, thorough depth 5 with a third channel, state cap reported) over: open/restart, incoming requests (new, restart, no/other/malformed extension, same id from another peer), processing, incoming/outgoing/sent blocks with on-wire size 0 or >0, response/update extensions (own kind, role-confused, foreign peer, foreign id), completed-response statuses, requestor-cancelled, send/receive errors, requester stream endings, pause/resume/close/cleanup/use-store/shutdown; each applied to the current, an old and an unknown request; oracle: handler calls name exactly the owning channel, none for unknown / extension-less / cleaned-up, on-wire 0 => no accounting, pause/unpause/cancel hit the channel's current request, completion reported once with error iff not full, store registered from UseStore to cleanup, every call returns. distinct = distinct ground-truth states.",
      design_ref="DESIGN.md 5/C16",
      level_text="exhaustive within the depth bound",
      level_note="graphsync itself is replaced by a recording fake here; the real graphsync runs in the end-to-end cells")

check("C20",
      packages=["l2transport"],
      technique="exhaustive enumeration of (graphsync callback x message kind x channel situation) on the real manager + real transport with scheduler-visible locks; quiescence-based termination/deadlock oracle",
      rule="every message-carrying graphsync callback (incoming request, request updated, incoming response, response-with-block extension) x every one of 17 message kinds x sender in {counterparty, stranger} x channel situation in {unknown, received pull open, created pull open, created push requested} on a real manager behind the real transport: the callback has returned at quiescence (after a 24h virtual clock advance at the latest), no goroutine is parked in a library lock afterwards, a later query returns. distinct = distinct outcome classes.",
      design_ref="DESIGN.md 5/C20",
      level_text="exhaustive over the stated product; deadlock/termination decided at quiescence with all repo mutexes visible",
      level_note="data-race freedom is not decidable by a schedule explorer at synchronisation granularity; it is covered by the complementary free-running -race pass (sampling) and flagged as such")
CHECKS["C09"]["packages"] = ["l1chan", "l2node", "l2transport"]
CHECKS["C10"]["packages"] = ["l2node", "l2transport"]
CHECKS["C07"]["packages"] = ["l1chan", "l2transport"]

check("C15",
      packages=["l2network"],
      category="fault_enumeration",
      technique="exhaustive enumeration of stream-open fault patterns x retry configurations x cancellation points x write/reset faults on the real libp2p network layer over a scripted host, under a virtual clock; inbound: exhaustive short streams of message kinds and malformed items",
      rule="outbound: attempts in {1,2,3,4|5} x factor {1,5} x every open pattern in {fail,ok(,hang)}^attempts x cancellation at {never, before attempt i, during back-off i, during the write} x write {ok,error} x reset {ok,error} x message kind; oracle: stream-open attempts = min(first success, attempts), never more than configured; nil result iff an attempt succeeded and the write succeeded; bytes written decode to the message, once, to the intended peer, stream closed; failed write => reset + reported; cancellation => returns ctx error without the virtual clock moving. inbound: every stream of 1..2(3) messages of 10 kinds, 7 malformed items alone/after/before good ones, nil delegate; oracle: dispatch sequence = messages in order, kind-matched, authenticated peer; malformed => reset + exactly one error; nothing after. distinct = distinct outcome classes.",
      design_ref="DESIGN.md 5/C15",
      level_text="exhaustive over the stated fault product",
      level_note="back-off jitter uses math/rand: durations are not pinned, the oracles do not depend on them (only on attempt counts and on the clock not advancing after a cancel)")
CHECKS["C18"]["packages"] = ["l1chan", "schedh", "l2node"]
CHECKS["C07"]["packages"] = ["l1chan", "l2transport", "schedh"]

check("C14",
      packages=["l2monitor"],
      technique="explicit-state BFS with replay over subscriber events, clock ticks and API-call completions on the real channel monitor driven black-box through a parking double of its manager API, under a virtual clock; conformance with a property-level reference (in-flight / queued / consecutive-count / timers)",
      rule="BFS (quick depth 4, thorough depth 6) over 14 operations {Accept, SendDataError, ReceiveDataError, DataSent, FinishTransfer, other event, event with cleanup status, event with terminal status, error of another channel, tick 1u, complete oldest pending call ok / error, add same channel again, Monitor.Shutdown} for configurations max in {1,2,3} x accept/complete timeout in {0,2u,3u} x debounce {0,1u} x backoff {0,2u} (quick: 3 configurations) + disabled; oracle: no overlapping attempts, reconnect/restart call counts and the pending call equal the reference (exact for debounce=backoff=0), close-with-error count equals the reference (<=1; accept/complete timeouts exactly when the event did not arrive in time, never when disabled), unsubscribed + forgotten + never closed after a cleanup/terminal status was seen. distinct = distinct (reference state, API log) pairs.",
      design_ref="DESIGN.md 5/C14",
      level_text="exhaustive within the depth bound",
      level_note="events are delivered at quiescent points; goroutine-level races inside the monitor are covered by the scheduler cells")

check("C01",
      packages=["l3e2e"],
      technique="deviation-bounded exhaustive enumeration of protocol-event orders (held data-transfer messages, parked block reads/commits, gated validations, application actions, disconnect/heal) on two complete real nodes (libp2p mocknet + real go-graphsync + real transports + real managers) in one bubble",
      rule="scenario = direction x payload DAG x store configuration x validator profile; within a scenario every choice vector within the deviation bound: default = release the oldest pending item; deviations = release another pending item first, perform an application step early, inject an application action (pause/resume by either party, voucher, voucher result, disconnect, heal+restart, responder restart, clock tick). After the scripted part everything is drained. Oracle at final quiescence: initiator Completed after Accept => responder Completed and sent a final un-paused Complete, receiver's store holds every selected block byte-identical, receiver.Received = sender.Queued = unique payload size. distinct = distinct final outcomes.",
      design_ref="DESIGN.md 5/C01",
      level_text="exhaustive within the deviation bound over held protocol events; graphsync's internal goroutine schedule between two quiescent points is the Go runtime's",
      level_note="graphsync and libp2p mocknet run for real (uninstrumented); payloads <= 6 blocks")
CHECKS["C20"]["packages"] = ["l2transport", "schedh"]
CHECKS["C20"]["packages"] = ["l2transport", "schedh", "l2node"]
CHECKS["C20"]["packages"] = ["l2transport", "schedh", "l2node", "l3e2e"]
CHECKS["C20"]["race_packages"] = ["schedh"]
CHECKS["C07"]["race_packages"] = ["schedh"]
CHECKS["C18"]["race_packages"] = ["schedh"]
CHECKS["C14"]["packages"] = ["l2monitor", "schedh"]
CHECKS["C17"]["packages"] = ["l2node", "schedh"]
CHECKS["C03"]["packages"] = ["l1chan", "l2node"]
CHECKS["C16"]["packages"] = ["l2transport", "schedh"]
CHECKS["C02"]["packages"] = ["l1chan", "l2node", "schedh"]
CHECKS["C09"]["packages"] = ["l1chan", "l2node", "l2transport", "schedh"]

# ---- addenda: cell families added after the first version (rounds 2-3 of seeded changes, thorough-tier findings)
def _also(pid, rule=None, note=None, technique=None):
    if rule:
        CHECKS[pid]["rule"] += " ALSO: " + rule
    if note is not None:
        CHECKS[pid]["level_note"] = (CHECKS[pid].get("level_note", "") + " " + note).strip()
    if technique:
        CHECKS[pid]["technique"] += "; " + technique


_also("C01", rule="receiver-only per-channel store with an application that keeps the request paused across an early restart (restart before the first block).")
_also("C02", technique="deviation-bounded scheduler enumeration at lock + datastore-operation granularity (terminal announcement vs. queries)",
      rule="manager level (l2node): API restart / incoming restart / validation update on terminal channels, same process and reopened store; scheduler cells (schedh): a channel is closed / failed / completed while a subscriber, the moment a terminal status is announced, queries and restarts it and delivers a restart-existing request - every interleaving with <=1 (thorough 2) preemptions where library locks and every datastore Get/Has/Put/Delete are scheduling points: the query returns the announced status, the restart is a successful no-op, nothing is re-issued.")
_also("C03", rule="manager level: every validator answer vector as a validation update on a finalizing responder - a non-releasing update leaves it in Finalizing, paused, announcing a paused Complete; a releasing one completes it with an un-paused Complete.")
_also("C04", rule="restart kinds additionally x follow-up voucher of type {none, U, T} received before the restart (the request's own type must still decide).")
_also("C06", rule="payload family includes schema-typed (bindnode) values whose representation differs from the type-level view (tuple, renamed map).")
_also("C07", technique="deviation-bounded scheduler enumeration at statement/atomic granularity of the index caches",
      rule="two live channels sharing the numeric transfer id (different initiators): in-order reports, replays and a reopen interleaved in every order to depth 5 (thorough 7) against per-channel references; concurrent reporters (2-3 threads) and concurrent replays after a reopen under the cooperative scheduler.")
_also("C08", rule="while paused at the limit (also after a process restart) every further report returns the pause signal.")
CHECKS["C08"]["level_note"] = "whether an over-limit report re-announces DataLimitExceeded is unconstrained"
_also("C09", technique="deviation-bounded scheduler enumeration of responder-side operation pairs at lock granularity",
      rule="manager and transport level close/cancel cells; scheduler cells: on a received pull channel with a per-channel-store configurer, every pair of {graphsync callbacks, peer messages, API calls} in which one ends the channel, <=1 (thorough 2) preemptions: the cleanup finishes and every call returns. Window alphabet of (b) = bookkeeping + ending operations (a lifecycle event arriving during cleanup is 'further input').")
_also("C13", rule="differential run with both an empty and a null stage log in the v2 record; payload family includes schema-typed values.")
_also("C14", rule="thread cells also start with the channel not yet added: AddPush/PullChannel racing with an event that ends the channel (scheduling point inside SubscribeToEvents of the API double).")
_also("C15", rule="inbound alphabet includes well-formed envelopes whose IsRq flag contradicts the body they carry.")
_also("C16", technique="deviation-bounded scheduler enumeration of (graphsync request hook || CleanupChannel) at lock granularity on the real transport behind a recording events handler",
      rule="hook-vs-cleanup: incoming pull request / request answering our push / restart of a tracked pull, concurrent with CleanupChannel of that channel, <=2 (thorough 4) preemptions; afterwards the request's later callbacks are fired: if the transport no longer tracks the channel none may reach the events handler.")
_also("C17", technique="deviation-bounded scheduler enumeration (caller vs notification goroutine) at lock granularity",
      rule="open-options matrix (subscriber alone / with transport options in either order / with a configurer) x every drivable state; scheduler cells: OpenPush/OpenPull with a per-transfer subscriber (with and without a working configurer) followed by a voucher, <=1 (thorough 3) preemptions: the per-transfer subscriber sees exactly the channel's events, starting with Open.")
_also("C18", technique="deviation-bounded scheduler enumeration at datastore-operation granularity (concurrent duplicate deliveries)",
      rule="manager level: a duplicate new request in every drivable state of a received channel (both directions, both delivery paths, same/different voucher, validator accept/reject) is refused and leaves accessor vector, persisted bytes and event stream untouched; scheduler cells: the same new request delivered twice concurrently, every datastore operation a scheduling point, <=1 (thorough 2) preemptions: accepted at most once and the channel equals the single-delivery reference.")
_also("C19", rule="the same voucher result may be issued twice in a row; every applied NewVoucher / NewVoucherResult adds exactly one log entry, every other operation none.")
_also("C20", rule="responder-side pairs (received pull channel with a UseStore/MaxLinks configurer: restart / duplicate / second request arriving as graphsync requests, peer cancel/pause/voucher messages, block-queued / requestor-cancelled / response-completed callbacks, close, validation update, local restart, queries), <=1 (thorough 2) preemptions; restart+restart+peer-cancels with 2 preemptions (capped); x+y+stop triples; monitor add/terminal races; after every execution no goroutine may remain blocked inside the library. Stuck threads get 30 s + 24 h of virtual time before the verdict. A panic in any goroutine the library starts is recovered by overlay-inserted guards and reported as a violation.")

# C01's thorough tier has ~300 real-graphsync cells; a smaller per-cell deadline keeps the whole check under an hour
CHECKS["C01"]["cell_budget_s"] = {"thorough": 150}
CHECKS["C10"]["packages"] = ["l2node", "l2transport", "schedh"]
_also("C10", technique="deviation-bounded scheduler enumeration of restart pairs at lock granularity", rule="scheduler cells: a restart racing with every other operation of the initiator-side alphabet (incl. a second restart), <=1 (thorough 2) preemptions: at most one outgoing graphsync request of the channel is live afterwards.")
CHECKS["C05"]["packages"] = ["l2node", "schedh", "l2transport"]
CHECKS["C04"]["packages"] = ["l2node", "schedh"]
_also("C05", technique="deviation-bounded scheduler enumeration (restart request vs channel ending) at lock + validator-call granularity", rule="scheduler cells: a restart request for a live received channel racing with the peer's cancel, a local close or a rejecting validation update (the application's validator is a scheduling point), <=1 (thorough 2) preemptions: if the channel ends terminal the transport channel is not re-opened after its close and the connection is not left protected.")
_also("C04", rule="the restart-request-vs-ending scheduler cells of C05 also decide C04's 'a rejected channel stays failed with its transport closed'.")
CHECKS["C08"]["packages"] = ["l2node", "schedh"]
_also("C08", technique="deviation-bounded scheduler enumeration (validation update vs the resumed transport's next block report)", rule="scheduler cells: a channel paused at its limit gets a limit-raising update while the transport, the moment it is resumed, reports the block that reaches the new limit; <=1 (thorough 3) preemptions at lock granularity + the resume point: the report returns the pause signal and the channel ends recorded as paused.")
CHECKS["C14"]["packages"] = ["l2monitor", "schedh", "l2node"]
_also("C14", rule="manager level (monitoring on, accept timeout on the virtual clock): the responder's acceptance handled while the opening call is still handing the request to the network / transport, right after it returned, or never: an accepted channel is never closed by the accept timeout, an unaccepted one is closed once.")
CHECKS["C01"]["packages"] = ["l3e2e", "l2node"]
_also("C01", rule="manager level: the responder's completion with the Complete message held in the network send while the application issues each accepting validation update: an un-paused Complete is only announced by a responder that then settles in Completed.")
_also("C05", rule="transport level: the routing BFS over the real graphsync transport also decides C05 - a data-transfer message of the wrong kind for its sender's role, from a peer that is not the channel's other party or naming another transfer, in either of the two extensions a graphsync response / request update can carry, reaches no events handler and terminates the graphsync request.")
CHECKS["C11"]["packages"] = ["l1chan", "l2node", "schedh"]
_also("C11", technique="deviation-bounded scheduler enumeration (the counterparty's resume vs a local pause) at lock + datastore granularity", rule="scheduler cells: on a responder whose initiator is paused, the initiator's resume (transport callback / network message) races with a local pause, <=1 (thorough 2) preemptions: whenever the local pause is applied first the resume is answered with the pause signal (resp. the transport is paused again), and the flags end initiator-running / responder-paused.")
CHECKS["C07"]["packages"] = ["l1chan", "l2transport", "schedh", "l2node"]
_also("C07", rule="manager level (the transport-events surface the graphsync transport reports to): every unique / non-unique assignment of a four-position block stream with replays in between, per direction and role, against the same reference; a restart hands the transport a channel state with the same totals.")
