// mkoverlay generates a `go build -overlay` file that, without touching /repo,
//   - rewrites the "sync" and "sync/atomic" imports of the go-data-transfer
//     packages (and of go-pubsub) to the shim packages of the harness module
//   - optionally inserts statement-level scheduling points into a few small
//     concurrency cores
//   - optionally replaces/adds extra files listed with -extra (used for
//     calibration mutants and private-state accessors)
//
// Everything is done on the AST (any alias form of the import is handled).
package main

import (
	"bytes"
	"encoding/json"
	"flag"
	"fmt"
	"go/ast"
	"go/parser"
	"go/printer"
	"go/token"
	"os"
	"path/filepath"
	"sort"
	"strconv"
	"strings"
)

var repoPkgs = []string{
	"channels", "impl", "transport/graphsync", "channelmonitor",
	"channelsubscriptions", "registry", "transportoptions", "tracing", "network",
	// no synchronisation today; instrumented so that a change which introduces some (lazy initialisation, pooled
	// buffers) is explored by the first-use cells of C12
	"message/message1_1prime",
}

// files that get statement points (path relative to repo) -> nil = all funcs
var stmtFiles = map[string][]string{
	"impl/timecounter.go":              nil,
	"channels/caches.go":               nil,
	"channelmonitor/channelmonitor.go": nil,
}

const (
	ssyncPath   = "verif/shim/ssync"
	satomicPath = "verif/shim/satomic"
	corePath    = "verif/shim/core"
)

func main() {
	repo := flag.String("repo", "/repo", "repository root")
	out := flag.String("out", "", "output directory (overlay.json + rewritten files)")
	modcache := flag.String("modcache", "", "unused (module-cache files cannot be overlaid; go-pubsub is replaced by harness/third_party)")
	stmt := flag.Bool("stmt-points", true, "insert statement points into the concurrency cores")
	flag.Parse()
	if *out == "" {
		fmt.Fprintln(os.Stderr, "need -out")
		os.Exit(2)
	}
	if abs, err := filepath.Abs(*out); err == nil {
		*out = abs
	}
	if err := os.MkdirAll(*out, 0o755); err != nil {
		fatal(err)
	}
	replace := map[string]string{}
	n := 0
	for _, p := range repoPkgs {
		dir := filepath.Join(*repo, p)
		ents, err := os.ReadDir(dir)
		if err != nil {
			fatal(err)
		}
		for _, e := range ents {
			name := e.Name()
			if e.IsDir() || !strings.HasSuffix(name, ".go") || strings.HasSuffix(name, "_test.go") {
				continue
			}
			src := filepath.Join(dir, name)
			rel := filepath.ToSlash(filepath.Join(p, name))
			_, wantStmt := stmtFiles[rel]
			changed, data, err := rewrite(src, *stmt && wantStmt, rel)
			if err != nil {
				fatal(fmt.Errorf("%s: %w", src, err))
			}
			if !changed {
				continue
			}
			dst := filepath.Join(*out, strings.ReplaceAll(rel, "/", "__")+".txt")
			if err := os.WriteFile(dst, data, 0o644); err != nil {
				fatal(err)
			}
			replace[src] = dst
			n++
		}
	}
	if *modcache != "" {
		src := filepath.Join(*modcache, "github.com/hannahhoward/go-pubsub@v0.0.0-20200423002714-8d62886cc36e/pubsub.go")
		if _, err := os.Stat(src); err == nil {
			changed, data, err := rewrite(src, false, "go-pubsub/pubsub.go")
			if err != nil {
				fatal(err)
			}
			if changed {
				dst := filepath.Join(*out, "gopubsub__pubsub.go.txt")
				if err := os.WriteFile(dst, data, 0o644); err != nil {
					fatal(err)
				}
				replace[src] = dst
				n++
			}
		}
	}
	ov := map[string]any{"Replace": replace}
	b, _ := json.MarshalIndent(ov, "", " ")
	if err := os.WriteFile(filepath.Join(*out, "overlay.json"), b, 0o644); err != nil {
		fatal(err)
	}
	keys := make([]string, 0, len(replace))
	for k := range replace {
		keys = append(keys, k)
	}
	sort.Strings(keys)
	fmt.Printf("mkoverlay: %d files rewritten\n", n)
}

func fatal(err error) {
	fmt.Fprintln(os.Stderr, "mkoverlay:", err)
	os.Exit(2)
}

func rewrite(path string, stmtPoints bool, rel string) (bool, []byte, error) {
	fset := token.NewFileSet()
	f, err := parser.ParseFile(fset, path, nil, parser.ParseComments)
	if err != nil {
		return false, nil, err
	}
	changed := false
	for _, imp := range f.Imports {
		p, _ := strconv.Unquote(imp.Path.Value)
		switch p {
		case "sync":
			if imp.Name == nil {
				imp.Name = ast.NewIdent("sync")
			}
			imp.Path.Value = strconv.Quote(ssyncPath)
			changed = true
		case "sync/atomic":
			if imp.Name == nil {
				imp.Name = ast.NewIdent("atomic")
			}
			imp.Path.Value = strconv.Quote(satomicPath)
			changed = true
		}
	}
	needCore := false
	if stmtPoints {
		cnt := 0
		for _, d := range f.Decls {
			fd, ok := d.(*ast.FuncDecl)
			if !ok || fd.Body == nil {
				continue
			}
			instrumentBlock(fset, fd.Body, rel, &cnt)
		}
		if cnt > 0 {
			needCore = true
		}
	}
	// goroutines started by the library report a panic to the harness instead of killing the worker process
	if guardGoStmts(fset, f, rel) > 0 {
		needCore = true
	}
	if needCore {
		addImport(f, "verifcore", corePath)
		changed = true
	}
	if !changed {
		return false, nil, nil
	}
	var buf bytes.Buffer
	// keep original line numbers as far as possible is not needed; print plainly
	if err := (&printer.Config{Mode: printer.UseSpaces | printer.TabIndent, Tabwidth: 8}).Fprint(&buf, fset, f); err != nil {
		return false, nil, err
	}
	return true, buf.Bytes(), nil
}

// guardGoStmts makes every goroutine the file starts recover a panic and hand it to the harness
// (verifcore.RecoverGoroutine). `go func() {...}()` gets the deferred call prepended to its body; `go f(a, b)`
// with simple arguments (identifiers, selectors, literals) becomes `go func() { defer ...; f(a, b) }()`.
func guardGoStmts(fset *token.FileSet, f *ast.File, rel string) int {
	n := 0
	simple := func(e ast.Expr) bool {
		for {
			switch v := e.(type) {
			case *ast.Ident, *ast.BasicLit:
				return true
			case *ast.SelectorExpr:
				e = v.X
			default:
				return false
			}
		}
	}
	guard := func(pos token.Pos) ast.Stmt {
		loc := fmt.Sprintf("goroutine started at %s:%d", rel, fset.Position(pos).Line)
		return &ast.DeferStmt{Call: &ast.CallExpr{
			Fun:  &ast.SelectorExpr{X: ast.NewIdent("verifcore"), Sel: ast.NewIdent("RecoverGoroutine")},
			Args: []ast.Expr{&ast.BasicLit{Kind: token.STRING, Value: strconv.Quote(loc)}},
		}}
	}
	ast.Inspect(f, func(nd ast.Node) bool {
		g, ok := nd.(*ast.GoStmt)
		if !ok {
			return true
		}
		if lit, ok := g.Call.Fun.(*ast.FuncLit); ok && len(g.Call.Args) == 0 {
			lit.Body.List = append([]ast.Stmt{guard(g.Pos())}, lit.Body.List...)
			n++
			return true
		}
		ok = simple(g.Call.Fun)
		for _, a := range g.Call.Args {
			ok = ok && simple(a)
		}
		if !ok {
			return true
		}
		orig := g.Call
		g.Call = &ast.CallExpr{Fun: &ast.FuncLit{
			Type: &ast.FuncType{Params: &ast.FieldList{}},
			Body: &ast.BlockStmt{List: []ast.Stmt{guard(g.Pos()), &ast.ExprStmt{X: orig}}},
		}}
		n++
		return true
	})
	return n
}

func addImport(f *ast.File, name, path string) {
	spec := &ast.ImportSpec{Name: ast.NewIdent(name), Path: &ast.BasicLit{Kind: token.STRING, Value: strconv.Quote(path)}}
	decl := &ast.GenDecl{Tok: token.IMPORT, Specs: []ast.Spec{spec}}
	f.Decls = append([]ast.Decl{decl}, f.Decls...)
	f.Imports = append(f.Imports, spec)
}

func pointStmt(fset *token.FileSet, pos token.Pos, rel string) ast.Stmt {
	line := fset.Position(pos).Line
	return &ast.ExprStmt{X: &ast.CallExpr{
		Fun:  &ast.SelectorExpr{X: ast.NewIdent("verifcore"), Sel: ast.NewIdent("Point")},
		Args: []ast.Expr{&ast.BasicLit{Kind: token.STRING, Value: strconv.Quote("stmt")}, &ast.BasicLit{Kind: token.STRING, Value: strconv.Quote(fmt.Sprintf("%s:%d", rel, line))}},
	}}
}

func instrumentList(fset *token.FileSet, list []ast.Stmt, rel string, cnt *int) []ast.Stmt {
	out := make([]ast.Stmt, 0, 2*len(list))
	for _, s := range list {
		switch s.(type) {
		case *ast.DeclStmt, *ast.EmptyStmt:
		default:
			out = append(out, pointStmt(fset, s.Pos(), rel))
			*cnt++
		}
		instrumentStmt(fset, s, rel, cnt)
		out = append(out, s)
	}
	return out
}

func instrumentBlock(fset *token.FileSet, b *ast.BlockStmt, rel string, cnt *int) {
	if b == nil {
		return
	}
	b.List = instrumentList(fset, b.List, rel, cnt)
}

func instrumentStmt(fset *token.FileSet, s ast.Stmt, rel string, cnt *int) {
	switch x := s.(type) {
	case *ast.BlockStmt:
		instrumentBlock(fset, x, rel, cnt)
	case *ast.IfStmt:
		instrumentBlock(fset, x.Body, rel, cnt)
		if x.Else != nil {
			instrumentStmt(fset, x.Else, rel, cnt)
		}
	case *ast.ForStmt:
		instrumentBlock(fset, x.Body, rel, cnt)
	case *ast.RangeStmt:
		instrumentBlock(fset, x.Body, rel, cnt)
	case *ast.SwitchStmt:
		for _, c := range x.Body.List {
			cc := c.(*ast.CaseClause)
			cc.Body = instrumentList(fset, cc.Body, rel, cnt)
		}
	case *ast.TypeSwitchStmt:
		for _, c := range x.Body.List {
			cc := c.(*ast.CaseClause)
			cc.Body = instrumentList(fset, cc.Body, rel, cnt)
		}
	case *ast.SelectStmt:
		for _, c := range x.Body.List {
			cc := c.(*ast.CommClause)
			cc.Body = instrumentList(fset, cc.Body, rel, cnt)
		}
	case *ast.LabeledStmt:
		instrumentStmt(fset, x.Stmt, rel, cnt)
	case *ast.GoStmt:
		if fl, ok := x.Call.Fun.(*ast.FuncLit); ok {
			instrumentBlock(fset, fl.Body, rel, cnt)
		}
	case *ast.DeferStmt:
		if fl, ok := x.Call.Fun.(*ast.FuncLit); ok {
			instrumentBlock(fset, fl.Body, rel, cnt)
		}
	case *ast.ExprStmt, *ast.AssignStmt, *ast.ReturnStmt:
		// instrument function literals appearing in expressions (callbacks)
		ast.Inspect(s, func(n ast.Node) bool {
			if fl, ok := n.(*ast.FuncLit); ok {
				instrumentBlock(fset, fl.Body, rel, cnt)
				return false
			}
			return true
		})
	}
}
