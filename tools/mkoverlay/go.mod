module mkoverlay

go 1.23
