// Package ssync replaces "sync" inside the instrumented go-data-transfer
// packages. Mutex and RWMutex block on channels (durable blocking for
// testing/synctest, so a lock-order deadlock is visible at quiescence) and call
// core.Point before every operation. Everything else aliases the real package.
package ssync

import (
	stdsync "sync"

	"verif/shim/core"
)

type (
	Once      = stdsync.Once
	WaitGroup = stdsync.WaitGroup
	Cond      = stdsync.Cond
	Map       = stdsync.Map
	Pool      = stdsync.Pool
	Locker    = stdsync.Locker
)

var (
	NewCond  = stdsync.NewCond
	OnceFunc = stdsync.OnceFunc
)

func OnceValue[T any](f func() T) func() T                     { return stdsync.OnceValue(f) }
func OnceValues[T1, T2 any](f func() (T1, T2)) func() (T1, T2) { return stdsync.OnceValues(f) }

// Mutex is a FIFO hand-off mutex whose waiters park on channels.
type Mutex struct {
	mu      stdsync.Mutex
	locked  bool
	waiters []chan struct{}
}

func (m *Mutex) Lock() {
	core.Point("lock", m)
	m.mu.Lock()
	if !m.locked {
		m.locked = true
		m.mu.Unlock()
		return
	}
	w := make(chan struct{})
	m.waiters = append(m.waiters, w)
	m.mu.Unlock()
	core.Park(w)
}

func (m *Mutex) TryLock() bool {
	core.Point("trylock", m)
	m.mu.Lock()
	defer m.mu.Unlock()
	if m.locked {
		return false
	}
	m.locked = true
	return true
}

func (m *Mutex) Unlock() {
	core.Point("unlock", m)
	m.mu.Lock()
	if !m.locked {
		m.mu.Unlock()
		panic("ssync: unlock of unlocked mutex")
	}
	if len(m.waiters) > 0 {
		w := m.waiters[0]
		m.waiters = m.waiters[1:]
		m.mu.Unlock()
		close(w) // ownership is handed over; locked stays true
		return
	}
	m.locked = false
	m.mu.Unlock()
}

// CanAcquire reports whether a Lock would succeed without blocking (scheduler introspection).
func (m *Mutex) CanAcquire(kind string) bool {
	m.mu.Lock()
	defer m.mu.Unlock()
	return !m.locked
}

// Held reports whether the mutex is currently locked (harness introspection).
func (m *Mutex) Held() bool {
	m.mu.Lock()
	defer m.mu.Unlock()
	return m.locked
}

type rwWaiter struct {
	ch     chan struct{}
	writer bool
}

// RWMutex with writer preference like the real one: a waiting writer blocks
// new readers.
type RWMutex struct {
	mu      stdsync.Mutex
	writer  bool
	readers int
	waiters []rwWaiter
}

func (m *RWMutex) Lock() {
	core.Point("lock", m)
	m.mu.Lock()
	if !m.writer && m.readers == 0 && len(m.waiters) == 0 {
		m.writer = true
		m.mu.Unlock()
		return
	}
	w := rwWaiter{make(chan struct{}), true}
	m.waiters = append(m.waiters, w)
	m.mu.Unlock()
	core.Park(w.ch)
}

func (m *RWMutex) TryLock() bool {
	core.Point("trylock", m)
	m.mu.Lock()
	defer m.mu.Unlock()
	if !m.writer && m.readers == 0 && len(m.waiters) == 0 {
		m.writer = true
		return true
	}
	return false
}

func (m *RWMutex) RLock() {
	core.Point("rlock", m)
	m.mu.Lock()
	if !m.writer && len(m.waiters) == 0 {
		m.readers++
		m.mu.Unlock()
		return
	}
	w := rwWaiter{make(chan struct{}), false}
	m.waiters = append(m.waiters, w)
	m.mu.Unlock()
	core.Park(w.ch)
}

func (m *RWMutex) TryRLock() bool {
	core.Point("trylock", m)
	m.mu.Lock()
	defer m.mu.Unlock()
	if !m.writer && len(m.waiters) == 0 {
		m.readers++
		return true
	}
	return false
}

// wake hands the lock to the head of the queue (a writer, or a maximal run of readers).
// Called with m.mu held and the lock free of writers.
func (m *RWMutex) wake() []chan struct{} {
	var out []chan struct{}
	if len(m.waiters) == 0 {
		return nil
	}
	if m.waiters[0].writer {
		if m.readers == 0 {
			m.writer = true
			out = append(out, m.waiters[0].ch)
			m.waiters = m.waiters[1:]
		}
		return out
	}
	for len(m.waiters) > 0 && !m.waiters[0].writer {
		m.readers++
		out = append(out, m.waiters[0].ch)
		m.waiters = m.waiters[1:]
	}
	return out
}

func (m *RWMutex) Unlock() {
	core.Point("unlock", m)
	m.mu.Lock()
	if !m.writer {
		m.mu.Unlock()
		panic("ssync: Unlock of unlocked RWMutex")
	}
	m.writer = false
	ws := m.wake()
	m.mu.Unlock()
	for _, w := range ws {
		close(w)
	}
}

func (m *RWMutex) RUnlock() {
	core.Point("runlock", m)
	m.mu.Lock()
	if m.readers <= 0 {
		m.mu.Unlock()
		panic("ssync: RUnlock of unlocked RWMutex")
	}
	m.readers--
	var ws []chan struct{}
	if m.readers == 0 {
		ws = m.wake()
	}
	m.mu.Unlock()
	for _, w := range ws {
		close(w)
	}
}

// CanAcquire reports whether Lock ("lock") / RLock ("rlock") would succeed without blocking.
func (m *RWMutex) CanAcquire(kind string) bool {
	m.mu.Lock()
	defer m.mu.Unlock()
	if kind == "rlock" {
		return !m.writer && len(m.waiters) == 0
	}
	return !m.writer && m.readers == 0 && len(m.waiters) == 0
}

type rlocker RWMutex

func (r *rlocker) Lock()   { (*RWMutex)(r).RLock() }
func (r *rlocker) Unlock() { (*RWMutex)(r).RUnlock() }

func (m *RWMutex) RLocker() Locker { return (*rlocker)(m) }

// QuietMutex is Mutex without scheduling points: blocking is durable (a waiter parks on a channel, so a
// synctest bubble sees it as blocked and core.Abort can release it) but acquiring it is not a decision point of
// the cooperative scheduler. Used for the locks of vendored dependencies (go-statemachine's group lock), which
// must not block on a real sync.Mutex inside a bubble when their holder is parked at a harness scheduling point.
type QuietMutex struct {
	mu      stdsync.Mutex
	locked  bool
	waiters []chan struct{}
}

func (m *QuietMutex) Lock() {
	m.mu.Lock()
	if !m.locked {
		m.locked = true
		m.mu.Unlock()
		return
	}
	w := make(chan struct{})
	m.waiters = append(m.waiters, w)
	m.mu.Unlock()
	core.Park(w)
}

func (m *QuietMutex) Unlock() {
	m.mu.Lock()
	if !m.locked {
		m.mu.Unlock()
		panic("ssync: unlock of unlocked mutex")
	}
	if len(m.waiters) > 0 {
		w := m.waiters[0]
		m.waiters = m.waiters[1:]
		m.mu.Unlock()
		close(w)
		return
	}
	m.locked = false
	m.mu.Unlock()
}
