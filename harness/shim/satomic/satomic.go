// Package satomic replaces "sync/atomic" inside the instrumented packages: the
// same API, with a core.Point before every operation.
package satomic

import (
	stdatomic "sync/atomic"
	"unsafe"

	"verif/shim/core"
)

func AddInt32(addr *int32, delta int32) int32 {
	core.Point("atomic", addr)
	return stdatomic.AddInt32(addr, delta)
}
func AddInt64(addr *int64, delta int64) int64 {
	core.Point("atomic", addr)
	return stdatomic.AddInt64(addr, delta)
}
func AddUint32(addr *uint32, delta uint32) uint32 {
	core.Point("atomic", addr)
	return stdatomic.AddUint32(addr, delta)
}
func AddUint64(addr *uint64, delta uint64) uint64 {
	core.Point("atomic", addr)
	return stdatomic.AddUint64(addr, delta)
}
func LoadInt32(addr *int32) int32        { core.Point("atomic", addr); return stdatomic.LoadInt32(addr) }
func LoadInt64(addr *int64) int64        { core.Point("atomic", addr); return stdatomic.LoadInt64(addr) }
func LoadUint32(addr *uint32) uint32     { core.Point("atomic", addr); return stdatomic.LoadUint32(addr) }
func LoadUint64(addr *uint64) uint64     { core.Point("atomic", addr); return stdatomic.LoadUint64(addr) }
func StoreInt32(addr *int32, v int32)    { core.Point("atomic", addr); stdatomic.StoreInt32(addr, v) }
func StoreInt64(addr *int64, v int64)    { core.Point("atomic", addr); stdatomic.StoreInt64(addr, v) }
func StoreUint32(addr *uint32, v uint32) { core.Point("atomic", addr); stdatomic.StoreUint32(addr, v) }
func StoreUint64(addr *uint64, v uint64) { core.Point("atomic", addr); stdatomic.StoreUint64(addr, v) }
func SwapInt32(addr *int32, v int32) int32 {
	core.Point("atomic", addr)
	return stdatomic.SwapInt32(addr, v)
}
func SwapInt64(addr *int64, v int64) int64 {
	core.Point("atomic", addr)
	return stdatomic.SwapInt64(addr, v)
}
func SwapUint32(addr *uint32, v uint32) uint32 {
	core.Point("atomic", addr)
	return stdatomic.SwapUint32(addr, v)
}
func SwapUint64(addr *uint64, v uint64) uint64 {
	core.Point("atomic", addr)
	return stdatomic.SwapUint64(addr, v)
}
func CompareAndSwapInt32(addr *int32, old, new int32) bool {
	core.Point("atomic", addr)
	r := stdatomic.CompareAndSwapInt32(addr, old, new)
	core.Point("atomic-post", addr)
	return r
}
func CompareAndSwapInt64(addr *int64, old, new int64) bool {
	core.Point("atomic", addr)
	r := stdatomic.CompareAndSwapInt64(addr, old, new)
	core.Point("atomic-post", addr)
	return r
}
func CompareAndSwapUint32(addr *uint32, old, new uint32) bool {
	core.Point("atomic", addr)
	r := stdatomic.CompareAndSwapUint32(addr, old, new)
	core.Point("atomic-post", addr)
	return r
}
func CompareAndSwapUint64(addr *uint64, old, new uint64) bool {
	core.Point("atomic", addr)
	r := stdatomic.CompareAndSwapUint64(addr, old, new)
	core.Point("atomic-post", addr)
	return r
}
func LoadPointer(addr *unsafe.Pointer) unsafe.Pointer {
	core.Point("atomic", addr)
	return stdatomic.LoadPointer(addr)
}
func StorePointer(addr *unsafe.Pointer, v unsafe.Pointer) {
	core.Point("atomic", addr)
	stdatomic.StorePointer(addr, v)
}

type Int32 struct{ v stdatomic.Int32 }

func (x *Int32) Load() int32        { core.Point("atomic", x); return x.v.Load() }
func (x *Int32) Store(v int32)      { core.Point("atomic", x); x.v.Store(v) }
func (x *Int32) Add(d int32) int32  { core.Point("atomic", x); return x.v.Add(d) }
func (x *Int32) Swap(v int32) int32 { core.Point("atomic", x); return x.v.Swap(v) }
func (x *Int32) CompareAndSwap(o, n int32) bool {
	core.Point("atomic", x)
	r := x.v.CompareAndSwap(o, n)
	core.Point("atomic-post", x) // the guard is taken; what it guards may be invisible to the scheduler
	return r
}

type Int64 struct{ v stdatomic.Int64 }

func (x *Int64) Load() int64        { core.Point("atomic", x); return x.v.Load() }
func (x *Int64) Store(v int64)      { core.Point("atomic", x); x.v.Store(v) }
func (x *Int64) Add(d int64) int64  { core.Point("atomic", x); return x.v.Add(d) }
func (x *Int64) Swap(v int64) int64 { core.Point("atomic", x); return x.v.Swap(v) }
func (x *Int64) CompareAndSwap(o, n int64) bool {
	core.Point("atomic", x)
	r := x.v.CompareAndSwap(o, n)
	core.Point("atomic-post", x) // the guard is taken; what it guards may be invisible to the scheduler
	return r
}

type Uint32 struct{ v stdatomic.Uint32 }

func (x *Uint32) Load() uint32         { core.Point("atomic", x); return x.v.Load() }
func (x *Uint32) Store(v uint32)       { core.Point("atomic", x); x.v.Store(v) }
func (x *Uint32) Add(d uint32) uint32  { core.Point("atomic", x); return x.v.Add(d) }
func (x *Uint32) Swap(v uint32) uint32 { core.Point("atomic", x); return x.v.Swap(v) }
func (x *Uint32) CompareAndSwap(o, n uint32) bool {
	core.Point("atomic", x)
	r := x.v.CompareAndSwap(o, n)
	core.Point("atomic-post", x) // the guard is taken; what it guards may be invisible to the scheduler
	return r
}

type Uint64 struct{ v stdatomic.Uint64 }

func (x *Uint64) Load() uint64         { core.Point("atomic", x); return x.v.Load() }
func (x *Uint64) Store(v uint64)       { core.Point("atomic", x); x.v.Store(v) }
func (x *Uint64) Add(d uint64) uint64  { core.Point("atomic", x); return x.v.Add(d) }
func (x *Uint64) Swap(v uint64) uint64 { core.Point("atomic", x); return x.v.Swap(v) }
func (x *Uint64) CompareAndSwap(o, n uint64) bool {
	core.Point("atomic", x)
	r := x.v.CompareAndSwap(o, n)
	core.Point("atomic-post", x) // the guard is taken; what it guards may be invisible to the scheduler
	return r
}

type Bool struct{ v stdatomic.Bool }

func (x *Bool) Load() bool       { core.Point("atomic", x); return x.v.Load() }
func (x *Bool) Store(v bool)     { core.Point("atomic", x); x.v.Store(v) }
func (x *Bool) Swap(v bool) bool { core.Point("atomic", x); return x.v.Swap(v) }
func (x *Bool) CompareAndSwap(o, n bool) bool {
	core.Point("atomic", x)
	r := x.v.CompareAndSwap(o, n)
	core.Point("atomic-post", x) // the guard is taken; what it guards may be invisible to the scheduler
	return r
}

type Value struct{ v stdatomic.Value }

func (x *Value) Load() any      { core.Point("atomic", x); return x.v.Load() }
func (x *Value) Store(v any)    { core.Point("atomic", x); x.v.Store(v) }
func (x *Value) Swap(v any) any { core.Point("atomic", x); return x.v.Swap(v) }
func (x *Value) CompareAndSwap(o, n any) bool {
	core.Point("atomic", x)
	r := x.v.CompareAndSwap(o, n)
	core.Point("atomic-post", x) // the guard is taken; what it guards may be invisible to the scheduler
	return r
}

type Pointer[T any] struct{ v stdatomic.Pointer[T] }

func (x *Pointer[T]) Load() *T     { core.Point("atomic", x); return x.v.Load() }
func (x *Pointer[T]) Store(v *T)   { core.Point("atomic", x); x.v.Store(v) }
func (x *Pointer[T]) Swap(v *T) *T { core.Point("atomic", x); return x.v.Swap(v) }
func (x *Pointer[T]) CompareAndSwap(o, n *T) bool {
	core.Point("atomic", x)
	return x.v.CompareAndSwap(o, n)
}
