// Package core is the tiny runtime shared by the sync/atomic shims that the
// build-time overlay injects into the go-data-transfer packages.
//
// It offers three things to the harnesses:
//   - Point: a scheduling point hook (no-op unless a scheduler is installed)
//   - Parked: how many goroutines are currently parked in a shim lock
//   - Abort: wake every goroutine parked in a shim lock and make it exit, so a
//     detected deadlock can still be torn down inside a synctest bubble
package core

import (
	"fmt"
	"runtime"
	"runtime/debug"
	stdsync "sync"
	stdatomic "sync/atomic"
)

// Hook is called before every instrumented synchronisation step.
// kind: "lock","rlock","unlock","runlock","atomic","stmt","trylock"; obj identifies the object.
type Hook func(kind string, obj any)

var hook stdatomic.Pointer[Hook]

// SetHook installs (or removes, with nil) the scheduling hook.
func SetHook(h Hook) {
	if h == nil {
		hook.Store(nil)
		return
	}
	hook.Store(&h)
}

// Point is invoked by the shims before each synchronisation operation.
func Point(kind string, obj any) {
	if h := hook.Load(); h != nil {
		(*h)(kind, obj)
	}
}

var parked stdatomic.Int64

// Parked returns the number of goroutines currently blocked inside a shim lock.
func Parked() int64 { return parked.Load() }

var (
	abortMu stdsync.Mutex
	abortCh = make(chan struct{})
	aborted bool
)

// AbortCh returns the channel closed by Abort (valid for the current epoch).
func AbortCh() <-chan struct{} {
	abortMu.Lock()
	defer abortMu.Unlock()
	return abortCh
}

// Abort wakes every goroutine parked in a shim lock; each of them calls
// runtime.Goexit. After Abort the process must not be reused for further
// executions that share package-level locks; Reset re-arms it for fresh objects.
func Abort() {
	abortMu.Lock()
	defer abortMu.Unlock()
	if !aborted {
		aborted = true
		close(abortCh)
	}
}

// Aborted tells whether Abort was called in this epoch.
func Aborted() bool {
	abortMu.Lock()
	defer abortMu.Unlock()
	return aborted
}

// Reset starts a new epoch (call between executions, outside any bubble or at
// the very start of a bubble before any repo code runs).
func Reset() {
	abortMu.Lock()
	defer abortMu.Unlock()
	abortCh = make(chan struct{})
	aborted = false
	parked.Store(0)
	panicMu.Lock()
	panicLog = nil
	panicMu.Unlock()
}

// Park blocks on w until it is closed or the epoch is aborted (then Goexit).
func Park(w <-chan struct{}) {
	ab := AbortCh()
	parked.Add(1)
	select {
	case <-w:
		parked.Add(-1)
	case <-ab:
		parked.Add(-1)
		runtime.Goexit()
	}
}

// ---- panics in goroutines the harness does not own (the vendored go-statemachine reports them here instead of
// letting them kill the worker process, so that "the node crashed" becomes an observable verdict)

var (
	panicMu  stdsync.Mutex
	panicLog []string
)

// RecordPanic is called from a recover() in an instrumented dependency goroutine.
func RecordPanic(where string, v any, stack []byte) {
	panicMu.Lock()
	defer panicMu.Unlock()
	panicLog = append(panicLog, fmt.Sprintf("%s: %v\n%s", where, v, stack))
}

// TakePanics returns and clears the recorded panics.
func TakePanics() []string {
	panicMu.Lock()
	defer panicMu.Unlock()
	out := panicLog
	panicLog = nil
	return out
}

// RecoverGoroutine is deferred at the top of every goroutine that an instrumented package starts (inserted by
// mkoverlay): a panic is recorded for the harness instead of killing the worker process.
func RecoverGoroutine(where string) {
	if r := recover(); r != nil {
		RecordPanic(where, r, debug.Stack())
	}
}
