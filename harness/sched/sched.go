// Package sched is the cooperative scheduler: goroutines that reach an
// instrumented point (shim lock / atomic / statement point) park on a bubble
// channel; the driver waits for quiescence, picks one enabled thread through
// the chooser, wakes it, and repeats. Canonical enabled order: the thread that
// ran last first (if still enabled), then ascending logical id (order of first
// appearance). Switching away from a still-enabled thread is a preemption.
package sched

import (
	"fmt"
	"runtime"
	"runtime/debug"
	"sort"
	"strconv"
	"strings"
	"sync"
	"testing/synctest"
	"time"

	"verif/mc"
	"verif/shim/core"
)

type state int

const (
	running state = iota
	parked
	done
)

type thread struct {
	id    int // logical id = order of first appearance
	name  string
	gid   int64
	st    state
	kind  string
	obj   any
	wake  chan struct{}
	named bool // started through Go (completion is tracked)
}

// Filter decides whether a point is a scheduling point.
type Filter func(kind string, obj any) bool

// Sched is one scheduler instance (one per execution).
type Sched struct {
	mu        sync.Mutex
	byGid     map[int64]*thread
	threads   []*thread
	driver    int64
	filter    Filter
	last      *thread
	Steps     int
	Preempts  int
	Trace     []string
	lockProbe func(obj any, kind string) bool
}

// New installs a scheduler; call Close when the execution ends.
func New(filter Filter) *Sched {
	s := &Sched{byGid: map[int64]*thread{}, driver: goid(), filter: filter}
	core.SetHook(s.point)
	return s
}

// Close removes the hook and releases every parked thread.
func (s *Sched) Close() {
	core.SetHook(nil)
	s.Drain()
}

func goid() int64 {
	var buf [64]byte
	n := runtime.Stack(buf[:], false)
	f := strings.Fields(string(buf[:n]))
	if len(f) < 2 {
		return -1
	}
	id, _ := strconv.ParseInt(f[1], 10, 64)
	return id
}

// canAcquire lets the shim types tell whether a lock operation would block.
type canAcquire interface{ CanAcquire(kind string) bool }

func (s *Sched) point(kind string, obj any) {
	if s.filter != nil && !s.filter(kind, obj) {
		return
	}
	g := goid()
	if g == s.driver {
		return
	}
	s.mu.Lock()
	t := s.byGid[g]
	if t == nil {
		t = &thread{id: len(s.threads), gid: g, wake: make(chan struct{})}
		t.name = fmt.Sprintf("lib%d", t.id)
		s.byGid[g] = t
		s.threads = append(s.threads, t)
	}
	t.kind, t.obj, t.st = kind, obj, parked
	s.mu.Unlock()
	<-t.wake
	s.mu.Lock()
	t.st = running
	s.mu.Unlock()
}

// Go starts fn as a named thread. The thread parks at an initial point before running fn.
func (s *Sched) Go(name string, fn func()) *mc.CallResult {
	return mc.Go(func() {
		t := s.startPoint(name)
		defer func() {
			s.mu.Lock()
			t.st = done
			s.mu.Unlock()
		}()
		defer func() {
			// a panic of an operation under test is a finding, not something to swallow: hand it to the harness
			// (mc.Bubble reports it as the execution's panic) and let mc.Go capture it as before
			if r := recover(); r != nil {
				core.RecordPanic("scheduler thread "+name, r, debug.Stack())
				panic(r)
			}
		}()
		fn()
	})
}

func (s *Sched) startPoint(name string) *thread {
	g := goid()
	s.mu.Lock()
	t := &thread{id: len(s.threads), gid: g, wake: make(chan struct{}), name: name, named: true, kind: "start", st: parked}
	s.byGid[g] = t
	s.threads = append(s.threads, t)
	s.mu.Unlock()
	<-t.wake
	s.mu.Lock()
	t.st = running
	s.mu.Unlock()
	return t
}

func (s *Sched) enabled() []*thread {
	s.mu.Lock()
	defer s.mu.Unlock()
	var en []*thread
	for _, t := range s.threads {
		if t.st != parked {
			continue
		}
		if ca, ok := t.obj.(canAcquire); ok && (t.kind == "lock" || t.kind == "rlock") && !ca.CanAcquire(t.kind) {
			continue
		}
		en = append(en, t)
	}
	sort.SliceStable(en, func(i, j int) bool {
		if en[i] == s.last {
			return true
		}
		if en[j] == s.last {
			return false
		}
		return en[i].id < en[j].id
	})
	return en
}

// Step waits for quiescence and runs one scheduling decision. It returns false when no thread is enabled.
func (s *Sched) Step(c *mc.Chooser) bool {
	synctest.Wait()
	en := s.enabled()
	if len(en) == 0 {
		return false
	}
	label := "F" // free switch (the last thread is blocked or done)
	if en[0] == s.last {
		label = "P" // choosing another thread is a preemption
	}
	names := make([]string, len(en))
	for i, t := range en {
		names[i] = t.name
	}
	i := c.Choose(len(en), label+":"+strings.Join(names, ","))
	t := en[i]
	if label == "P" && i != 0 {
		s.Preempts++
	}
	s.last = t
	s.Steps++
	if len(s.Trace) < 400 {
		s.Trace = append(s.Trace, fmt.Sprintf("%s@%s", t.name, t.kind))
	}
	t.wake <- struct{}{}
	return true
}

// Run schedules until no thread is enabled; when threads remain unfinished it advances the
// virtual clock (up to maxTicks x tick) so that timers can fire. It returns the named
// threads that never finished (deadlock / hang).
func (s *Sched) Run(c *mc.Chooser, maxSteps int, tick time.Duration, maxTicks int) (stuck []string, capped bool) {
	ticks := 0
	for {
		if s.Steps >= maxSteps {
			capped = true
			break
		}
		if s.Step(c) {
			continue
		}
		if s.unfinished() == 0 || ticks >= maxTicks || tick == 0 {
			break
		}
		ticks++
		time.Sleep(tick)
	}
	synctest.Wait()
	s.mu.Lock()
	for _, t := range s.threads {
		if t.named && t.st != done {
			stuck = append(stuck, t.name)
		}
	}
	s.mu.Unlock()
	return
}

func (s *Sched) unfinished() int {
	s.mu.Lock()
	defer s.mu.Unlock()
	n := 0
	for _, t := range s.threads {
		if t.named && t.st != done {
			n++
		}
	}
	return n
}

// Drain wakes parked threads (canonical order, no choices) until none is parked.
func (s *Sched) Drain() {
	for i := 0; i < 100000; i++ {
		synctest.Wait()
		s.mu.Lock()
		var next *thread
		for _, t := range s.threads {
			if t.st == parked {
				next = t
				break
			}
		}
		s.mu.Unlock()
		if next == nil {
			return
		}
		next.wake <- struct{}{}
	}
}

// Cost is the deviation-cost function for mc.EnumOpts: only preemptions cost.
func Cost(p mc.Point, alt int) int {
	if alt != 0 && strings.HasPrefix(p.Label, "P:") {
		return 1
	}
	return 0
}
