// Package mc is the explorer core: choice points, bubbles (one execution =
// one testing/synctest bubble on fresh real objects), exhaustive enumeration
// of choice vectors with a deviation bound, explicit-state BFS with replay,
// cells (independent units of exploration that the driver shards over worker
// processes), and the JSONL result protocol read by bin/check.
package mc

import (
	"crypto/sha256"
	"encoding/hex"
	"encoding/json"
	"fmt"
	"os"
	"path/filepath"
	"regexp"
	"runtime"
	"runtime/debug"
	"sort"
	"strconv"
	"strings"
	"sync"
	"testing"
	"testing/synctest"
	"time"

	"verif/shim/core"
)

// ---------------------------------------------------------------- choices

// Point is one recorded choice.
type Point struct {
	N      int    `json:"n"`
	Label  string `json:"l"`
	Chosen int    `json:"c"`
}

// Chooser answers Choose calls from a prefix, then with 0 (the default).
type Chooser struct {
	Prefix []int
	Trace  []Point
}

// ErrDiverged is panicked when a replayed prefix does not fit the execution.
type ErrDiverged struct{ Msg string }

func (e ErrDiverged) Error() string { return "mc: replay diverged: " + e.Msg }

// Choose returns a value in [0,n). n<=0 panics; n==1 is not recorded.
func (c *Chooser) Choose(n int, label string) int {
	if n <= 0 {
		panic(fmt.Sprintf("mc: Choose(%d,%s)", n, label))
	}
	if n == 1 {
		return 0
	}
	i := len(c.Trace)
	v := 0
	if i < len(c.Prefix) {
		v = c.Prefix[i]
		if v < 0 || v >= n {
			panic(ErrDiverged{fmt.Sprintf("choice %d=%d out of range %d at %s", i, v, n, label)})
		}
	}
	c.Trace = append(c.Trace, Point{n, label, v})
	return v
}

// Choices returns the chosen values of the trace.
func (c *Chooser) Choices() []int {
	out := make([]int, len(c.Trace))
	for i, p := range c.Trace {
		out[i] = p.Chosen
	}
	return out
}

// ---------------------------------------------------------------- bubbles

// Bubble runs f inside a fresh synctest bubble. A panic of f's goroutine is
// recovered and returned (with stack). Panics in other goroutines are not
// recoverable by design: harness bodies wrap the calls they make in Go().
func Bubble(t *testing.T, f func()) (pv any, stack string) {
	defer func() {
		// every goroutine of the bubble is durably blocked and no timer is pending: some call of the execution can
		// never return. synctest reports that by panicking here, outside the bubble; it is the verdict of this one
		// execution (returned like a panic of the body, with the stacks of the goroutines left behind), not the end
		// of the cell. The blocked goroutines stay behind; each execution builds its own world, so they are inert.
		if r := recover(); r != nil {
			if d, ok := r.(ErrDiverged); ok {
				panic(d)
			}
			if !strings.Contains(fmt.Sprint(r), "all goroutines in bubble are blocked") {
				panic(r)
			}
			buf := make([]byte, 1<<18)
			buf = buf[:runtime.Stack(buf, true)]
			pv, stack = "deadlock: every goroutine of the execution is blocked for good (a call never returns)", bubbleStacks(string(buf))
		}
	}()
	synctest.Test(t, func(t *testing.T) {
		core.Reset()
		defer func() {
			if r := recover(); r != nil {
				pv = r
				stack = string(debug.Stack())
			}
			// panics recovered in instrumented dependency goroutines (go-statemachine planner / entry functions)
			if ps := core.TakePanics(); len(ps) > 0 && pv == nil {
				pv = "panic in a library goroutine"
				stack = ps[0]
			}
			// the execution is over and its verdict taken: release whatever is still parked in a shim lock or in one
			// of the vendored dependencies' escape points, so that the bubble can end (also after a diverged replay)
			core.Abort()
		}()
		f()
	})
	if d, ok := pv.(ErrDiverged); ok {
		// a replayed prefix did not fit: propagate to the explorer (outside the bubble)
		panic(d)
	}
	return
}

// Wait is synctest.Wait.
func Wait() { synctest.Wait() }

// CallResult describes one call made through Go/Call.
type CallResult struct {
	done  chan struct{}
	Panic any
	Stack string
	fn    func()
}

// Go starts fn in a new goroutine of the bubble; a panic is captured.
func Go(fn func()) *CallResult {
	r := &CallResult{done: make(chan struct{})}
	go func() {
		defer close(r.done)
		defer func() {
			if p := recover(); p != nil {
				r.Panic = p
				r.Stack = string(debug.Stack())
			}
		}()
		fn()
	}()
	return r
}

// Returned reports whether the call has returned (or panicked) yet.
func (r *CallResult) Returned() bool {
	select {
	case <-r.done:
		return true
	default:
		return false
	}
}

// Call runs fn to quiescence. It returns hang=true if the call has still not
// returned after the virtual clock was advanced by 24h (so every timeout /
// context deadline had its chance).
func Call(fn func()) (hang bool, r *CallResult) {
	r = Go(fn)
	synctest.Wait()
	if r.Returned() {
		return false, r
	}
	time.Sleep(24 * time.Hour)
	synctest.Wait()
	return !r.Returned(), r
}

// ---------------------------------------------------------------- cells

// Violation is one property violation found by a cell.
type Violation struct {
	Property  string `json:"property"`
	Signature string `json:"signature"` // stable identifier of the failing input / call site / history class
	Message   string `json:"message"`
	Replay    any    `json:"replay,omitempty"`
	Cell      string `json:"cell"`
	Pkg       string `json:"pkg"`
}

// Cell is the context handed to a registered cell function.
type Cell struct {
	T    *testing.T
	Prop string
	Tier string
	Name string
	Pkg  string
	Seed int64

	Executions  int64
	Transitions int64
	Premise     int64 // executions whose premise was true (non-vacuous)
	states      map[string]struct{}
	outcomes    map[string]struct{}
	samples     []any
	Violations  []Violation
	seenSig     map[string]int
	Caps        []string
	Bounds      []string // designed bounds that were reached (do not make the run non-exhaustive)
	Exhaustive  bool
	Notes       map[string]int64
	start       time.Time
	deadline    time.Time
	Fatal       bool // set when the cell cannot continue (execution aborted)
	DebugLog    []string
	Index       int // index of the cell in its package's (property, tier) list
	probing     bool
	probeSeen   map[string]bool
	deferEmit   bool
	unconfirmed []int
}

// Thorough tells whether the thorough tier is running.
func (x *Cell) Thorough() bool { return x.Tier == "thorough" }

// Pick returns q for quick and th for thorough.
func (x *Cell) Pick(q, th int) int {
	if x.Thorough() {
		return th
	}
	return q
}

func (x *Cell) State(key string) bool {
	h := Hash(key)
	if _, ok := x.states[h]; ok {
		return false
	}
	x.states[h] = struct{}{}
	return true
}
func (x *Cell) Outcome(o string) { x.outcomes[Hash(o)] = struct{}{} }
func (x *Cell) Sample(s any) {
	if len(x.samples) < 3 {
		x.samples = append(x.samples, s)
	}
}
func (x *Cell) Note(k string, d int64) { x.Notes[k] += d }
func (x *Cell) Cap(s string) {
	x.Exhaustive = false
	for _, c := range x.Caps {
		if c == s {
			return
		}
	}
	x.Caps = append(x.Caps, s)
}

// Bound records a designed bound that was reached (the space below it was enumerated completely).
func (x *Cell) Bound(s string) {
	for _, c := range x.Bounds {
		if c == s {
			return
		}
	}
	x.Bounds = append(x.Bounds, s)
}

// TimeUp reports whether the cell's internal deadline has passed; callers stop
// exploring, record a cap, and the check still exits 0 with exhaustive:false.
func (x *Cell) TimeUp() bool { return !x.deadline.IsZero() && time.Now().After(x.deadline) }

// Violate records a violation (deduplicated by signature; at most 3 replays kept per signature).
func (x *Cell) Violate(prop, sig, msg string, replay any) {
	if x.probing {
		x.probeSeen[prop+"|"+sig] = true
		return
	}
	x.seenSig[prop+"|"+sig]++
	if x.seenSig[prop+"|"+sig] > 1 {
		return
	}
	v := Violation{Property: prop, Signature: sig, Message: msg, Replay: replay, Cell: x.Name, Pkg: x.Pkg}
	x.Violations = append(x.Violations, v)
	if x.deferEmit {
		x.unconfirmed = append(x.unconfirmed, len(x.Violations)-1)
		return
	}
	emit(map[string]any{"t": "violation", "v": v})
}

// confirm re-executes `again` (the same execution) n times and keeps only the pending violations
// whose signature recurred every time; the others are dropped and counted as nondeterministic.
func (x *Cell) confirm(n int, again func()) {
	if len(x.unconfirmed) == 0 {
		return
	}
	pend := x.unconfirmed
	x.unconfirmed = nil
	ok := make([]bool, len(pend))
	for i := range ok {
		ok[i] = true
	}
	for k := 0; k < n; k++ {
		x.probing, x.probeSeen = true, map[string]bool{}
		func() {
			defer func() {
				if r := recover(); r != nil {
					if _, d := r.(ErrDiverged); !d {
						x.probing = false
						panic(r)
					}
				}
			}()
			again()
		}()
		x.probing = false
		for i, idx := range pend {
			v := x.Violations[idx]
			if !x.probeSeen[v.Property+"|"+v.Signature] {
				ok[i] = false
			}
		}
	}
	var keep []Violation
	drop := map[int]bool{}
	for i, idx := range pend {
		if ok[i] {
			emit(map[string]any{"t": "violation", "v": x.Violations[idx]})
		} else {
			drop[idx] = true
			v := x.Violations[idx]
			delete(x.seenSig, v.Property+"|"+v.Signature)
			x.Note("nondeterministic_discarded", 1)
			emit(map[string]any{"t": "nondet", "dropped_violation": v.Signature})
		}
	}
	for i, v := range x.Violations {
		if !drop[i] {
			keep = append(keep, v)
		}
	}
	x.Violations = keep
}

type cellReg struct {
	pkg   string
	prop  string
	name  string
	tiers string // "quick", "thorough", "both"
	fn    func(x *Cell)
}

var registry []cellReg

// Register adds a cell for a property. tiers: "both", "quick" or "thorough".
func Register(prop, name, tiers string, fn func(x *Cell)) {
	// the registering package = directory of the caller's file (a harness package that imports another
	// one must not inherit its cells)
	pkg := ""
	if _, file, _, ok := runtime.Caller(1); ok {
		pkg = filepath.Base(filepath.Dir(file))
	}
	registry = append(registry, cellReg{pkg, prop, name, tiers, fn})
}

// Hash is a short stable hash used for state/outcome sets.
func Hash(s string) string {
	h := sha256.Sum256([]byte(s))
	return hex.EncodeToString(h[:10])
}

var (
	outMu sync.Mutex
	outF  *os.File
)

func emit(m map[string]any) {
	outMu.Lock()
	defer outMu.Unlock()
	if outF == nil {
		return
	}
	b, err := json.Marshal(m)
	if err != nil {
		b, _ = json.Marshal(map[string]any{"t": "error", "err": err.Error()})
	}
	outF.Write(append(b, '\n'))
	outF.Sync()
}

// Main is called from each harness package's TestCheck.
//
//	VERIF_PROP   property id
//	VERIF_TIER   quick|thorough
//	VERIF_CELLS  "list" | comma separated indexes
//	VERIF_OUT    JSONL output path
//	VERIF_REPLAY path of a replay file (runs exactly one recorded execution)
func Main(t *testing.T, pkg string) {
	prop := os.Getenv("VERIF_PROP")
	if prop == "" {
		t.Skip("VERIF_PROP not set")
	}
	tier := os.Getenv("VERIF_TIER")
	if tier == "" {
		tier = "quick"
	}
	seed, _ := strconv.ParseInt(os.Getenv("VERIF_SEED"), 10, 64)
	var cells []cellReg
	for _, c := range registry {
		race := os.Getenv("VERIF_RACE") != ""
		if c.pkg == pkg && c.prop == prop && ((!race && (c.tiers == "both" || c.tiers == tier)) || (race && c.tiers == "race")) {
			cells = append(cells, c)
		}
	}
	sel := os.Getenv("VERIF_CELLS")
	if out := os.Getenv("VERIF_OUT"); out != "" {
		f, err := os.OpenFile(out, os.O_CREATE|os.O_WRONLY|os.O_APPEND, 0o644)
		if err != nil {
			t.Fatal(err)
		}
		outF = f
		defer f.Close()
	}
	if sel == "list" {
		names := make([]string, len(cells))
		for i, c := range cells {
			names[i] = c.name
		}
		emit(map[string]any{"t": "list", "pkg": pkg, "cells": names})
		return
	}
	want := map[int]bool{}
	if sel != "" && sel != "all" {
		for _, s := range strings.Split(sel, ",") {
			i, err := strconv.Atoi(strings.TrimSpace(s))
			if err != nil {
				t.Fatalf("bad VERIF_CELLS %q", sel)
			}
			want[i] = true
		}
	}
	var budget time.Duration
	if b := os.Getenv("VERIF_CELL_BUDGET_S"); b != "" {
		s, _ := strconv.Atoi(b)
		budget = time.Duration(s) * time.Second
	}
	if rp := os.Getenv("VERIF_REPLAY"); rp != "" {
		runReplay(t, pkg, prop, tier, rp, cells)
		return
	}
	for i, c := range cells {
		if len(want) > 0 && !want[i] {
			continue
		}
		x := newCell(t, prop, tier, c.name, pkg, seed)
		x.Index = i
		if budget > 0 {
			x.deadline = time.Now().Add(budget)
		}
		if os.Getenv("VERIF_BFS_CHILD") != "" {
			c.fn(x) // serves BFS expansion requests of the parent on stdin/stdout and exits
			os.Exit(0)
		}
		emit(map[string]any{"t": "cell_start", "cell": i, "name": c.name, "pkg": pkg})
		c.fn(x)
		x.finish(i)
		if x.Fatal {
			// the process may hold poisoned state; let the driver restart us
			os.Exit(3)
		}
	}
}

func newCell(t *testing.T, prop, tier, name, pkg string, seed int64) *Cell {
	return &Cell{T: t, Prop: prop, Tier: tier, Name: name, Pkg: pkg, Seed: seed,
		states: map[string]struct{}{}, outcomes: map[string]struct{}{}, seenSig: map[string]int{},
		Exhaustive: true, Notes: map[string]int64{}, start: time.Now()}
}

func (x *Cell) finish(idx int) {
	st := make([]string, 0, len(x.states))
	for k := range x.states {
		st = append(st, k)
	}
	sort.Strings(st)
	oc := make([]string, 0, len(x.outcomes))
	for k := range x.outcomes {
		oc = append(oc, k)
	}
	sort.Strings(oc)
	sigs := map[string]int{}
	for k, v := range x.seenSig {
		sigs[k] = v
	}
	emit(map[string]any{"t": "cell_done", "cell": idx, "name": x.Name, "pkg": x.Pkg,
		"executions": x.Executions, "transitions": x.Transitions, "premise": x.Premise,
		"states": st, "outcomes": oc, "samples": x.samples, "caps": x.Caps, "bounds": x.Bounds,
		"exhaustive": x.Exhaustive, "notes": x.Notes, "violation_counts": sigs,
		"wall_s": time.Since(x.start).Seconds(), "fatal": x.Fatal})
}

// ---------------------------------------------------------------- replay

// ReplayFile is what bin/check writes for a violation.
type ReplayFile struct {
	Property  string          `json:"property"`
	Pkg       string          `json:"pkg"`
	Cell      string          `json:"cell"`
	Signature string          `json:"signature"`
	Message   string          `json:"message"`
	Replay    json.RawMessage `json:"replay"`
}

// ReplayArg is set while a replay runs; cell functions consult it through
// Cell.ReplayOnly to execute exactly the recorded execution.
var replayArg json.RawMessage

// ReplayOnly returns the recorded replay payload when the process runs in
// replay mode (then the cell must execute only that case), else nil.
func (x *Cell) ReplayOnly() json.RawMessage { return replayArg }

func runReplay(t *testing.T, pkg, prop, tier, path string, cells []cellReg) {
	b, err := os.ReadFile(path)
	if err != nil {
		t.Fatal(err)
	}
	var rf ReplayFile
	if err := json.Unmarshal(b, &rf); err != nil {
		t.Fatal(err)
	}
	if rf.Pkg != pkg {
		return
	}
	for i, c := range cells {
		if c.name != rf.Cell {
			continue
		}
		replayArg = rf.Replay
		x := newCell(t, prop, tier, c.name, pkg, 0)
		emit(map[string]any{"t": "cell_start", "cell": i, "name": c.name, "pkg": pkg})
		c.fn(x)
		x.finish(i)
		for _, v := range x.Violations {
			fmt.Printf("REPLAY-VIOLATION property=%s signature=%s\n  %s\n", v.Property, v.Signature, v.Message)
		}
		if len(x.Violations) == 0 {
			fmt.Println("REPLAY-OK: the recorded execution did not violate the property")
		}
	}
}

// Unblock wakes every goroutine parked in a shim lock (they exit), so that an
// execution in which a deadlock was detected can still be torn down. Returns the
// number of goroutines that were parked.
func Unblock() int64 {
	n := core.Parked()
	core.Abort()
	synctest.Wait()
	return n
}

// Parked is the number of goroutines currently parked in shim locks.
func Parked() int64 { return core.Parked() }

// NewCellForDebug makes a throw-away cell (debug tests only).
func NewCellForDebug(t *testing.T) *Cell { return newCell(t, "DBG", "quick", "debug", "debug", 0) }

// Die ends the worker process right now (exit code 3) after flushing the cell's
// results. Used when an execution detected a violation that leaves goroutines
// blocked forever on something the harness cannot release, so the bubble cannot end.
func (x *Cell) Die() {
	if os.Getenv("VERIF_DEBUG") != "" {
		for _, v := range x.Violations {
			fmt.Println("VIOLATION(debug):", v.Property, v.Signature, "\n", v.Message)
		}
	}
	// violations recorded in this (never finishing) execution cannot be re-executed in this process: emit them now
	for _, idx := range x.unconfirmed {
		if idx < len(x.Violations) {
			emit(map[string]any{"t": "violation", "v": x.Violations[idx]})
		}
	}
	x.unconfirmed = nil
	x.Fatal = true
	x.Exhaustive = false
	x.finish(-1)
	os.Exit(3)
}

// BlockedStacks returns the stacks of goroutines of this process that are blocked inside
// go-data-transfer code (trimmed), to explain a call that did not return.
func BlockedStacks(max int) string {
	buf := make([]byte, 1<<20)
	n := runtime.Stack(buf, true)
	var out []string
	for _, g := range strings.Split(string(buf[:n]), "\n\n") {
		if !(strings.Contains(g, "go-data-transfer/v2/") || strings.Contains(g, "go-statemachine")) || strings.Contains(g, "[running") {
			continue
		}
		if strings.Contains(g, "sched.(*Sched).point") || strings.Contains(g, "sched.(*Sched).startPoint") {
			continue
		}
		lines := strings.Split(g, "\n")
		var keep []string
		keep = append(keep, lines[0])
		for _, l := range lines[1:] {
			if strings.Contains(l, "go-data-transfer/v2/") || strings.Contains(l, "go-statemachine") || strings.Contains(l, "verif/") {
				if !strings.HasPrefix(l, "\t") {
					keep = append(keep, "  "+strings.TrimSpace(l))
				}
			}
		}
		out = append(out, strings.Join(keep, "\n"))
		if len(out) >= max {
			break
		}
	}
	return strings.Join(out, "\n")
}

// Abandon ends the worker process (exit code 3) without a verdict for the current execution:
// the remaining exploration of this cell is reported as a cap with the given reason.
func (x *Cell) Abandon(reason string) {
	x.unconfirmed = nil
	x.Cap("cell abandoned: " + reason)
	x.finish(-1)
	os.Exit(3)
}

var reBlockedFn = regexp.MustCompile(`go-data-transfer/v2/[A-Za-z0-9_/]*?([A-Za-z0-9_]+\.(?:\(\*?[A-Za-z0-9_]+\)\.)?[A-Za-z0-9_]+)(?:\.func[0-9.]*)?\(`)

// BlockedSites returns, sorted and de-duplicated, the innermost go-data-transfer function of every
// goroutine that is blocked inside the library (used to build stable violation signatures).
func BlockedSites() []string {
	st := BlockedStacks(50)
	seen := map[string]bool{}
	for _, g := range strings.Split(st, "\ngoroutine ") {
		for _, l := range strings.Split(g, "\n") {
			if m := reBlockedFn.FindStringSubmatch(l); m != nil {
				seen[m[1]] = true
				break
			}
		}
	}
	out := make([]string, 0, len(seen))
	for k := range seen {
		out = append(out, k)
	}
	sort.Strings(out)
	return out
}

// bubbleStacks keeps the goroutines of a full stack dump that are durably blocked inside a bubble.
func bubbleStacks(dump string) string {
	var keep []string
	for _, g := range strings.Split(dump, "\n\n") {
		if strings.Contains(strings.SplitN(g, "\n", 2)[0], "synctest bubble") {
			keep = append(keep, g)
		}
	}
	if len(keep) > 12 {
		keep = keep[:12]
	}
	return strings.Join(keep, "\n\n")
}
