package mc

import (
	"encoding/json"
	"fmt"
)

// Exec is what a body reports for one execution.
type Exec struct {
	Outcome string // canonical observation (hashed into the distinct-outcome set)
	Premise bool   // the execution was non-vacuous for the property
}

// EnumOpts configures Enumerate.
type EnumOpts struct {
	// MaxDeviations bounds the number of non-default (non-zero) choices; <0 = unbounded (full product).
	MaxDeviations int
	// MaxExecutions caps the run (reported as a cap); 0 = no cap.
	MaxExecutions int64
	// Recheck re-executes every n-th execution and compares outcomes (0 = 64).
	Recheck int
	// DeviationCost optionally gives the cost of choosing `alt` at a point (default 1 for alt!=0).
	DeviationCost func(p Point, alt int) int
}

// Body runs one execution steered by c (inside a bubble created by the body or by RunBubble).
type Body func(c *Chooser) Exec

// Enumerate explores every choice vector of body within the deviation bound,
// depth-first, stateless (each execution is run from scratch).
// Iterative bounding: bound 0 first, then 1, ... so the first violation found
// has the fewest deviations.
func (x *Cell) Enumerate(name string, opts EnumOpts, body Body) {
	if rp := x.ReplayOnly(); rp != nil {
		var r struct {
			Name    string `json:"name"`
			Choices []int  `json:"choices"`
		}
		if json.Unmarshal(rp, &r) == nil && r.Name == name {
			c := &Chooser{Prefix: r.Choices}
			body(c)
			x.Executions++
		}
		return
	}
	recheck := opts.Recheck
	if recheck == 0 {
		recheck = 64
	}
	cost := func(p Point, alt int) int {
		if opts.DeviationCost != nil {
			return opts.DeviationCost(p, alt)
		}
		if alt != 0 {
			return 1
		}
		return 0
	}
	var n, nd int64
	capped := false
	var rec func(prefix []int, used int)
	rec = func(prefix []int, used int) {
		if capped {
			return
		}
		if (opts.MaxExecutions > 0 && n >= opts.MaxExecutions) || x.TimeUp() {
			capped = true
			return
		}
		c := &Chooser{Prefix: prefix}
		var e Exec
		diverged := false
		x.deferEmit = true
		func() {
			defer func() {
				if r := recover(); r != nil {
					if _, ok := r.(ErrDiverged); ok {
						diverged = true
						return
					}
					panic(r)
				}
			}()
			e = body(c)
		}()
		x.deferEmit = false
		if diverged {
			// the same prefix produced a different set of choice points: uncontrolled nondeterminism.
			// The branch is dropped and reported; it never raises an alarm.
			x.Note("nondeterministic_discarded", 1)
			x.unconfirmed = nil
			nd++
			return
		}
		x.confirm(4, func() { body(&Chooser{Prefix: c.Choices()}) })
		n++
		x.Executions++
		x.Outcome(name + "|" + e.Outcome)
		if e.Premise {
			x.Premise++
		}
		if x.Executions%int64(recheck) == 1 {
			c2 := &Chooser{Prefix: c.Choices()}
			e2 := body(c2)
			if e2.Outcome != e.Outcome || len(c2.Trace) != len(c.Trace) {
				x.Note("nondeterministic_discarded", 1)
				emit(map[string]any{"t": "nondet", "name": name, "choices": c.Choices(), "o1": e.Outcome, "o2": e2.Outcome})
			}
		}
		if len(x.samples) < 3 {
			x.Sample(map[string]any{"enum": name, "choices": c.Choices(), "labels": labels(c.Trace), "outcome": trunc(e.Outcome, 300)})
		}
		trace := append([]Point(nil), c.Trace...)
		for i := len(prefix); i < len(trace); i++ {
			p := trace[i]
			for alt := 1; alt < p.N; alt++ {
				cst := cost(p, alt)
				if opts.MaxDeviations >= 0 && used+cst > opts.MaxDeviations {
					continue
				}
				np := make([]int, i+1)
				for j := 0; j < i; j++ {
					np[j] = trace[j].Chosen
				}
				np[i] = alt
				rec(np, used+cst)
			}
		}
	}
	rec(nil, 0)
	if nd > 0 {
		x.Cap(fmt.Sprintf("%s: %d branch(es) dropped because replaying their prefix diverged (uncontrolled nondeterminism)", name, nd))
	}
	if capped {
		x.Cap(fmt.Sprintf("%s: execution/time cap hit after %d executions", name, n))
	}
}

// EnumReplay builds the replay payload understood by Enumerate.
func EnumReplay(name string, c *Chooser) any {
	return map[string]any{"name": name, "choices": c.Choices(), "labels": labels(c.Trace)}
}

func labels(tr []Point) []string {
	out := make([]string, len(tr))
	for i, p := range tr {
		out[i] = fmt.Sprintf("%s=%d/%d", p.Label, p.Chosen, p.N)
	}
	return out
}

func trunc(s string, n int) string {
	if len(s) > n {
		return s[:n] + "…"
	}
	return s
}

// ---------------------------------------------------------------- BFS with replay

// BFSOpts configures BFS.
type BFSOpts struct {
	NumOps    int
	MaxDepth  int // 0 = to closure
	MaxStates int // cap (reported)
	OpName    func(op int) string
}

// RunHist executes a whole operation history on a fresh system and returns the
// canonical key of the final state. enabled=false means the last operation is
// not applicable in that state (the successor is skipped). The oracle for the
// LAST operation of hist is evaluated inside (violations via Cell.Violate).
type RunHist func(hist []int) (key string, enabled bool)

// BFS explores the state graph breadth-first: a state is the shortest history
// that reaches it; successors are produced by replaying that history on a fresh
// instance plus one operation.
func (x *Cell) BFS(name string, opts BFSOpts, run RunHist) (reps [][]int) {
	if rp := x.ReplayOnly(); rp != nil {
		var r struct {
			Name string `json:"name"`
			Hist []int  `json:"hist"`
		}
		if json.Unmarshal(rp, &r) == nil && r.Name == name {
			run(r.Hist)
			x.Executions++
		}
		return nil
	}
	key0, _ := run(nil)
	reps = append(reps, []int{})
	x.Executions++
	x.State(name + "|" + key0)
	frontier := [][]int{{}}
	depth := 0
	nstates := 1
	for len(frontier) > 0 {
		if opts.MaxDepth > 0 && depth >= opts.MaxDepth {
			x.Bound(fmt.Sprintf("%s: depth bound %d completed (%d frontier states not expanded further)", name, opts.MaxDepth, len(frontier)))
			break
		}
		var next [][]int
		for _, h := range frontier {
			for op := 0; op < opts.NumOps; op++ {
				if x.TimeUp() || (opts.MaxStates > 0 && nstates >= opts.MaxStates) {
					x.Cap(fmt.Sprintf("%s: state/time cap hit at depth %d (%d states)", name, depth, nstates))
					return reps
				}
				nh := append(append(make([]int, 0, len(h)+1), h...), op)
				x.deferEmit = true
				k, en := run(nh)
				x.deferEmit = false
				x.confirm(4, func() { run(nh) })
				x.Executions++
				if !en {
					continue
				}
				x.Transitions++
				if x.State(name + "|" + k) {
					nstates++
					next = append(next, nh)
					reps = append(reps, nh)
					if len(x.samples) < 3 && len(nh) >= 3 {
						x.Sample(map[string]any{"bfs": name, "history": histNames(nh, opts.OpName), "state": trunc(k, 300)})
					}
				}
			}
		}
		frontier = next
		depth++
	}
	x.Note("bfs_depth_"+name, int64(depth))
	return reps
}

// BFSReplay builds the replay payload understood by BFS.
func BFSReplay(name string, hist []int, opName func(int) string) any {
	return map[string]any{"name": name, "hist": hist, "ops": histNames(hist, opName)}
}

func histNames(h []int, f func(int) string) []string {
	out := make([]string, len(h))
	for i, op := range h {
		if f != nil {
			out[i] = f(op)
		} else {
			out[i] = fmt.Sprint(op)
		}
	}
	return out
}
