package mc

import (
	"bufio"
	"encoding/json"
	"fmt"
	"os"
	"os/exec"
	"strconv"
	"strings"
	"sync"
)

// Exec is what a body reports for one execution.
type Exec struct {
	Outcome string // canonical observation (hashed into the distinct-outcome set)
	Premise bool   // the execution was non-vacuous for the property
}

// EnumOpts configures Enumerate.
type EnumOpts struct {
	// MaxDeviations bounds the number of non-default (non-zero) choices; <0 = unbounded (full product).
	MaxDeviations int
	// MaxExecutions caps the run (reported as a cap); 0 = no cap.
	MaxExecutions int64
	// Recheck re-executes every n-th execution and compares outcomes (0 = 64).
	Recheck int
	// DeviationCost optionally gives the cost of choosing `alt` at a point (default 1 for alt!=0).
	DeviationCost func(p Point, alt int) int
}

// Body runs one execution steered by c (inside a bubble created by the body or by RunBubble).
type Body func(c *Chooser) Exec

// Enumerate explores every choice vector of body within the deviation bound,
// depth-first, stateless (each execution is run from scratch).
// Iterative bounding: bound 0 first, then 1, ... so the first violation found
// has the fewest deviations.
func (x *Cell) Enumerate(name string, opts EnumOpts, body Body) {
	if os.Getenv("VERIF_BFS_CHILD") != "" {
		return
	}
	if rp := x.ReplayOnly(); rp != nil {
		var r struct {
			Name    string `json:"name"`
			Choices []int  `json:"choices"`
		}
		if json.Unmarshal(rp, &r) == nil && r.Name == name {
			c := &Chooser{Prefix: r.Choices}
			body(c)
			x.Executions++
		}
		return
	}
	recheck := opts.Recheck
	if recheck == 0 {
		recheck = 64
	}
	cost := func(p Point, alt int) int {
		if opts.DeviationCost != nil {
			return opts.DeviationCost(p, alt)
		}
		if alt != 0 {
			return 1
		}
		return 0
	}
	var n, nd int64
	capped := false
	var rec func(prefix []int, used int)
	rec = func(prefix []int, used int) {
		if capped {
			return
		}
		if (opts.MaxExecutions > 0 && n >= opts.MaxExecutions) || x.TimeUp() {
			capped = true
			return
		}
		c := &Chooser{Prefix: prefix}
		var e Exec
		diverged := false
		x.deferEmit = true
		func() {
			defer func() {
				if r := recover(); r != nil {
					if _, ok := r.(ErrDiverged); ok {
						diverged = true
						return
					}
					panic(r)
				}
			}()
			e = body(c)
		}()
		x.deferEmit = false
		if diverged {
			// the same prefix produced a different set of choice points: uncontrolled nondeterminism.
			// The branch is dropped and reported; it never raises an alarm.
			x.Note("nondeterministic_discarded", 1)
			x.unconfirmed = nil
			nd++
			return
		}
		// replays of the same execution (confirmation, determinism re-check) may diverge as well: never a crash
		replay := func(c2 *Chooser) (e2 Exec, div bool) {
			defer func() {
				if r := recover(); r != nil {
					if _, ok := r.(ErrDiverged); ok {
						div = true
						return
					}
					panic(r)
				}
			}()
			return body(c2), false
		}
		x.confirm(4, func() { replay(&Chooser{Prefix: c.Choices()}) })
		n++
		x.Executions++
		x.Outcome(name + "|" + e.Outcome)
		if e.Premise {
			x.Premise++
		}
		if x.Executions%int64(recheck) == 1 {
			c2 := &Chooser{Prefix: c.Choices()}
			e2, div := replay(c2)
			if div || e2.Outcome != e.Outcome || len(c2.Trace) != len(c.Trace) {
				x.Note("nondeterministic_discarded", 1)
				emit(map[string]any{"t": "nondet", "name": name, "choices": c.Choices(), "o1": e.Outcome, "o2": e2.Outcome})
			}
		}
		if len(x.samples) < 3 {
			x.Sample(map[string]any{"enum": name, "choices": c.Choices(), "labels": labels(c.Trace), "outcome": trunc(e.Outcome, 300)})
		}
		trace := append([]Point(nil), c.Trace...)
		for i := len(prefix); i < len(trace); i++ {
			p := trace[i]
			for alt := 1; alt < p.N; alt++ {
				cst := cost(p, alt)
				if opts.MaxDeviations >= 0 && used+cst > opts.MaxDeviations {
					continue
				}
				np := make([]int, i+1)
				for j := 0; j < i; j++ {
					np[j] = trace[j].Chosen
				}
				np[i] = alt
				rec(np, used+cst)
			}
		}
	}
	rec(nil, 0)
	if nd > 0 {
		x.Cap(fmt.Sprintf("%s: %d branch(es) dropped because replaying their prefix diverged (uncontrolled nondeterminism)", name, nd))
	}
	if capped {
		x.Cap(fmt.Sprintf("%s: execution/time cap hit after %d executions", name, n))
	}
}

// EnumReplay builds the replay payload understood by Enumerate.
func EnumReplay(name string, c *Chooser) any {
	return map[string]any{"name": name, "choices": c.Choices(), "labels": labels(c.Trace)}
}

func labels(tr []Point) []string {
	out := make([]string, len(tr))
	for i, p := range tr {
		out[i] = fmt.Sprintf("%s=%d/%d", p.Label, p.Chosen, p.N)
	}
	return out
}

func trunc(s string, n int) string {
	if len(s) > n {
		return s[:n] + "…"
	}
	return s
}

// ---------------------------------------------------------------- BFS with replay

// BFSOpts configures BFS.
type BFSOpts struct {
	// Parallel > 1 expands every BFS level with that many child processes (same test binary, same cell,
	// VERIF_BFS_CHILD set) that replay histories on request; the parent owns the frontier and the visited set.
	Parallel  int
	NumOps    int
	MaxDepth  int // 0 = to closure
	MaxStates int // cap (reported)
	OpName    func(op int) string
}

// RunHist executes a whole operation history on a fresh system and returns the
// canonical key of the final state. enabled=false means the last operation is
// not applicable in that state (the successor is skipped). The oracle for the
// LAST operation of hist is evaluated inside (violations via Cell.Violate).
type RunHist func(hist []int) (key string, enabled bool)

// BFS explores the state graph breadth-first: a state is the shortest history
// that reaches it; successors are produced by replaying that history on a fresh
// instance plus one operation.
func (x *Cell) BFS(name string, opts BFSOpts, run RunHist) (reps [][]int) {
	if child := os.Getenv("VERIF_BFS_CHILD"); child != "" {
		if child == name {
			x.serveBFS(run)
		}
		return nil
	}
	if opts.Parallel > 1 && x.ReplayOnly() == nil {
		return x.parallelBFS(name, opts, run)
	}
	if rp := x.ReplayOnly(); rp != nil {
		var r struct {
			Name string `json:"name"`
			Hist []int  `json:"hist"`
		}
		if json.Unmarshal(rp, &r) == nil && r.Name == name {
			run(r.Hist)
			x.Executions++
		}
		return nil
	}
	key0, _ := run(nil)
	reps = append(reps, []int{})
	x.Executions++
	x.State(name + "|" + key0)
	frontier := [][]int{{}}
	depth := 0
	nstates := 1
	for len(frontier) > 0 {
		if opts.MaxDepth > 0 && depth >= opts.MaxDepth {
			x.Bound(fmt.Sprintf("%s: depth bound %d completed (%d frontier states not expanded further)", name, opts.MaxDepth, len(frontier)))
			break
		}
		var next [][]int
		for _, h := range frontier {
			for op := 0; op < opts.NumOps; op++ {
				if x.TimeUp() || (opts.MaxStates > 0 && nstates >= opts.MaxStates) {
					x.Cap(fmt.Sprintf("%s: state/time cap hit at depth %d (%d states)", name, depth, nstates))
					return reps
				}
				nh := append(append(make([]int, 0, len(h)+1), h...), op)
				x.deferEmit = true
				k, en := run(nh)
				x.deferEmit = false
				x.confirm(4, func() { run(nh) })
				x.Executions++
				if !en {
					continue
				}
				x.Transitions++
				if x.State(name + "|" + k) {
					nstates++
					next = append(next, nh)
					reps = append(reps, nh)
					if len(x.samples) < 3 && len(nh) >= 3 {
						x.Sample(map[string]any{"bfs": name, "history": histNames(nh, opts.OpName), "state": trunc(k, 300)})
					}
				}
			}
		}
		frontier = next
		depth++
	}
	x.Note("bfs_depth_"+name, int64(depth))
	return reps
}

// BFSReplay builds the replay payload understood by BFS.
func BFSReplay(name string, hist []int, opName func(int) string) any {
	return map[string]any{"name": name, "hist": hist, "ops": histNames(hist, opName)}
}

func histNames(h []int, f func(int) string) []string {
	out := make([]string, len(h))
	for i, op := range h {
		if f != nil {
			out[i] = f(op)
		} else {
			out[i] = fmt.Sprint(op)
		}
	}
	return out
}

// ---------------------------------------------------------------- parallel BFS (parent / child protocol)

// serveBFS: child side. Reads "h1,h2,..." lines, answers "V <json>" lines for confirmed violations followed by
// one "K <enabled 0|1> <key>" line per request.
func (x *Cell) serveBFS(run RunHist) {
	in := bufio.NewReaderSize(os.Stdin, 1<<20)
	out := bufio.NewWriter(os.Stdout)
	for {
		line, err := in.ReadString('\n')
		if err != nil {
			out.Flush()
			os.Exit(0)
		}
		line = strings.TrimSpace(line)
		if line == "" {
			continue
		}
		var h []int
		if line != "-" {
			for _, f := range strings.Split(line, ",") {
				v, _ := strconv.Atoi(f)
				h = append(h, v)
			}
		}
		nBefore := len(x.Violations)
		x.deferEmit = true
		k, en := run(h)
		x.deferEmit = false
		x.confirm(4, func() { run(h) })
		for _, v := range x.Violations[min(nBefore, len(x.Violations)):] {
			b, _ := json.Marshal(v)
			fmt.Fprintf(out, "V %s\n", b)
		}
		e := 0
		if en {
			e = 1
		}
		fmt.Fprintf(out, "K %d %s\n", e, strings.ReplaceAll(k, "\n", " "))
		out.Flush()
	}
}

type bfsChild struct {
	cmd *exec.Cmd
	in  *bufio.Writer
	out *bufio.Reader
}

func (x *Cell) startChildren(name string, n int) ([]*bfsChild, error) {
	var cs []*bfsChild
	for i := 0; i < n; i++ {
		cmd := exec.Command(os.Args[0], "-test.run", "^TestCheck$", "-test.timeout", "0")
		cmd.Env = append(os.Environ(), "VERIF_BFS_CHILD="+name, "VERIF_CELLS="+strconv.Itoa(x.Index), "VERIF_OUT=", "VERIF_REPLAY=")
		stdin, err := cmd.StdinPipe()
		if err != nil {
			return nil, err
		}
		stdout, err := cmd.StdoutPipe()
		if err != nil {
			return nil, err
		}
		cmd.Stderr = nil
		if err := cmd.Start(); err != nil {
			return nil, err
		}
		cs = append(cs, &bfsChild{cmd, bufio.NewWriterSize(stdin, 1<<16), bufio.NewReaderSize(stdout, 1<<20)})
	}
	return cs, nil
}

type bfsAnswer struct {
	key     string
	enabled bool
	viols   []Violation
	err     error
}

func (c *bfsChild) ask(h []int) bfsAnswer {
	parts := make([]string, len(h))
	for i, v := range h {
		parts[i] = strconv.Itoa(v)
	}
	line := strings.Join(parts, ",")
	if line == "" {
		line = "-"
	}
	if _, err := c.in.WriteString(line + "\n"); err != nil {
		return bfsAnswer{err: err}
	}
	if err := c.in.Flush(); err != nil {
		return bfsAnswer{err: err}
	}
	var a bfsAnswer
	for {
		l, err := c.out.ReadString('\n')
		if err != nil {
			a.err = fmt.Errorf("child ended: %v", err)
			return a
		}
		l = strings.TrimRight(l, "\n")
		if strings.HasPrefix(l, "V ") {
			var v Violation
			if json.Unmarshal([]byte(l[2:]), &v) == nil {
				a.viols = append(a.viols, v)
			}
			continue
		}
		if strings.HasPrefix(l, "K ") {
			a.enabled = l[2] == '1'
			a.key = l[4:]
			return a
		}
		// anything else (test framework chatter) is ignored
	}
}

func (x *Cell) parallelBFS(name string, opts BFSOpts, run RunHist) (reps [][]int) {
	children, err := x.startChildren(name, opts.Parallel)
	if err != nil {
		x.Cap(name + ": could not start BFS children (" + err.Error() + "); falling back to the sequential search")
		o := opts
		o.Parallel = 0
		return x.BFS(name, o, run)
	}
	defer func() {
		for _, c := range children {
			c.cmd.Process.Kill()
			c.cmd.Wait()
		}
	}()
	a0 := children[0].ask(nil)
	if a0.err != nil {
		x.Cap(name + ": BFS child failed: " + a0.err.Error())
		return nil
	}
	x.Executions++
	x.State(name + "|" + a0.key)
	reps = append(reps, []int{})
	frontier := [][]int{{}}
	depth, nstates := 0, 1
	for len(frontier) > 0 {
		if opts.MaxDepth > 0 && depth >= opts.MaxDepth {
			x.Bound(fmt.Sprintf("%s: depth bound %d completed (%d frontier states not expanded further)", name, opts.MaxDepth, len(frontier)))
			break
		}
		if x.TimeUp() || (opts.MaxStates > 0 && nstates >= opts.MaxStates) {
			x.Cap(fmt.Sprintf("%s: state/time cap hit at depth %d (%d states; all shallower levels fully expanded)", name, depth, nstates))
			return reps
		}
		// tasks of this level
		type task struct {
			h []int
			a bfsAnswer
		}
		tasks := make([]*task, 0, len(frontier)*opts.NumOps)
		for _, h := range frontier {
			for op := 0; op < opts.NumOps; op++ {
				nh := append(append(make([]int, 0, len(h)+1), h...), op)
				tasks = append(tasks, &task{h: nh})
			}
		}
		var wg sync.WaitGroup
		for ci, c := range children {
			wg.Add(1)
			go func(ci int, c *bfsChild) {
				defer wg.Done()
				for i := ci; i < len(tasks); i += len(children) {
					tasks[i].a = c.ask(tasks[i].h)
					if tasks[i].a.err != nil {
						return
					}
				}
			}(ci, c)
		}
		wg.Wait()
		var next [][]int
		for _, t := range tasks {
			if t.a.err != nil {
				x.Cap(fmt.Sprintf("%s: a BFS child died at depth %d (%v); the level is incomplete", name, depth, t.a.err))
				return reps
			}
			x.Executions++
			for _, v := range t.a.viols {
				x.Violate(v.Property, v.Signature, v.Message, v.Replay)
			}
			if !t.a.enabled {
				continue
			}
			x.Transitions++
			if x.State(name + "|" + t.a.key) {
				nstates++
				next = append(next, t.h)
				reps = append(reps, t.h)
				if len(x.samples) < 3 && len(t.h) >= 3 {
					x.Sample(map[string]any{"bfs": name, "history": histNames(t.h, opts.OpName), "state": trunc(t.a.key, 300)})
				}
			}
		}
		frontier = next
		depth++
	}
	x.Note("bfs_depth_"+name, int64(depth))
	return reps
}

// RunOne executes body exactly once with the given choice prefix (default choices afterwards). A prefix that does
// not fit the execution (fewer decisions, fewer alternatives) is not an error: the schedule simply does not exist.
// Violations are emitted at once, without re-execution: RunOne is for phenomena that exist once per process.
func (x *Cell) RunOne(name string, prefix []int, body Body) {
	c := &Chooser{Prefix: prefix}
	var e Exec
	diverged := false
	func() {
		defer func() {
			if r := recover(); r != nil {
				if _, ok := r.(ErrDiverged); ok {
					diverged = true
					return
				}
				panic(r)
			}
		}()
		e = body(c)
	}()
	if diverged {
		x.Note("schedule_does_not_exist", 1)
		return
	}
	x.Executions++
	x.Outcome(name + "|" + e.Outcome)
	if e.Premise {
		x.Premise++
	}
}
