package mc

import (
	"strings"
	"testing"
)

func TestBubbleDeadlockIsAVerdict(t *testing.T) {
	pv, st := Bubble(t, func() {
		ch := make(chan int)
		Go(func() { <-ch })
		<-ch
	})
	if pv == nil || !strings.Contains(st, "synctest bubble") {
		t.Fatalf("deadlock not returned: %v\n%s", pv, st)
	}
	pv, _ = Bubble(t, func() { Wait() })
	if pv != nil {
		t.Fatalf("next bubble: %v", pv)
	}
}
