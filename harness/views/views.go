// Package views implements the C19 oracle (state views are total and
// self-consistent) and the canonical accessor vector used by several checks.
package views

import (
	"fmt"
	"runtime/debug"
	"strings"

	"github.com/libp2p/go-libp2p/core/peer"

	datatransfer "github.com/filecoin-project/go-data-transfer/v2"
	"verif/doubles"
)

// Vec is the canonical accessor vector of a channel state (no stages/timestamps).
type Vec struct {
	Status                    datatransfer.Status
	Message                   string
	Queued, Sent, Received    uint64
	QIdx, SIdx, RIdx          int64
	IPaused, RPaused          bool
	Both, SelfP               bool
	Limit                     uint64
	ReqFin                    bool
	Self, Other, Sender, Rcpt peer.ID
	Chid                      datatransfer.ChannelID
	TID                       datatransfer.TransferID
	IsPull                    bool
	BaseCid                   string
	Selector                  string
	Vouchers, Results         string
	TotalSize                 uint64
}

// Of reads every accessor of st (panics propagate; use Safe for the total version).
func Of(st datatransfer.ChannelState) Vec {
	return Vec{
		Status: st.Status(), Message: st.Message(),
		Queued: st.Queued(), Sent: st.Sent(), Received: st.Received(),
		QIdx: st.QueuedCidsTotal(), SIdx: st.SentCidsTotal(), RIdx: st.ReceivedCidsTotal(),
		IPaused: st.InitiatorPaused(), RPaused: st.ResponderPaused(), Both: st.BothPaused(), SelfP: st.SelfPaused(),
		Limit: st.DataLimit(), ReqFin: st.RequiresFinalization(),
		Self: st.SelfPeer(), Other: st.OtherPeer(), Sender: st.Sender(), Rcpt: st.Recipient(),
		Chid: st.ChannelID(), TID: st.TransferID(), IsPull: st.IsPull(),
		BaseCid: st.BaseCID().String(), Selector: doubles.NodeBytes(st.Selector()),
		Vouchers: doubles.TVs(st.Vouchers()), Results: doubles.TVs(st.VoucherResults()),
		TotalSize: st.TotalSize(),
	}
}

// String renders the vector canonically.
func (v Vec) String() string {
	return fmt.Sprintf("st=%s msg=%q q=%d s=%d r=%d qi=%d si=%d ri=%d ip=%v rp=%v both=%v selfp=%v lim=%d fin=%v self=%s other=%s snd=%s rcp=%s chid=%s pull=%v cid=%s sel=%s v=%s vr=%s tot=%d",
		datatransfer.Statuses[v.Status], v.Message, v.Queued, v.Sent, v.Received, v.QIdx, v.SIdx, v.RIdx,
		v.IPaused, v.RPaused, v.Both, v.SelfP, v.Limit, v.ReqFin,
		doubles.PeerName(v.Self), doubles.PeerName(v.Other), doubles.PeerName(v.Sender), doubles.PeerName(v.Rcpt),
		doubles.ChidName(v.Chid), v.IsPull, v.BaseCid, v.Selector, v.Vouchers, v.Results, v.TotalSize)
}

// Problem is one C19 finding.
type Problem struct {
	Sig string
	Msg string
}

func try(name string, probs *[]Problem, results, vouchers int, f func()) {
	defer func() {
		if r := recover(); r != nil {
			st := string(debug.Stack())
			if i := strings.Index(st, "channel_state.go"); i >= 0 {
				st = st[max(0, i-120):min(len(st), i+60)]
			} else {
				st = ""
			}
			*probs = append(*probs, Problem{
				Sig: fmt.Sprintf("accessor=%s;panic;results=%s;vouchers=%s", name, cls(results), cls(vouchers)),
				Msg: fmt.Sprintf("accessor %s panicked: %v %s", name, r, st),
			})
		}
	}()
	f()
}

func cls(n int) string {
	if n == 0 {
		return "0"
	}
	return ">0"
}

// Check evaluates the per-state part of C19 on st.
func Check(st datatransfer.ChannelState) []Problem {
	var ps []Problem
	if st == nil {
		return nil
	}
	nv, nr := -1, -1
	try("Vouchers", &ps, 0, 0, func() { nv = len(st.Vouchers()) })
	try("VoucherResults", &ps, 0, 0, func() { nr = len(st.VoucherResults()) })
	t := func(name string, f func()) { try(name, &ps, nr, nv, f) }
	var vec Vec
	t("Status", func() { vec.Status = st.Status() })
	t("Message", func() { _ = st.Message() })
	t("Queued", func() { _ = st.Queued() })
	t("Sent", func() { _ = st.Sent() })
	t("Received", func() { _ = st.Received() })
	t("QueuedCidsTotal", func() { _ = st.QueuedCidsTotal() })
	t("SentCidsTotal", func() { _ = st.SentCidsTotal() })
	t("ReceivedCidsTotal", func() { _ = st.ReceivedCidsTotal() })
	t("InitiatorPaused", func() { vec.IPaused = st.InitiatorPaused() })
	t("ResponderPaused", func() { vec.RPaused = st.ResponderPaused() })
	t("BothPaused", func() { vec.Both = st.BothPaused() })
	t("SelfPaused", func() { vec.SelfP = st.SelfPaused() })
	t("DataLimit", func() { _ = st.DataLimit() })
	t("RequiresFinalization", func() { _ = st.RequiresFinalization() })
	t("SelfPeer", func() { vec.Self = st.SelfPeer() })
	t("OtherPeer", func() { vec.Other = st.OtherPeer() })
	t("Sender", func() { vec.Sender = st.Sender() })
	t("Recipient", func() { vec.Rcpt = st.Recipient() })
	t("ChannelID", func() { vec.Chid = st.ChannelID() })
	t("TransferID", func() { vec.TID = st.TransferID() })
	t("IsPull", func() { vec.IsPull = st.IsPull() })
	t("BaseCID", func() { _ = st.BaseCID() })
	t("Selector", func() { _ = st.Selector() })
	t("TotalSize", func() { _ = st.TotalSize() })
	t("Stages", func() {
		if st.Stages() == nil {
			ps = append(ps, Problem{"accessor=Stages;nil", "Stages() returned nil"})
		}
	})
	var first, last, lastRes datatransfer.TypedVoucher
	okFirst, okLast, okLastRes := false, false, false
	t("Voucher", func() { first = st.Voucher(); okFirst = true })
	t("LastVoucher", func() { last = st.LastVoucher(); okLast = true })
	t("LastVoucherResult", func() { lastRes = st.LastVoucherResult(); okLastRes = true })
	if len(ps) > 0 && nv < 0 {
		return ps
	}
	// derived views
	add := func(sig, msg string) { ps = append(ps, Problem{sig, msg}) }
	if vec.Both != (vec.IPaused && vec.RPaused) {
		add("view=BothPaused", fmt.Sprintf("BothPaused=%v but InitiatorPaused=%v ResponderPaused=%v", vec.Both, vec.IPaused, vec.RPaused))
	}
	// pull <=> initiator is recipient
	if vec.IsPull != (vec.Chid.Initiator == vec.Rcpt) {
		add("view=IsPull", fmt.Sprintf("IsPull=%v but initiator=%s recipient=%s", vec.IsPull, doubles.PeerName(vec.Chid.Initiator), doubles.PeerName(vec.Rcpt)))
	}
	if vec.Chid.ID != vec.TID {
		add("view=ChannelID.ID", "ChannelID().ID != TransferID()")
	}
	// initiator/responder are the two parties sender/recipient
	if !((vec.Chid.Initiator == vec.Sender && vec.Chid.Responder == vec.Rcpt) || (vec.Chid.Initiator == vec.Rcpt && vec.Chid.Responder == vec.Sender)) {
		add("view=ChannelID.parties", fmt.Sprintf("ChannelID parties (%s,%s) are not {sender=%s, recipient=%s}", doubles.PeerName(vec.Chid.Initiator), doubles.PeerName(vec.Chid.Responder), doubles.PeerName(vec.Sender), doubles.PeerName(vec.Rcpt)))
	}
	if vec.Self != "" && (vec.Self == vec.Sender || vec.Self == vec.Rcpt) {
		want := vec.Sender
		if vec.Self == vec.Sender {
			want = vec.Rcpt
		}
		if vec.Other != want {
			add("view=OtherPeer", fmt.Sprintf("OtherPeer=%s, self=%s sender=%s recipient=%s", doubles.PeerName(vec.Other), doubles.PeerName(vec.Self), doubles.PeerName(vec.Sender), doubles.PeerName(vec.Rcpt)))
		}
		if vec.Other == vec.Self && vec.Sender != vec.Rcpt {
			add("view=OtherPeer==Self", "OtherPeer equals SelfPeer")
		}
		selfIsInit := vec.Self == vec.Chid.Initiator
		wantSelfP := vec.RPaused
		if selfIsInit {
			wantSelfP = vec.IPaused
		}
		if vec.SelfP != wantSelfP {
			add("view=SelfPaused", fmt.Sprintf("SelfPaused=%v, selfIsInitiator=%v ip=%v rp=%v", vec.SelfP, selfIsInit, vec.IPaused, vec.RPaused))
		}
	}
	if vec.Status == datatransfer.Finalizing && !vec.RPaused {
		add("view=ResponderPaused@Finalizing", "ResponderPaused() false in Finalizing")
	}
	vs := st.Vouchers()
	rs := st.VoucherResults()
	if okFirst {
		if len(vs) > 0 && doubles.TV(first) != doubles.TV(vs[0]) {
			add("view=Voucher!=Vouchers[0]", "Voucher() differs from Vouchers()[0]")
		}
		if len(vs) == 0 && (first.Type != "" || first.Voucher != nil) {
			add("view=Voucher-nonempty-on-empty-log", "Voucher() non-empty with empty log")
		}
	}
	if okLast {
		if len(vs) > 0 && doubles.TV(last) != doubles.TV(vs[len(vs)-1]) {
			add("view=LastVoucher", "LastVoucher() differs from final element of Vouchers()")
		}
		if len(vs) == 0 && (last.Type != "" || last.Voucher != nil) {
			add("view=LastVoucher-nonempty-on-empty-log", "LastVoucher() non-empty with empty log")
		}
	}
	if okLastRes {
		if len(rs) > 0 && doubles.TV(lastRes) != doubles.TV(rs[len(rs)-1]) {
			add("view=LastVoucherResult", "LastVoucherResult() differs from final element of VoucherResults()")
		}
		if len(rs) == 0 && (lastRes.Type != "" || lastRes.Voucher != nil) {
			add("view=LastVoucherResult-nonempty-on-empty-log", "LastVoucherResult() non-empty with empty log")
		}
	}
	return ps
}

// IsPrefix reports whether a is a prefix of b (as rendered lists "[x,y]").
func IsPrefix(a, b []datatransfer.TypedVoucher) bool {
	if len(a) > len(b) {
		return false
	}
	for i := range a {
		if doubles.TV(a[i]) != doubles.TV(b[i]) {
			return false
		}
	}
	return true
}
