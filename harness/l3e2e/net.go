// Package l3e2e runs two complete real nodes (libp2p mocknet + real go-graphsync +
// real graphsync transport + real manager) inside one bubble, with holding
// decorators around each node's data-transfer network, gated link systems and
// gated validators, so that the order of all protocol-level events is an
// explorer choice.
package l3e2e

import (
	"bytes"
	"context"
	"errors"
	"fmt"
	"io"
	"sort"
	"sync"

	"github.com/ipfs/go-cid"
	"github.com/ipld/go-ipld-prime"
	"github.com/ipld/go-ipld-prime/codec/dagcbor"
	"github.com/ipld/go-ipld-prime/datamodel"
	"github.com/ipld/go-ipld-prime/fluent/qp"
	"github.com/ipld/go-ipld-prime/linking"
	cidlink "github.com/ipld/go-ipld-prime/linking/cid"
	"github.com/ipld/go-ipld-prime/node/basicnode"
	"github.com/libp2p/go-libp2p/core/peer"
	"github.com/libp2p/go-libp2p/core/protocol"

	datatransfer "github.com/filecoin-project/go-data-transfer/v2"
	dtnet "github.com/filecoin-project/go-data-transfer/v2/network"

	"verif/doubles"
)

// ---------------------------------------------------------------- pending items

// Item is something the explorer can release: a held message, a parked block read / commit, a gated validation.
type Item struct {
	Seq   int64
	Kind  string // msg, read, commit, validate
	Node  string // node that produced it
	Label string
	go_   chan struct{} // closed to release
	done  bool
}

type Items struct {
	mu    sync.Mutex
	items []*Item
}

func (q *Items) add(kind, node, label string) *Item {
	it := &Item{Seq: doubles.NextSeq(), Kind: kind, Node: node, Label: label, go_: make(chan struct{})}
	q.mu.Lock()
	q.items = append(q.items, it)
	q.mu.Unlock()
	return it
}

// Pending lists unreleased items, oldest first.
func (q *Items) Pending() []*Item {
	q.mu.Lock()
	defer q.mu.Unlock()
	var out []*Item
	for _, it := range q.items {
		if !it.done {
			out = append(out, it)
		}
	}
	sort.Slice(out, func(i, j int) bool { return out[i].Seq < out[j].Seq })
	return out
}

// Release lets the item proceed.
func (q *Items) Release(it *Item) {
	q.mu.Lock()
	if it.done {
		q.mu.Unlock()
		return
	}
	it.done = true
	q.mu.Unlock()
	close(it.go_)
}

// ---------------------------------------------------------------- holding network decorator

var errLinkDown = errors.New("link is down")

// HeldNet wraps a real DataTransferNetwork: SendMessage is queued and performed on release.
type HeldNet struct {
	dtnet.DataTransferNetwork
	name  string
	q     *Items
	mu    sync.Mutex
	Log   []doubles.Sent // everything handed to SendMessage, in order
	Down  func() bool
	Hold  bool
	Fails int
}

func (h *HeldNet) SendMessage(ctx context.Context, to peer.ID, m datatransfer.Message) error {
	cp := doubles.Recode(m)
	if h.Down != nil && h.Down() {
		h.mu.Lock()
		h.Log = append(h.Log, doubles.Sent{Seq: doubles.NextSeq(), To: to, Msg: cp, Err: errLinkDown})
		h.Fails++
		h.mu.Unlock()
		return errLinkDown
	}
	h.mu.Lock()
	h.Log = append(h.Log, doubles.Sent{Seq: doubles.NextSeq(), To: to, Msg: cp})
	hold := h.Hold
	h.mu.Unlock()
	if !hold {
		return h.DataTransferNetwork.SendMessage(ctx, to, m)
	}
	it := h.q.add("msg", h.name, doubles.MsgSummary(cp))
	go func() {
		<-it.go_
		if h.Down != nil && h.Down() {
			return // lost in the network
		}
		_ = h.DataTransferNetwork.SendMessage(context.Background(), to, m)
	}()
	return nil
}

func (h *HeldNet) Sends() []doubles.Sent {
	h.mu.Lock()
	defer h.mu.Unlock()
	return append([]doubles.Sent(nil), h.Log...)
}

func (h *HeldNet) Protocol(ctx context.Context, p peer.ID) (protocol.ID, error) {
	return datatransfer.ProtocolDataTransfer1_2, nil
}

// ---------------------------------------------------------------- gated block store

// Store is an in-memory block store with an optionally gated link system.
type Store struct {
	name                        string
	q                           *Items
	mu                          sync.Mutex
	blocks                      map[string][]byte
	Reads                       []string
	Writes                      []string
	GateReads, GateWrites       bool
	FailNextRead, FailNextWrite bool // one-shot storage faults
}

func NewStore(name string, q *Items) *Store {
	return &Store{name: name, q: q, blocks: map[string][]byte{}}
}

func (s *Store) Has(c cid.Cid) bool {
	s.mu.Lock()
	defer s.mu.Unlock()
	_, ok := s.blocks[c.KeyString()]
	return ok
}
func (s *Store) Get(c cid.Cid) []byte {
	s.mu.Lock()
	defer s.mu.Unlock()
	return s.blocks[c.KeyString()]
}
func (s *Store) Put(c cid.Cid, b []byte) {
	s.mu.Lock()
	defer s.mu.Unlock()
	s.blocks[c.KeyString()] = append([]byte(nil), b...)
}
func (s *Store) Len() int {
	s.mu.Lock()
	defer s.mu.Unlock()
	return len(s.blocks)
}

// LinkSystem returns a link system over the store; reads / commits park as items when gated.
func (s *Store) LinkSystem() ipld.LinkSystem {
	ls := cidlink.DefaultLinkSystem()
	ls.TrustedStorage = true
	ls.StorageReadOpener = func(lctx linking.LinkContext, l datamodel.Link) (io.Reader, error) {
		c := l.(cidlink.Link).Cid
		s.mu.Lock()
		b, ok := s.blocks[c.KeyString()]
		gate := s.GateReads
		s.Reads = append(s.Reads, c.String())
		s.mu.Unlock()
		if ok && s.FailNextRead {
			s.mu.Lock()
			s.FailNextRead = false
			s.mu.Unlock()
			return nil, fmt.Errorf("scripted read failure for block %s", c)
		}
		if !ok {
			return nil, fmt.Errorf("block %s not found", c)
		}
		if gate {
			it := s.q.add("read", s.name, short(c))
			<-it.go_
		}
		return bytes.NewReader(b), nil
	}
	ls.StorageWriteOpener = func(lctx linking.LinkContext) (io.Writer, linking.BlockWriteCommitter, error) {
		var buf bytes.Buffer
		return &buf, func(l datamodel.Link) error {
			c := l.(cidlink.Link).Cid
			s.mu.Lock()
			gate := s.GateWrites
			s.mu.Unlock()
			if gate {
				it := s.q.add("commit", s.name, short(c))
				<-it.go_
			}
			s.mu.Lock()
			if s.FailNextWrite {
				s.FailNextWrite = false
				s.mu.Unlock()
				return fmt.Errorf("scripted write failure for block %s", c)
			}
			s.blocks[c.KeyString()] = append([]byte(nil), buf.Bytes()...)
			s.Writes = append(s.Writes, c.String())
			s.mu.Unlock()
			return nil
		}, nil
	}
	return ls
}

func short(c cid.Cid) string {
	s := c.String()
	return s[len(s)-6:]
}

// ---------------------------------------------------------------- payload DAGs

// DAG is a payload: root + block list in traversal order (with repeats for duplicate positions).
type DAG struct {
	Name      string
	Root      cid.Cid
	Blocks    map[string][]byte // cid key -> bytes (distinct blocks)
	Traversal []cid.Cid         // blocks at traversal positions (explore-all)
}

// UniqueSize is the summed size of the distinct blocks.
func (d *DAG) UniqueSize() uint64 {
	var n uint64
	for _, b := range d.Blocks {
		n += uint64(len(b))
	}
	return n
}

func storeNode(blocks map[string][]byte, n datamodel.Node) cid.Cid {
	var buf bytes.Buffer
	if err := dagcbor.Encode(n, &buf); err != nil {
		panic(err)
	}
	lp := cidlink.LinkPrototype{Prefix: cid.Prefix{Version: 1, Codec: cid.DagCBOR, MhType: 0x12, MhLength: 32}}
	ls := cidlink.DefaultLinkSystem()
	l, err := ls.ComputeLink(lp, n)
	if err != nil {
		panic(err)
	}
	c := l.(cidlink.Link).Cid
	blocks[c.KeyString()] = buf.Bytes()
	return c
}

func leaf(blocks map[string][]byte, tag string, size int) cid.Cid {
	n, _ := qp.BuildMap(basicnode.Prototype.Any, -1, func(ma datamodel.MapAssembler) {
		qp.MapEntry(ma, "tag", qp.String(tag))
		qp.MapEntry(ma, "pad", qp.Bytes(bytes.Repeat([]byte{byte(len(tag))}, size)))
	})
	return storeNode(blocks, n)
}

func parent(blocks map[string][]byte, tag string, kids ...cid.Cid) cid.Cid {
	n, _ := qp.BuildMap(basicnode.Prototype.Any, -1, func(ma datamodel.MapAssembler) {
		qp.MapEntry(ma, "tag", qp.String(tag))
		qp.MapEntry(ma, "kids", qp.List(-1, func(la datamodel.ListAssembler) {
			for _, k := range kids {
				qp.ListEntry(la, qp.Link(cidlink.Link{Cid: k}))
			}
		}))
	})
	return storeNode(blocks, n)
}

// DAGs builds the payload family.
func DAGs() []*DAG {
	var out []*DAG
	{
		b := map[string][]byte{}
		r := leaf(b, "single", 40)
		out = append(out, &DAG{Name: "single-block", Root: r, Blocks: b, Traversal: []cid.Cid{r}})
	}
	{
		b := map[string][]byte{}
		l1, l2, l3 := leaf(b, "l1", 30), leaf(b, "l2", 70), leaf(b, "l3", 110)
		r := parent(b, "root3", l1, l2, l3)
		out = append(out, &DAG{Name: "root+3-leaves", Root: r, Blocks: b, Traversal: []cid.Cid{r, l1, l2, l3}})
	}
	{
		b := map[string][]byte{}
		c3 := leaf(b, "c3", 50)
		c2 := parent(b, "c2", c3)
		c1 := parent(b, "c1", c2)
		out = append(out, &DAG{Name: "chain-of-3", Root: c1, Blocks: b, Traversal: []cid.Cid{c1, c2, c3}})
	}
	{
		b := map[string][]byte{}
		d := leaf(b, "dup", 60)
		o := leaf(b, "other", 20)
		r := parent(b, "rootdup", d, o, d)
		out = append(out, &DAG{Name: "duplicate-leaf", Root: r, Blocks: b, Traversal: []cid.Cid{r, d, o, d}})
	}
	{
		b := map[string][]byte{}
		l1, l2, l3, l4 := leaf(b, "m1", 10), leaf(b, "m2", 20), leaf(b, "m3", 30), leaf(b, "m4", 40)
		r := parent(b, "root4", l1, l2, l3, l4)
		out = append(out, &DAG{Name: "root+4-leaves", Root: r, Blocks: b, Traversal: []cid.Cid{r, l1, l2, l3, l4}})
	}
	{
		b := map[string][]byte{}
		a1, a2 := leaf(b, "a1", 15), leaf(b, "a2", 25)
		b1 := leaf(b, "b1", 35)
		pa := parent(b, "pa", a1, a2)
		pb := parent(b, "pb", b1)
		r := parent(b, "tree", pa, pb)
		out = append(out, &DAG{Name: "two-level-tree", Root: r, Blocks: b, Traversal: []cid.Cid{r, pa, a1, a2, pb, b1}})
	}
	return out
}
