package l3e2e

import (
	"fmt"
	"time"

	"verif/mc"
)

// c20Stop: run the default path of a real two-node transfer for k steps, then stop one or both managers;
// Stop must return and leave no goroutine parked in a library lock, at every quiescent point k.
func c20Stop(x *mc.Cell, sc Scenario) {
	for _, who := range []string{"initiator", "responder", "both"} {
		for k := 0; k < 40; k++ {
			who, k := who, k
			done := false
			x.Executions++
			rep := map[string]any{"scenario": sc.String(), "stop": who, "after_steps": k}
			pv, stack := mc.Bubble(x.T, func() {
				w := NewWorld()
				defer w.Close()
				r := setup(w, sc)
				r.open()
				steps := 0
				for steps < k {
					mc.Wait()
					items, apps := r.pendingMenu()
					if len(items) == 0 && len(apps) == 0 {
						if r.bothSettled() {
							done = true
							break
						}
						idle()
						if it, ap := r.pendingMenu(); len(it) == 0 && len(ap) == 0 {
							idle()
							if it, ap := r.pendingMenu(); len(it) == 0 && len(ap) == 0 {
								done = true
								break
							}
						}
						continue
					}
					if len(items) > 0 {
						w.Q.Release(items[0])
					} else {
						r.doApp(apps[0])
					}
					steps++
				}
				mc.Wait()
				var stops []func()
				if who != "responder" {
					stops = append(stops, r.ini.StopOnce)
				}
				if who != "initiator" {
					stops = append(stops, r.rsp.StopOnce)
				}
				for _, s := range stops {
					cr := mc.Go(s)
					mc.Wait()
					// a store read / commit that the harness is holding back completes while the node shuts down (a disk
					// operation returns eventually); held messages and validations stay held
					for round := 0; round < 200 && !cr.Returned(); round++ {
						released := false
						for _, it := range w.Q.Pending() {
							if it.Kind == "read" || it.Kind == "commit" {
								w.Q.Release(it)
								released = true
							}
						}
						if !released {
							time.Sleep(10 * time.Minute) // timeouts inside Stop get their chance (24 h in all)
						}
						mc.Wait()
					}
					hang := !cr.Returned()
					if hang || cr.Panic != nil {
						stacks := mc.BlockedStacks(5)
						n := mc.Unblock()
						x.Violate("C20", fmt.Sprintf("stop-during-transfer;did-not-return;blocked-in=%v", mc.BlockedSites()),
							fmt.Sprintf("%s: Stop(%s) after %d protocol steps did not return (panic=%v); %d goroutines parked in library locks\n%s", sc, who, k, cr.Panic, n, stacks), rep)
						x.Die()
					}
				}
				// messages still in flight are lost from here on (a stopped node's stream handler stays registered;
				// a message handled after Stop parks its handler goroutine in the stopped state-machine group for
				// good - observation (c) of DESIGN 9.3, not a goroutine blocked on a lock of this library)
				w.Drop()
				time.Sleep(10 * time.Minute)
				mc.Wait()
				x.Premise++
				x.Outcome(fmt.Sprintf("%s|%s|%d", sc, who, steps))
				if p := mc.Parked(); p != 0 {
					stacks := mc.BlockedStacks(5)
					mc.Unblock()
					x.Violate("C20", fmt.Sprintf("stop-during-transfer;goroutines-left-in-locks;blocked-in=%v", mc.BlockedSites()),
						fmt.Sprintf("%s: after Stop(%s) at step %d and 24h, %d goroutine(s) are still parked in library locks\n%s", sc, who, k, p, stacks), rep)
				}
			})
			if pv != nil {
				x.Violate("C20", "panic;stop-during-transfer", fmt.Sprintf("%v\n%s", pv, stack), rep)
			}
			if done {
				break
			}
		}
	}
}

func init() {
	for _, pull := range []bool{false, true} {
		for _, pr := range []string{"accept", "limit", "finalize-update"} {
			sc := Scenario{Pull: pull, DAG: 1, Stores: "default", Profile: pr}
			mc.Register("C20", "stop-at-every-point/"+sc.String(), "both", func(x *mc.Cell) { c20Stop(x, sc) })
			g := sc
			g.GateBlocks = true
			mc.Register("C20", "stop-at-every-point/"+g.String(), "thorough", func(x *mc.Cell) { c20Stop(x, g) })
		}
	}
}
