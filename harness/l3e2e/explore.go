package l3e2e

import (
	"context"
	"fmt"
	"time"

	datatransfer "github.com/filecoin-project/go-data-transfer/v2"

	"verif/doubles"
	"verif/mc"
)

// debugDump is set by debug tests only.
var debugDump func(r *runCtx)

var userActions = []string{"restart-ini", "fail-next-commit", "fail-next-read", "ini-pause", "ini-resume", "rsp-pause", "rsp-resume", "ini-voucher", "rsp-voucher-result", "disconnect", "heal", "restart-rsp", "tick"}

func terminal(s datatransfer.Status) bool {
	return s == datatransfer.Completed || s == datatransfer.Failed || s == datatransfer.Cancelled
}

func (r *runCtx) bothSettled() bool {
	iv, e1 := r.ini.Vec(r.chid)
	if e1 != nil || !terminal(iv.Status) {
		return false
	}
	rv, e2 := r.rsp.Vec(r.chid)
	return e2 != nil || terminal(rv.Status)
}

func (r *runCtx) doAction(a string) {
	ctx := context.Background()
	var err error
	switch a {
	case "ini-pause":
		err = r.ini.Mgr.PauseDataTransferChannel(ctx, r.chid)
		r.usedActions["ini-paused"] = true
	case "ini-resume":
		err = r.ini.Mgr.ResumeDataTransferChannel(ctx, r.chid)
		delete(r.usedActions, "ini-paused")
	case "rsp-pause":
		err = r.rsp.Mgr.PauseDataTransferChannel(ctx, r.chid)
		r.usedActions["rsp-paused"] = true
	case "rsp-resume":
		err = r.rsp.Mgr.ResumeDataTransferChannel(ctx, r.chid)
		delete(r.usedActions, "rsp-paused")
	case "ini-voucher":
		err = r.ini.Mgr.SendVoucher(ctx, r.chid, doubles.Voucher("T", "extra"))
	case "rsp-voucher-result":
		err = r.rsp.Mgr.SendVoucherResult(ctx, r.chid, doubles.Voucher("R", "extra"))
	case "disconnect":
		r.w.Disconnect()
		r.usedActions["down"] = true
	case "heal":
		r.w.Reconnect()
		delete(r.usedActions, "down")
		mc.Wait()
		err = r.ini.Mgr.RestartDataTransferChannel(ctx, r.chid)
	case "restart-rsp":
		err = r.rsp.Mgr.RestartDataTransferChannel(ctx, r.chid)
	case "restart-ini":
		err = r.ini.Mgr.RestartDataTransferChannel(ctx, r.chid)
	case "tick":
		time.Sleep(2 * time.Second)
	case "fail-next-commit":
		r.rcvStore.mu.Lock()
		r.rcvStore.FailNextWrite = true
		r.rcvStore.mu.Unlock()
	case "fail-next-read":
		r.sndStore.mu.Lock()
		r.sndStore.FailNextRead = true
		r.sndStore.mu.Unlock()
	}
	r.logf("%s=%v", a, err)
	mc.Wait()
}

func (r *runCtx) actionEnabled(a string) bool {
	if r.usedActions["did:"+a] {
		return false
	}
	switch a {
	case "ini-resume":
		return r.usedActions["ini-paused"]
	case "rsp-resume":
		return r.usedActions["rsp-paused"]
	case "heal":
		return r.usedActions["down"]
	case "disconnect":
		return !r.usedActions["down"]
	case "ini-pause":
		return !r.usedActions["ini-paused"]
	case "rsp-pause":
		return !r.usedActions["rsp-paused"]
	}
	return true
}

// idle advances the virtual clock a little so that graphsync / libp2p timers can make progress.
var idleDur = 200 * time.Millisecond

func idle() {
	time.Sleep(idleDur)
	mc.Wait()
}

// explore runs one scenario under the chooser: default = release the oldest pending thing.
func explore(x *mc.Cell, sc Scenario, c *mc.Chooser, name string, withActions bool) mc.Exec {
	var ex mc.Exec
	pv, stack := mc.Bubble(x.T, func() {
		w := NewWorld()
		defer w.Close()
		r := setup(w, sc)
		r.open()
		idleRounds := 0
		for step := 0; step < 200; step++ {
			mc.Wait()
			r.invariant(x, mc.EnumReplay(name, c))
			items, apps := r.pendingMenu()
			var menu []string
			for _, it := range items {
				menu = append(menu, it.Kind+":"+it.Node+":"+it.Label)
			}
			menu = append(menu, apps...)
			nDefault := len(menu)
			if nDefault == 0 {
				if r.bothSettled() || idleRounds >= 30 {
					break
				}
				idleRounds++
				idle()
				continue
			}
			var acts []string
			if withActions && !r.bothSettled() {
				for _, a := range userActions {
					if r.actionEnabled(a) {
						acts = append(acts, a)
					}
				}
			}
			ch := c.Choose(nDefault+len(acts), fmt.Sprintf("s%d", step))
			switch {
			case ch < len(items):
				r.logf("release %s", menu[ch])
				w.Q.Release(items[ch])
				mc.Wait()
			case ch < nDefault:
				r.doApp(menu[ch])
			default:
				a := acts[ch-nDefault]
				r.usedActions["did:"+a] = true
				r.doAction(a)
			}
			idleRounds = 0
		}
		// drain: heal, resume what we paused, release everything, let the application finish its work
		for round := 0; round < 60; round++ {
			mc.Wait()
			r.invariant(x, mc.EnumReplay(name, c))
			if r.usedActions["down"] {
				r.doAction("heal")
			}
			if r.usedActions["ini-paused"] {
				r.doAction("ini-resume")
			}
			if r.usedActions["rsp-paused"] {
				r.doAction("rsp-resume")
			}
			items, apps := r.pendingMenu()
			if len(items) == 0 && len(apps) == 0 {
				if r.bothSettled() {
					break
				}
				idle()
				continue
			}
			for _, it := range items {
				w.Q.Release(it)
				mc.Wait()
			}
			for _, a := range r.appItems() {
				r.doApp(a)
			}
		}
		mc.Wait()
		rep := mc.EnumReplay(name, c)
		ex.Premise, ex.Outcome = r.check(x, rep)
		x.DebugLog = r.log
		if debugDump != nil {
			debugDump(r)
		}
	})
	if pv != nil {
		x.Violate("C01", "panic", fmt.Sprintf("%s: %v\n%s", sc, pv, stack), mc.EnumReplay(name, c))
	}
	return ex
}

func c01Scenario(x *mc.Cell, sc Scenario, bound int, withActions bool) {
	name := "c01/" + sc.String()
	x.Enumerate(name, mc.EnumOpts{MaxDeviations: bound, Recheck: 1 << 30}, func(c *mc.Chooser) mc.Exec {
		return explore(x, sc, c, name, withActions)
	})
}

func init() {
	profiles := []string{"accept", "limit", "finalize-update", "force-pause", "limit+finalize", "finalize-resume"}
	for _, pull := range []bool{false, true} {
		for d := range DAGs() {
			for _, st := range []string{"default", "receiver", "sender", "both"} {
				for _, pr := range profiles {
					sc := Scenario{Pull: pull, DAG: d, Stores: st, Profile: pr}
					quick := (d == 1 || d == 3) && (st == "default" || st == "both") && pr != "finalize-resume"
					if d == 1 && st == "receiver" && pr == "force-pause" {
						// a restart before the first block with a per-channel store on the receiving side only (seeded change
						// C01-r2: the restarted request must still write into the channel's store)
						quick = true
					}
					if quick {
						mc.Register("C01", "events+actions/"+sc.String(), "quick", func(x *mc.Cell) { c01Scenario(x, sc, 1, true) })
					}
					// bound 2 (two deviations from the default delivery order / two user actions) is affordable for the
					// quick-tier scenario subset only; the other scenarios are explored to bound 1 (measured: bound 2
					// everywhere = 226k executions, 80 min on 16 cores)
					thoroughBound := 1
					if quick {
						thoroughBound = 2
					}
					mc.Register("C01", "events+actions/"+sc.String(), "thorough", func(x *mc.Cell) { c01Scenario(x, sc, thoroughBound, true) })
					if st == "default" && (pr == "accept" || pr == "limit" || (pr == "finalize-update" && d == 1)) && d <= 3 {
						g := sc
						g.GateBlocks = true
						tier := "thorough"
						if d == 1 {
							tier = "both"
						}
						mc.Register("C01", "block-level/"+g.String(), tier, func(x *mc.Cell) {
							b := 1
							if x.Thorough() && g.DAG <= 1 {
								b = 2
							}
							c01Scenario(x, g, b, false)
						})
					}
				}
			}
		}
	}
	mc.Register("C01", "default-paths", "both", func(x *mc.Cell) {
		for _, pull := range []bool{false, true} {
			for d := range DAGs() {
				for _, st := range []string{"default", "receiver", "sender", "both"} {
					for _, pr := range []string{"accept", "limit", "finalize-update", "finalize-resume", "force-pause", "limit+finalize"} {
						c01Scenario(x, Scenario{Pull: pull, DAG: d, Stores: st, Profile: pr}, 0, false)
					}
				}
			}
		}
	})
}
