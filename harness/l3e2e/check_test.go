package l3e2e

import (
	"testing"

	"verif/mc"
)

func TestCheck(t *testing.T) { mc.Main(t, "l3e2e") }
