package l3e2e

import (
	"fmt"
	"os"
	"testing"

	"verif/mc"
)

func TestDebug(t *testing.T) {
	if os.Getenv("VERIF_DEBUG") == "" {
		t.Skip()
	}
	for _, pr := range []string{"accept", "limit", "finalize-update", "finalize-resume", "force-pause", "limit+finalize"} {
		for _, pull := range []bool{false, true} {
			for _, st := range []string{"default", "receiver", "sender", "both"} {
				sc := Scenario{Pull: pull, DAG: 1, Stores: st, Profile: pr}
				x := mc.NewCellForDebug(t)
				ex := explore(x, sc, &mc.Chooser{}, "dbg", false)
				if !ex.Premise {
					fmt.Println(sc, "=>", ex.Premise, ex.Outcome)
					fmt.Println(x.DebugLog)
				}
			}
		}
	}
}
