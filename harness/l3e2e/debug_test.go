package l3e2e

import (
	"fmt"
	datatransfer "github.com/filecoin-project/go-data-transfer/v2"
	"os"
	"testing"
	"time"

	"verif/mc"
)

func TestDebug(t *testing.T) {
	if os.Getenv("VERIF_DEBUG") == "" {
		t.Skip()
	}
	for _, pr := range []string{"accept", "limit", "finalize-update", "finalize-resume", "force-pause", "limit+finalize"} {
		for _, pull := range []bool{false, true} {
			for _, st := range []string{"default", "receiver", "sender", "both"} {
				sc := Scenario{Pull: pull, DAG: 1, Stores: st, Profile: pr}
				x := mc.NewCellForDebug(t)
				ex := explore(x, sc, &mc.Chooser{}, "dbg", false)
				if !ex.Premise {
					fmt.Println(sc, "=>", ex.Premise, ex.Outcome)
					fmt.Println(x.DebugLog)
				}
			}
		}
	}
}

func TestDebugRestartEarly(t *testing.T) {
	if os.Getenv("VERIF_DEBUG") == "" {
		t.Skip()
	}
	sc := Scenario{Pull: true, DAG: 1, Stores: os.Getenv("VERIF_STORES"), Profile: "force-pause"}
	debugDump = func(r *runCtx) {
		for _, n := range []*Node{r.ini, r.rsp} {
			n.mu.Lock()
			for _, e := range n.Events {
				fmt.Printf("   %s ev %d %s\n", n.Name, e.Seq, datatransfer.Events[e.Code])
			}
			n.mu.Unlock()
		}
	}
	if os.Getenv("VERIF_IDLE") != "" {
		idleDur = 20 * time.Second
	}
	for k := 1; k < 2; k++ {
		x := mc.NewCellForDebug(t)
		c := &mc.Chooser{Prefix: []int{k}}
		ex := explore(x, sc, c, "dbg", true)
		fmt.Println("choice", k, "labels", c.Trace[0].Label, c.Trace[0].N, "=>", ex.Premise, ex.Outcome, "violations", len(x.Violations))
		fmt.Println(x.DebugLog)
	}
}
