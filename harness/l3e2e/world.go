package l3e2e

import (
	"context"
	"fmt"
	"sync"
	"time"

	"github.com/ipfs/go-cid"
	"github.com/ipfs/go-graphsync"
	gsimpl "github.com/ipfs/go-graphsync/impl"
	gsnet "github.com/ipfs/go-graphsync/network"
	"github.com/ipld/go-ipld-prime/datamodel"
	"github.com/libp2p/go-libp2p/core/host"
	"github.com/libp2p/go-libp2p/core/peer"
	mocknet "github.com/libp2p/go-libp2p/p2p/net/mock"

	datatransfer "github.com/filecoin-project/go-data-transfer/v2"
	dtimpl "github.com/filecoin-project/go-data-transfer/v2/impl"
	dtnet "github.com/filecoin-project/go-data-transfer/v2/network"
	dtgs "github.com/filecoin-project/go-data-transfer/v2/transport/graphsync"

	"verif/doubles"
	"verif/mc"
	"verif/views"
)

// Ev is one subscriber call on a node.
type Ev struct {
	Seq  int64
	Code datatransfer.EventCode
	Chid datatransfer.ChannelID
	Vec  views.Vec
}

// Validator is a gated, scripted validator.
type Validator struct {
	q      *Items
	name   string
	mu     sync.Mutex
	Calls  []string
	Result func(kind string, n int) (datatransfer.ValidationResult, error)
	Gate   bool
}

func (v *Validator) answer(kind string) (datatransfer.ValidationResult, error) {
	v.mu.Lock()
	n := len(v.Calls)
	v.Calls = append(v.Calls, kind)
	gate := v.Gate
	f := v.Result
	v.mu.Unlock()
	if gate {
		it := v.q.add("validate", v.name, kind)
		<-it.go_
	}
	if f != nil {
		return f(kind, n)
	}
	return datatransfer.ValidationResult{Accepted: true}, nil
}
func (v *Validator) ValidatePush(datatransfer.ChannelID, peer.ID, datamodel.Node, cid.Cid, datamodel.Node) (datatransfer.ValidationResult, error) {
	return v.answer("push")
}
func (v *Validator) ValidatePull(datatransfer.ChannelID, peer.ID, datamodel.Node, cid.Cid, datamodel.Node) (datatransfer.ValidationResult, error) {
	return v.answer("pull")
}
func (v *Validator) ValidateRestart(datatransfer.ChannelID, datatransfer.ChannelState) (datatransfer.ValidationResult, error) {
	return v.answer("restart")
}

// Node is one complete real node.
type Node struct {
	Name    string
	Host    host.Host
	GS      graphsync.GraphExchange
	gsStop  context.CancelFunc
	Net     *HeldNet
	Tr      *dtgs.Transport
	DS      *doubles.RecDS
	Mgr     datatransfer.Manager
	Val     *Validator
	Store   *Store // default graphsync store
	ChStore *Store // per-channel store (when configured)

	mu      sync.Mutex
	Events  []Ev
	stopped bool
}

func (n *Node) ID() peer.ID { return n.Host.ID() }

// StopOnce stops the manager (idempotent for the harness).
func (n *Node) StopOnce() {
	n.mu.Lock()
	if n.stopped {
		n.mu.Unlock()
		return
	}
	n.stopped = true
	n.mu.Unlock()
	_ = n.Mgr.Stop(context.Background())
}

func (n *Node) EventsOf(chid datatransfer.ChannelID) []Ev {
	n.mu.Lock()
	defer n.mu.Unlock()
	var out []Ev
	for _, e := range n.Events {
		if e.Chid == chid {
			out = append(out, e)
		}
	}
	return out
}

func (n *Node) Saw(chid datatransfer.ChannelID, code datatransfer.EventCode) bool {
	for _, e := range n.EventsOf(chid) {
		if e.Code == code {
			return true
		}
	}
	return false
}

func (n *Node) Vec(chid datatransfer.ChannelID) (views.Vec, error) {
	st, err := n.Mgr.ChannelState(context.Background(), chid)
	if err != nil {
		return views.Vec{}, err
	}
	return views.Of(st), nil
}

// World is two nodes on a mocknet.
type World struct {
	Mn   mocknet.Mocknet
	Q    *Items
	A, B *Node
	down bool
}

func (w *World) newNode(name string, h host.Host) *Node {
	n := &Node{Name: name, Host: h, DS: doubles.NewRecDS()}
	n.Store = NewStore(name+"/default", w.Q)
	n.ChStore = NewStore(name+"/channel", w.Q)
	ctx, cancel := context.WithCancel(context.Background())
	n.gsStop = cancel
	n.GS = gsimpl.New(ctx, gsnet.NewFromLibp2pHost(h), n.Store.LinkSystem())
	real := dtnet.NewFromLibp2pHost(h, dtnet.RetryParameters(time.Second, time.Second, 1, 1), dtnet.SendMessageParameters(5*time.Second, 5*time.Second))
	n.Net = &HeldNet{DataTransferNetwork: real, name: name, q: w.Q, Down: func() bool { return w.down }, Hold: true}
	n.Tr = dtgs.NewTransport(h.ID(), n.GS)
	m, err := dtimpl.NewDataTransfer(n.DS, n.Net, n.Tr)
	if err != nil {
		panic(err)
	}
	n.Mgr = m
	n.Val = &Validator{q: w.Q, name: name}
	if err := m.RegisterVoucherType("T", n.Val); err != nil {
		panic(err)
	}
	m.SubscribeToEvents(func(e datatransfer.Event, st datatransfer.ChannelState) {
		v := views.Of(st)
		n.mu.Lock()
		n.Events = append(n.Events, Ev{doubles.NextSeq(), e.Code, st.ChannelID(), v})
		n.mu.Unlock()
	})
	if err := m.Start(context.Background()); err != nil {
		panic(err)
	}
	return n
}

// NewWorld builds the two nodes and links them.
func NewWorld() *World {
	w := &World{Mn: mocknet.New(), Q: &Items{}}
	ha, err := w.Mn.GenPeer()
	if err != nil {
		panic(err)
	}
	hb, err := w.Mn.GenPeer()
	if err != nil {
		panic(err)
	}
	if err := w.Mn.LinkAll(); err != nil {
		panic(err)
	}
	if err := w.Mn.ConnectAllButSelf(); err != nil {
		panic(err)
	}
	w.A = w.newNode("A", ha)
	w.B = w.newNode("B", hb)
	mc.Wait()
	return w
}

// Disconnect cuts the link; messages handed to the network while down fail, held ones are lost.
func (w *World) Disconnect() {
	w.down = true
	_ = w.Mn.DisconnectPeers(w.A.ID(), w.B.ID())
	_ = w.Mn.UnlinkPeers(w.A.ID(), w.B.ID())
}

// Drop makes every held and future message get lost (used after a node was stopped).
func (w *World) Drop() { w.down = true }

// Reconnect restores the link.
func (w *World) Reconnect() {
	_, _ = w.Mn.LinkPeers(w.A.ID(), w.B.ID())
	_, _ = w.Mn.ConnectPeers(w.A.ID(), w.B.ID())
	w.down = false
}

// Close releases everything and stops both nodes.
func (w *World) Close() {
	for i := 0; i < 1000; i++ {
		p := w.Q.Pending()
		if len(p) == 0 {
			break
		}
		for _, it := range p {
			w.Q.Release(it)
		}
		mc.Wait()
	}
	w.A.StopOnce()
	w.B.StopOnce()
	w.A.gsStop()
	w.B.gsStop()
	_ = w.Mn.Close()
	mc.Wait()
	// give libp2p / graphsync timers a chance to unwind
	time.Sleep(time.Minute)
	mc.Wait()
}

func (w *World) String() string { return fmt.Sprintf("A=%s B=%s", w.A.ID(), w.B.ID()) }
