package l3e2e

import (
	"bytes"
	"context"
	"fmt"
	"strings"

	"github.com/ipld/go-ipld-prime"
	cidlink "github.com/ipld/go-ipld-prime/linking/cid"

	datatransfer "github.com/filecoin-project/go-data-transfer/v2"
	dtgs "github.com/filecoin-project/go-data-transfer/v2/transport/graphsync"

	"verif/doubles"
	"verif/mc"
)

// Scenario is one cell of the C01 product.
type Scenario struct {
	Pull       bool
	DAG        int
	Stores     string // default | receiver | sender | both
	Profile    string // accept | limit | finalize-update | finalize-resume | force-pause | limit+finalize
	GateBlocks bool
}

func (s Scenario) String() string {
	return fmt.Sprintf("pull=%v dag=%s stores=%s profile=%s gate-blocks=%v", s.Pull, DAGs()[s.DAG].Name, s.Stores, s.Profile, s.GateBlocks)
}

type runCtx struct {
	w                  *World
	sc                 Scenario
	dag                *DAG
	ini, rsp           *Node // initiator, responder
	snd, rcv           *Node // data sender, data receiver
	chid               datatransfer.ChannelID
	sndStore, rcvStore *Store
	log                []string
	limitRounds        int
	finalReleased      bool
	forceReleased      bool
	usedActions        map[string]bool
	invariantFired     bool
}

func (r *runCtx) logf(f string, a ...any) { r.log = append(r.log, fmt.Sprintf(f, a...)) }

func setup(w *World, sc Scenario) *runCtx {
	r := &runCtx{w: w, sc: sc, dag: DAGs()[sc.DAG], ini: w.A, rsp: w.B, usedActions: map[string]bool{}}
	if sc.Pull {
		r.snd, r.rcv = w.B, w.A
	} else {
		r.snd, r.rcv = w.A, w.B
	}
	// where do the blocks live on each side
	r.sndStore, r.rcvStore = r.snd.Store, r.rcv.Store
	if sc.Stores == "sender" || sc.Stores == "both" {
		r.sndStore = r.snd.ChStore
	}
	if sc.Stores == "receiver" || sc.Stores == "both" {
		r.rcvStore = r.rcv.ChStore
	}
	for k, b := range r.dag.Blocks {
		_ = k
		_ = b
	}
	for _, c := range r.dag.Traversal {
		r.sndStore.Put(c, r.dag.Blocks[c.KeyString()])
	}
	// validator profile on the responder
	total := r.dag.UniqueSize()
	first := uint64(len(r.dag.Blocks[r.dag.Root.KeyString()]))
	r.rsp.Val.Result = func(kind string, n int) (datatransfer.ValidationResult, error) {
		res := datatransfer.ValidationResult{Accepted: true}
		switch sc.Profile {
		case "limit":
			res.DataLimit = first
		case "finalize-update", "finalize-resume":
			res.RequiresFinalization = true
		case "force-pause":
			// the application is "not ready" until it releases the pause itself - also when a restart is re-validated
			// meanwhile (the transport keeps a restarted response paused until the application resumes it)
			res.ForcePause = !r.forceReleased
		case "limit+finalize":
			res.DataLimit = first
			res.RequiresFinalization = true
		}
		_ = total
		return res, nil
	}
	// per-channel stores are configured through a transport configurer keyed by voucher type
	useStore := func(n *Node, st *Store) {
		_ = n.Mgr.RegisterTransportConfigurer("T", func(chid datatransfer.ChannelID, v datatransfer.TypedVoucher) []datatransfer.TransportOption {
			return []datatransfer.TransportOption{dtgs.UseStore(st.LinkSystem())}
		})
	}
	if sc.Stores == "sender" || sc.Stores == "both" {
		useStore(r.snd, r.snd.ChStore)
	}
	if sc.Stores == "receiver" || sc.Stores == "both" {
		useStore(r.rcv, r.rcv.ChStore)
	}
	if sc.GateBlocks {
		r.sndStore.GateReads = true
		r.rcvStore.GateWrites = true
	}
	return r
}

func (r *runCtx) open() {
	v := doubles.Voucher("T", "v")
	var err error
	if r.sc.Pull {
		r.chid, err = r.ini.Mgr.OpenPullDataChannel(context.Background(), r.rsp.ID(), v, r.dag.Root, doubles.AllSelector())
	} else {
		r.chid, err = r.ini.Mgr.OpenPushDataChannel(context.Background(), r.rsp.ID(), v, r.dag.Root, doubles.AllSelector())
	}
	if err != nil {
		panic(err)
	}
	mc.Wait()
}

// appWork performs what the responder's application does in reaction to events: raise limits, release
// finalization, release a forced pause. Each is a pending "application item" that the default path performs.
func (r *runCtx) appItems() []string {
	var out []string
	rv, err := r.rsp.Vec(r.chid)
	if err != nil {
		return nil
	}
	term := rv.Status == datatransfer.Completed || rv.Status == datatransfer.Failed || rv.Status == datatransfer.Cancelled
	if term {
		return nil
	}
	progress := rv.Received
	if r.sc.Pull {
		progress = rv.Queued
	}
	if rv.Limit != 0 && progress >= rv.Limit && rv.RPaused && rv.Status != datatransfer.Finalizing {
		out = append(out, "raise-limit")
	}
	if rv.Status == datatransfer.Finalizing && !r.finalReleased {
		out = append(out, "release-finalization")
	}
	if r.sc.Profile == "force-pause" && rv.RPaused && !r.forceReleased && rv.Status != datatransfer.Finalizing {
		out = append(out, "release-forced-pause")
	}
	return out
}

func (r *runCtx) doApp(item string) {
	ctx := context.Background()
	rv, _ := r.rsp.Vec(r.chid)
	switch item {
	case "raise-limit":
		progress := rv.Received
		if r.sc.Pull {
			progress = rv.Queued
		}
		total := r.dag.UniqueSize()
		var nl uint64
		switch r.limitRounds {
		case 0:
			nl = progress + 1 // just above the progress: the next block hits it again
		case 1:
			nl = total // exactly the total
		default:
			nl = 0
		}
		r.limitRounds++
		fin := r.sc.Profile == "limit+finalize"
		err := r.rsp.Mgr.UpdateValidationStatus(ctx, r.chid, datatransfer.ValidationResult{Accepted: true, DataLimit: nl, RequiresFinalization: fin})
		r.logf("app:raise-limit(%d)=%v", nl, err)
	case "release-finalization":
		r.finalReleased = true
		if r.sc.Profile == "finalize-resume" {
			err := r.rsp.Mgr.ResumeDataTransferChannel(ctx, r.chid)
			r.logf("app:release-finalization(resume)=%v", err)
		} else {
			err := r.rsp.Mgr.UpdateValidationStatus(ctx, r.chid, datatransfer.ValidationResult{Accepted: true, DataLimit: rv.Limit, RequiresFinalization: false})
			r.logf("app:release-finalization(update)=%v", err)
		}
	case "release-forced-pause":
		r.forceReleased = true
		err := r.rsp.Mgr.ResumeDataTransferChannel(ctx, r.chid)
		r.logf("app:release-forced-pause=%v", err)
	}
	mc.Wait()
}

// step performs the default progress step (oldest pending thing first). Returns false when nothing is pending.
func (r *runCtx) pendingMenu() (items []*Item, apps []string) {
	return r.w.Q.Pending(), r.appItems()
}

// check evaluates the C01 oracle at final quiescence.
func (r *runCtx) check(x *mc.Cell, rep any) (premise bool, outcome string) {
	iv, ierr := r.ini.Vec(r.chid)
	if ierr != nil {
		return false, "initiator-channel-missing"
	}
	rv, rerr := r.rsp.Vec(r.chid)
	outcome = fmt.Sprintf("ini=%s rsp=%s", datatransfer.Statuses[iv.Status], statusOrNone(rv.Status, rerr))
	if iv.Status != datatransfer.Completed || !r.ini.Saw(r.chid, datatransfer.Accept) {
		return false, outcome
	}
	ctx := fmt.Sprintf("%s\n  steps: %s\n  initiator: %s\n  responder: %s (err %v)", r.sc, strings.Join(r.log, " | "), iv, rv, rerr)
	viol := func(sig, msg string) {
		x.Violate("C01", sig+";pull="+fmt.Sprint(r.sc.Pull)+";profile="+r.sc.Profile, msg+"\n  "+ctx, rep)
	}
	// (i) responder settles in Completed and sent exactly one final (un-paused) Complete
	if rerr != nil {
		viol("responder-has-no-channel", "the initiator reports Completed after Accept but the responder has no channel")
	} else if rv.Status != datatransfer.Completed {
		viol("responder-not-completed;status="+datatransfer.Statuses[rv.Status], "the initiator reports Completed but the responder's channel is "+datatransfer.Statuses[rv.Status])
	}
	finals := 0
	for _, s := range r.rsp.Net.Sends() {
		if rs, ok := s.Msg.(datatransfer.Response); ok && rs.IsComplete() && !rs.IsPaused() && rs.TransferID() == r.chid.ID {
			finals++
		}
	}
	if finals < 1 {
		viol("no-final-complete-sent", "the responder never sent an un-paused Complete")
	}
	// (ii) receiver holds every selected block, byte-identical
	for _, c := range r.dag.Traversal {
		got := r.rcvStore.Get(c)
		if got == nil {
			viol("receiver-missing-block", fmt.Sprintf("block %s is not in the receiver's store", short(c)))
			break
		}
		if !bytes.Equal(got, r.dag.Blocks[c.KeyString()]) {
			viol("receiver-block-differs", fmt.Sprintf("block %s differs", short(c)))
		}
	}
	// (iii) totals
	sv, _ := r.snd.Vec(r.chid)
	cv, _ := r.rcv.Vec(r.chid)
	if cv.Received != r.dag.UniqueSize() || sv.Queued != r.dag.UniqueSize() {
		viol(fmt.Sprintf("totals;received=%d;queued=%d;unique=%d", cv.Received, sv.Queued, r.dag.UniqueSize()), "receiver's Received, sender's Queued and the unique payload size must agree")
	}
	return true, outcome
}

func statusOrNone(s datatransfer.Status, err error) string {
	if err != nil {
		return "none"
	}
	return datatransfer.Statuses[s]
}

var _ = ipld.DeepEqual
var _ cidlink.Link

// invariant is evaluated at EVERY quiescent point: the moment the initiator reports Completed (after Accept) the
// responder must already have sent its final, un-paused Complete, and the receiver must already hold the data.
func (r *runCtx) invariant(x *mc.Cell, rep any) {
	if r.invariantFired {
		return
	}
	iv, err := r.ini.Vec(r.chid)
	if err != nil || iv.Status != datatransfer.Completed || !r.ini.Saw(r.chid, datatransfer.Accept) {
		return
	}
	finals := 0
	for _, s := range r.rsp.Net.Sends() {
		if rs, ok := s.Msg.(datatransfer.Response); ok && rs.IsComplete() && !rs.IsPaused() && rs.TransferID() == r.chid.ID {
			finals++
		}
	}
	rv, rerr := r.rsp.Vec(r.chid)
	ctx := fmt.Sprintf("%s\n  steps: %s\n  initiator: %s\n  responder: %s (err %v)", r.sc, strings.Join(r.log, " | "), iv, rv, rerr)
	if finals == 0 {
		r.invariantFired = true
		x.Violate("C01", "initiator-completed-before-responders-final-complete;pull="+fmt.Sprint(r.sc.Pull)+";profile="+r.sc.Profile,
			"the initiator reports Completed although the responder has not sent its final (un-paused) Complete\n  "+ctx, rep)
	}
	for _, c := range r.dag.Traversal {
		if r.rcvStore.Get(c) == nil {
			r.invariantFired = true
			x.Violate("C01", "initiator-completed-before-data-arrived;pull="+fmt.Sprint(r.sc.Pull)+";profile="+r.sc.Profile,
				fmt.Sprintf("the initiator reports Completed but block %s is not in the receiver's store\n  %s", short(c), ctx), rep)
			break
		}
	}
}
