package doubles

import (
	"fmt"
	"sync"

	"github.com/libp2p/go-libp2p/core/peer"

	datatransfer "github.com/filecoin-project/go-data-transfer/v2"
)

// RecEnv is a recording channels.ChannelEnvironment.
type RecEnv struct {
	Self peer.ID

	mu         sync.Mutex
	Cleanups   []datatransfer.ChannelID
	Protects   []string
	Unprotects []string
	Events     []string // ordered log "cleanup:<chid>", "unprotect:<peer>/<tag>", "cleanup-returned:<chid>"
	// HoldCleanup, when non-nil, is received from inside CleanupChannel (parks the FSM handler).
	HoldCleanup chan struct{}
}

func (e *RecEnv) Protect(id peer.ID, tag string) {
	e.mu.Lock()
	defer e.mu.Unlock()
	e.Protects = append(e.Protects, string(id)+"/"+tag)
}
func (e *RecEnv) Unprotect(id peer.ID, tag string) bool {
	e.mu.Lock()
	defer e.mu.Unlock()
	e.Unprotects = append(e.Unprotects, string(id)+"/"+tag)
	e.Events = append(e.Events, fmt.Sprintf("unprotect:%s", tag))
	return true
}
func (e *RecEnv) ID() peer.ID { return e.Self }
func (e *RecEnv) CleanupChannel(chid datatransfer.ChannelID) {
	e.mu.Lock()
	e.Cleanups = append(e.Cleanups, chid)
	e.Events = append(e.Events, fmt.Sprintf("cleanup:%s", chid))
	hold := e.HoldCleanup
	e.mu.Unlock()
	if hold != nil {
		<-hold
	}
	e.mu.Lock()
	e.Events = append(e.Events, fmt.Sprintf("cleanup-returned:%s", chid))
	e.mu.Unlock()
}

// Counts returns (#cleanup, #unprotect) for chid.
func (e *RecEnv) Counts(chid datatransfer.ChannelID) (int, int) {
	e.mu.Lock()
	defer e.mu.Unlock()
	c, u := 0, 0
	for _, x := range e.Cleanups {
		if x == chid {
			c++
		}
	}
	for _, x := range e.Unprotects {
		if len(x) >= len(chid.String()) && x[len(x)-len(chid.String()):] == chid.String() {
			u++
		}
	}
	return c, u
}

// EventLog returns a copy of the ordered log.
func (e *RecEnv) EventLog() []string {
	e.mu.Lock()
	defer e.mu.Unlock()
	return append([]string(nil), e.Events...)
}
