package doubles

import (
	"context"
	"fmt"
	"sync"
	"verif/shim/core"

	"github.com/ipfs/go-cid"
	"github.com/ipfs/go-graphsync"
	"github.com/ipld/go-ipld-prime"
	"github.com/ipld/go-ipld-prime/datamodel"
	cidlink "github.com/ipld/go-ipld-prime/linking/cid"
	"github.com/ipld/go-ipld-prime/traversal"
	"github.com/libp2p/go-libp2p/core/peer"
)

// ReqID makes a deterministic graphsync request id.
func ReqID(n int) graphsync.RequestID {
	b := make([]byte, 16)
	b[6] = 0x40
	b[8] = 0x80
	b[14] = byte(n >> 8)
	b[15] = byte(n)
	id, err := graphsync.ParseRequestID(b)
	if err != nil {
		panic(err)
	}
	return id
}

// ReqNum is the inverse of ReqID.
func ReqNum(id graphsync.RequestID) int {
	b := id.Bytes()
	return int(b[14])<<8 | int(b[15])
}

// GSCall is one recorded call into the fake graph exchange.
type GSCall struct {
	Seq  int64
	Op   string // request, pause, unpause, cancel, sendupdate, register, unregister
	Req  int    // request number (-1 when n/a)
	Peer peer.ID
	Exts []graphsync.ExtensionData
	Name string // persistence option name
	Err  error
}

func (c GSCall) String() string {
	s := fmt.Sprintf("%s(", c.Op)
	if c.Req >= 0 {
		s += fmt.Sprintf("r%d", c.Req)
	}
	if c.Name != "" {
		s += c.Name
	}
	s += ")"
	if len(c.Exts) > 0 {
		s += fmt.Sprintf("[%d ext]", len(c.Exts))
	}
	return s
}

type FakeReq struct {
	Num      int
	Peer     peer.ID
	Root     ipld.Link
	Selector ipld.Node
	Exts     []graphsync.ExtensionData
	RespCh   chan graphsync.ResponseProgress
	ErrCh    chan error
	Closed   bool
	// recorded hook actions of the outgoing request hook
	Persistence string
	MaxLinks    uint64
	HookDone    chan struct{}
}

// FakeGS is a recording graphsync.GraphExchange whose callbacks are fired by the harness.
type FakeGS struct {
	mu    sync.Mutex
	Calls []GSCall
	Reqs  []*FakeReq // outgoing requests made through Request()
	next  int
	// registered persistence options
	Options map[string]bool

	IncomingRequestHook  graphsync.OnIncomingRequestHook
	IncomingResponseHook graphsync.OnIncomingResponseHook
	IncomingBlockHook    graphsync.OnIncomingBlockHook
	OutgoingRequestHook  graphsync.OnOutgoingRequestHook
	OutgoingBlockHook    graphsync.OnOutgoingBlockHook
	RequestUpdatedHook   graphsync.OnRequestUpdatedHook
	OutgoingProcessing   graphsync.OnRequestProcessingListener
	IncomingProcessing   graphsync.OnRequestProcessingListener
	CompletedResponse    graphsync.OnResponseCompletedListener
	RequestorCancelled   graphsync.OnRequestorCancelledListener
	BlockSent            graphsync.OnBlockSentListener
	NetworkError         graphsync.OnNetworkErrorListener
	ReceiverNetworkError graphsync.OnReceiverNetworkErrorListener
	// HoldHook, when set, delays the outgoing-request hook of new requests until it is closed
	HoldHook chan struct{}
	Unregistered         int

	// CancelGate, when non-nil, holds every Cancel call until the channel is closed (or the call's context ends).
	CancelGate chan struct{}
	// CancelAnswer scripts the result of Cancel (nil = ok).
	CancelAnswer func(req int) error
	// OnCancel is called (outside the lock) when Cancel is invoked, e.g. to close the request's channels.
	OnCancel func(req int)
	// FirstReqNum offsets request numbering (incoming requests use their own numbers chosen by the harness).
	FirstReqNum int
}

func NewFakeGS() *FakeGS { return &FakeGS{Options: map[string]bool{}, FirstReqNum: 100} }

func (g *FakeGS) rec(c GSCall) {
	c.Seq = NextSeq()
	g.mu.Lock()
	g.Calls = append(g.Calls, c)
	g.mu.Unlock()
}

// NumCalls / CallsFrom give access to the call log.
func (g *FakeGS) NumCalls() int {
	g.mu.Lock()
	defer g.mu.Unlock()
	return len(g.Calls)
}
func (g *FakeGS) CallsFrom(i int) []GSCall {
	g.mu.Lock()
	defer g.mu.Unlock()
	return append([]GSCall(nil), g.Calls[i:]...)
}

// Request records the request and fires the outgoing-request hook from another goroutine (as graphsync does).
func (g *FakeGS) Request(ctx context.Context, p peer.ID, root ipld.Link, selector ipld.Node, extensions ...graphsync.ExtensionData) (<-chan graphsync.ResponseProgress, <-chan error) {
	g.mu.Lock()
	num := g.FirstReqNum + g.next
	g.next++
	r := &FakeReq{Num: num, Peer: p, Root: root, Selector: selector, Exts: extensions,
		RespCh: make(chan graphsync.ResponseProgress), ErrCh: make(chan error, 1), HookDone: make(chan struct{})}
	g.Reqs = append(g.Reqs, r)
	hook := g.OutgoingRequestHook
	holdHook := g.HoldHook
	g.mu.Unlock()
	g.rec(GSCall{Op: "request", Req: num, Peer: p, Exts: extensions})
	go func() {
		defer close(r.HookDone)
		defer core.RecoverGoroutine("graphsync outgoing-request hook goroutine")
		if holdHook != nil {
			<-holdHook // graphsync gets round to the new request in its own time
		}
		if hook != nil {
			acts := &outReqActions{r: r}
			hook(p, &FakeRequestData{Num: num, RootCid: root.(cidlink.Link).Cid, Sel: selector, Exts: extMap(extensions)}, acts)
		}
	}()
	return r.RespCh, r.ErrCh
}

// Finish closes the response and error channels of outgoing request num, sending lastErr first when non-nil.
func (g *FakeGS) Finish(num int, lastErr error) bool {
	g.mu.Lock()
	var r *FakeReq
	for _, x := range g.Reqs {
		if x.Num == num {
			r = x
		}
	}
	if r == nil || r.Closed {
		g.mu.Unlock()
		return false
	}
	r.Closed = true
	g.mu.Unlock()
	close(r.RespCh)
	if lastErr != nil {
		r.ErrCh <- lastErr
	}
	close(r.ErrCh)
	return true
}

func (g *FakeGS) Req(num int) *FakeReq {
	g.mu.Lock()
	defer g.mu.Unlock()
	for _, x := range g.Reqs {
		if x.Num == num {
			return x
		}
	}
	return nil
}

func (g *FakeGS) RegisterPersistenceOption(name string, lsys ipld.LinkSystem) error {
	g.mu.Lock()
	dup := g.Options[name]
	g.Options[name] = true
	g.mu.Unlock()
	var err error
	if dup {
		err = fmt.Errorf("persistence option %s already registered", name)
	}
	g.rec(GSCall{Op: "register", Req: -1, Name: name, Err: err})
	return err
}
func (g *FakeGS) UnregisterPersistenceOption(name string) error {
	g.mu.Lock()
	had := g.Options[name]
	delete(g.Options, name)
	g.mu.Unlock()
	var err error
	if !had {
		err = fmt.Errorf("persistence option %s not registered", name)
	}
	g.rec(GSCall{Op: "unregister", Req: -1, Name: name, Err: err})
	return err
}

// HasOption reports whether a persistence option is currently registered.
func (g *FakeGS) HasOption(name string) bool {
	g.mu.Lock()
	defer g.mu.Unlock()
	return g.Options[name]
}

func (g *FakeGS) unreg(clear func()) graphsync.UnregisterHookFunc {
	return func() {
		g.mu.Lock()
		g.Unregistered++
		clear()
		g.mu.Unlock()
	}
}

func (g *FakeGS) RegisterIncomingRequestHook(h graphsync.OnIncomingRequestHook) graphsync.UnregisterHookFunc {
	g.IncomingRequestHook = h
	return g.unreg(func() { g.IncomingRequestHook = nil })
}
func (g *FakeGS) RegisterIncomingResponseHook(h graphsync.OnIncomingResponseHook) graphsync.UnregisterHookFunc {
	g.IncomingResponseHook = h
	return g.unreg(func() { g.IncomingResponseHook = nil })
}
func (g *FakeGS) RegisterIncomingBlockHook(h graphsync.OnIncomingBlockHook) graphsync.UnregisterHookFunc {
	g.IncomingBlockHook = h
	return g.unreg(func() { g.IncomingBlockHook = nil })
}
func (g *FakeGS) RegisterOutgoingRequestHook(h graphsync.OnOutgoingRequestHook) graphsync.UnregisterHookFunc {
	g.OutgoingRequestHook = h
	return g.unreg(func() { g.OutgoingRequestHook = nil })
}
func (g *FakeGS) RegisterOutgoingBlockHook(h graphsync.OnOutgoingBlockHook) graphsync.UnregisterHookFunc {
	g.OutgoingBlockHook = h
	return g.unreg(func() { g.OutgoingBlockHook = nil })
}
func (g *FakeGS) RegisterRequestUpdatedHook(h graphsync.OnRequestUpdatedHook) graphsync.UnregisterHookFunc {
	g.RequestUpdatedHook = h
	return g.unreg(func() { g.RequestUpdatedHook = nil })
}
func (g *FakeGS) RegisterOutgoingRequestProcessingListener(l graphsync.OnRequestProcessingListener) graphsync.UnregisterHookFunc {
	g.OutgoingProcessing = l
	return g.unreg(func() { g.OutgoingProcessing = nil })
}
func (g *FakeGS) RegisterIncomingRequestProcessingListener(l graphsync.OnRequestProcessingListener) graphsync.UnregisterHookFunc {
	g.IncomingProcessing = l
	return g.unreg(func() { g.IncomingProcessing = nil })
}
func (g *FakeGS) RegisterCompletedResponseListener(l graphsync.OnResponseCompletedListener) graphsync.UnregisterHookFunc {
	g.CompletedResponse = l
	return g.unreg(func() { g.CompletedResponse = nil })
}
func (g *FakeGS) RegisterRequestorCancelledListener(l graphsync.OnRequestorCancelledListener) graphsync.UnregisterHookFunc {
	g.RequestorCancelled = l
	return g.unreg(func() { g.RequestorCancelled = nil })
}
func (g *FakeGS) RegisterBlockSentListener(l graphsync.OnBlockSentListener) graphsync.UnregisterHookFunc {
	g.BlockSent = l
	return g.unreg(func() { g.BlockSent = nil })
}
func (g *FakeGS) RegisterNetworkErrorListener(l graphsync.OnNetworkErrorListener) graphsync.UnregisterHookFunc {
	g.NetworkError = l
	return g.unreg(func() { g.NetworkError = nil })
}
func (g *FakeGS) RegisterReceiverNetworkErrorListener(l graphsync.OnReceiverNetworkErrorListener) graphsync.UnregisterHookFunc {
	g.ReceiverNetworkError = l
	return g.unreg(func() { g.ReceiverNetworkError = nil })
}

func (g *FakeGS) Pause(ctx context.Context, id graphsync.RequestID) error {
	g.rec(GSCall{Op: "pause", Req: ReqNum(id)})
	return nil
}
func (g *FakeGS) Unpause(ctx context.Context, id graphsync.RequestID, exts ...graphsync.ExtensionData) error {
	g.rec(GSCall{Op: "unpause", Req: ReqNum(id), Exts: exts})
	return nil
}
func (g *FakeGS) Cancel(ctx context.Context, id graphsync.RequestID) error {
	num := ReqNum(id)
	var err error
	if g.CancelAnswer != nil {
		err = g.CancelAnswer(num)
	}
	g.rec(GSCall{Op: "cancel", Req: num, Err: err})
	if gate := g.CancelGate; gate != nil {
		// graphsync serves the cancel on its own loop: it takes as long as the harness decides
		select {
		case <-gate:
		case <-ctx.Done():
			return ctx.Err()
		}
	}
	if g.OnCancel != nil {
		g.OnCancel(num)
	}
	return err
}
func (g *FakeGS) SendUpdate(ctx context.Context, id graphsync.RequestID, exts ...graphsync.ExtensionData) error {
	g.rec(GSCall{Op: "sendupdate", Req: ReqNum(id), Exts: exts})
	return nil
}
func (g *FakeGS) Stats() graphsync.Stats { return graphsync.Stats{} }

var _ graphsync.GraphExchange = (*FakeGS)(nil)

// ---------------------------------------------------------------- data + action recorders

func extMap(es []graphsync.ExtensionData) map[graphsync.ExtensionName]datamodel.Node {
	m := map[graphsync.ExtensionName]datamodel.Node{}
	for _, e := range es {
		m[e.Name] = e.Data
	}
	return m
}

type FakeRequestData struct {
	Num     int
	RootCid cid.Cid
	Sel     ipld.Node
	Exts    map[graphsync.ExtensionName]datamodel.Node
}

func (r *FakeRequestData) ID() graphsync.RequestID      { return ReqID(r.Num) }
func (r *FakeRequestData) Root() cid.Cid                { return r.RootCid }
func (r *FakeRequestData) Selector() ipld.Node          { return r.Sel }
func (r *FakeRequestData) Priority() graphsync.Priority { return 0 }
func (r *FakeRequestData) Type() graphsync.RequestType  { return graphsync.RequestTypeNew }
func (r *FakeRequestData) Extension(name graphsync.ExtensionName) (datamodel.Node, bool) {
	n, ok := r.Exts[name]
	return n, ok
}

type FakeResponseData struct {
	Num  int
	Code graphsync.ResponseStatusCode
	Exts map[graphsync.ExtensionName]datamodel.Node
}

func (r *FakeResponseData) RequestID() graphsync.RequestID       { return ReqID(r.Num) }
func (r *FakeResponseData) Status() graphsync.ResponseStatusCode { return r.Code }
func (r *FakeResponseData) Metadata() graphsync.LinkMetadata     { return nil }
func (r *FakeResponseData) Extension(name graphsync.ExtensionName) (datamodel.Node, bool) {
	n, ok := r.Exts[name]
	return n, ok
}

type FakeBlock struct {
	L      ipld.Link
	Size   uint64
	OnWire uint64
	Idx    int64
}

func (b *FakeBlock) Link() ipld.Link         { return b.L }
func (b *FakeBlock) BlockSize() uint64       { return b.Size }
func (b *FakeBlock) BlockSizeOnWire() uint64 { return b.OnWire }
func (b *FakeBlock) Index() int64            { return b.Idx }

// Actions records every hook action.
type Actions struct {
	mu          sync.Mutex
	Terminated  []error
	Sent        []graphsync.ExtensionData
	Updated     []graphsync.ExtensionData
	Persistence string
	Validated   bool
	Paused      bool
	PausedReq   bool
	Unpaused    bool
	MaxLinksV   uint64
	Augmented   bool
}

func (a *Actions) AugmentContext(func(reqCtx context.Context) context.Context) { a.Augmented = true }
func (a *Actions) SendExtensionData(e graphsync.ExtensionData) {
	a.mu.Lock()
	a.Sent = append(a.Sent, e)
	a.mu.Unlock()
}
func (a *Actions) UsePersistenceOption(name string)                                           { a.Persistence = name }
func (a *Actions) UseLinkTargetNodePrototypeChooser(traversal.LinkTargetNodePrototypeChooser) {}
func (a *Actions) TerminateWithError(err error) {
	a.mu.Lock()
	a.Terminated = append(a.Terminated, err)
	a.mu.Unlock()
}
func (a *Actions) ValidateRequest()  { a.Validated = true }
func (a *Actions) PauseResponse()    { a.Paused = true }
func (a *Actions) PauseRequest()     { a.PausedReq = true }
func (a *Actions) UnpauseResponse()  { a.Unpaused = true }
func (a *Actions) MaxLinks(n uint64) { a.MaxLinksV = n }
func (a *Actions) UpdateRequestWithExtensions(es ...graphsync.ExtensionData) {
	a.mu.Lock()
	a.Updated = append(a.Updated, es...)
	a.mu.Unlock()
}

type outReqActions struct{ r *FakeReq }

func (a *outReqActions) UsePersistenceOption(name string)                                           { a.r.Persistence = name }
func (a *outReqActions) UseLinkTargetNodePrototypeChooser(traversal.LinkTargetNodePrototypeChooser) {}
func (a *outReqActions) MaxLinks(n uint64)                                                          { a.r.MaxLinks = n }

// LiveRequests lists the outgoing requests that were neither finished nor cancelled.
func (g *FakeGS) LiveRequests() []int {
	g.mu.Lock()
	defer g.mu.Unlock()
	var out []int
	for _, r := range g.Reqs {
		if !r.Closed {
			out = append(out, r.Num)
		}
	}
	return out
}
