// Package doubles holds the recording / controllable environment doubles used
// by the harnesses. All are deterministic and goroutine-safe; none blocks
// unless a gate was armed explicitly by the harness.
package doubles

import (
	"context"
	"sort"
	"sync"
	"verif/shim/core"

	ds "github.com/ipfs/go-datastore"
	dsq "github.com/ipfs/go-datastore/query"
)

// Write is one atomic datastore write (a single Put/Delete, or a committed batch).
type Write struct {
	Puts    map[string][]byte
	Deletes []string
}

// RecDS is an in-memory datastore.Batching that logs every write so that the
// store image at every write boundary (= crash point) can be rebuilt.
type RecDS struct {
	mu   sync.Mutex
	m    map[string][]byte
	Log  []Write
	base map[string][]byte // image before the first logged write
	// Gate, when non-nil, is called (outside the lock) before each write is applied;
	// it lets a harness park a writer.
	Gate func(w Write)
}

func NewRecDS() *RecDS { return &RecDS{m: map[string][]byte{}, base: map[string][]byte{}} }

// NewRecDSFrom starts from an image (copied).
func NewRecDSFrom(img map[string][]byte) *RecDS {
	d := NewRecDS()
	for k, v := range img {
		d.m[k] = append([]byte(nil), v...)
		d.base[k] = append([]byte(nil), v...)
	}
	return d
}

func (d *RecDS) apply(w Write) {
	if d.Gate != nil {
		d.Gate(w)
	}
	d.mu.Lock()
	defer d.mu.Unlock()
	for k, v := range w.Puts {
		d.m[k] = v
	}
	for _, k := range w.Deletes {
		delete(d.m, k)
	}
	d.Log = append(d.Log, w)
}

// Image returns a copy of the current content.
func (d *RecDS) Image() map[string][]byte {
	d.mu.Lock()
	defer d.mu.Unlock()
	out := make(map[string][]byte, len(d.m))
	for k, v := range d.m {
		out[k] = append([]byte(nil), v...)
	}
	return out
}

// NumWrites returns the number of write boundaries so far.
func (d *RecDS) NumWrites() int {
	d.mu.Lock()
	defer d.mu.Unlock()
	return len(d.Log)
}

// ImageAt returns the image after the first n logged writes.
func (d *RecDS) ImageAt(n int) map[string][]byte {
	d.mu.Lock()
	defer d.mu.Unlock()
	out := make(map[string][]byte, len(d.base))
	for k, v := range d.base {
		out[k] = v
	}
	for i := 0; i < n && i < len(d.Log); i++ {
		for k, v := range d.Log[i].Puts {
			out[k] = v
		}
		for _, k := range d.Log[i].Deletes {
			delete(out, k)
		}
	}
	cp := make(map[string][]byte, len(out))
	for k, v := range out {
		cp[k] = append([]byte(nil), v...)
	}
	return cp
}

func (d *RecDS) Get(ctx context.Context, key ds.Key) ([]byte, error) {
	core.Point("stmt", "ds:get") // scheduling point for harnesses that schedule at datastore granularity (no-op otherwise)
	d.mu.Lock()
	defer d.mu.Unlock()
	v, ok := d.m[key.String()]
	if !ok {
		return nil, ds.ErrNotFound
	}
	return append([]byte(nil), v...), nil
}
func (d *RecDS) Has(ctx context.Context, key ds.Key) (bool, error) {
	core.Point("stmt", "ds:has") // scheduling point for harnesses that schedule at datastore granularity (no-op otherwise)
	d.mu.Lock()
	defer d.mu.Unlock()
	_, ok := d.m[key.String()]
	return ok, nil
}
func (d *RecDS) GetSize(ctx context.Context, key ds.Key) (int, error) {
	d.mu.Lock()
	defer d.mu.Unlock()
	v, ok := d.m[key.String()]
	if !ok {
		return -1, ds.ErrNotFound
	}
	return len(v), nil
}
func (d *RecDS) Query(ctx context.Context, q dsq.Query) (dsq.Results, error) {
	d.mu.Lock()
	keys := make([]string, 0, len(d.m))
	for k := range d.m {
		keys = append(keys, k)
	}
	sort.Strings(keys)
	es := make([]dsq.Entry, 0, len(keys))
	for _, k := range keys {
		v := d.m[k]
		es = append(es, dsq.Entry{Key: k, Value: append([]byte(nil), v...), Size: len(v)})
	}
	d.mu.Unlock()
	r := dsq.ResultsWithEntries(q, es)
	return dsq.NaiveQueryApply(q, r), nil
}
func (d *RecDS) Put(ctx context.Context, key ds.Key, value []byte) error {
	core.Point("stmt", "ds:put") // scheduling point for harnesses that schedule at datastore granularity (no-op otherwise)
	d.apply(Write{Puts: map[string][]byte{key.String(): append([]byte(nil), value...)}})
	return nil
}
func (d *RecDS) Delete(ctx context.Context, key ds.Key) error {
	core.Point("stmt", "ds:delete") // scheduling point for harnesses that schedule at datastore granularity (no-op otherwise)
	d.apply(Write{Deletes: []string{key.String()}})
	return nil
}
func (d *RecDS) Sync(ctx context.Context, prefix ds.Key) error { return nil }
func (d *RecDS) Close() error                                  { return nil }

type recBatch struct {
	d *RecDS
	w Write
}

func (d *RecDS) Batch(ctx context.Context) (ds.Batch, error) {
	return &recBatch{d: d, w: Write{Puts: map[string][]byte{}}}, nil
}
func (b *recBatch) Put(ctx context.Context, key ds.Key, value []byte) error {
	b.w.Puts[key.String()] = append([]byte(nil), value...)
	return nil
}
func (b *recBatch) Delete(ctx context.Context, key ds.Key) error {
	delete(b.w.Puts, key.String())
	b.w.Deletes = append(b.w.Deletes, key.String())
	return nil
}
func (b *recBatch) Commit(ctx context.Context) error {
	b.d.apply(b.w)
	b.w = Write{Puts: map[string][]byte{}}
	return nil
}

var _ ds.Batching = (*RecDS)(nil)
