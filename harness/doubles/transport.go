package doubles

import (
	"context"
	"fmt"
	"sync"
	"verif/shim/core"

	ipld "github.com/ipld/go-ipld-prime"
	"github.com/ipld/go-ipld-prime/datamodel"
	"github.com/libp2p/go-libp2p/core/peer"

	datatransfer "github.com/filecoin-project/go-data-transfer/v2"
)

// TCall is one recorded transport call.
type TCall struct {
	Seq     int64
	Op      string // open, close, pause, resume, cleanup, shutdown
	Chid    datatransfer.ChannelID
	Peer    peer.ID
	Msg     datatransfer.Message
	Channel datatransfer.ChannelState // state handed to OpenChannel (restart)
	Root    string
}

func (c TCall) String() string {
	s := fmt.Sprintf("%s(%s)", c.Op, ChidName(c.Chid))
	if c.Msg != nil {
		s += "[" + MsgSummary(c.Msg) + "]"
	}
	if c.Op == "open" {
		s += fmt.Sprintf("{from=%s restart-state=%v}", PeerName(c.Peer), c.Channel != nil)
	}
	return s
}

// RecTransport is a recording Transport + PauseableTransport.
type RecTransport struct {
	mu      sync.Mutex
	Calls   []TCall
	Handler datatransfer.EventsHandler
	// Fail decides the error of a call (nil = ok).
	Fail func(c TCall) error
	// HoldOpen, when non-nil, parks every OpenChannel (after recording it) until it receives / is closed.
	HoldOpen chan struct{}
	// OnResume is called when a channel is resumed (the data flows again from here on).
	OnResume func(chid datatransfer.ChannelID)
}

func (t *RecTransport) rec(c TCall) error {
	t.mu.Lock()
	defer t.mu.Unlock()
	if c.Msg != nil {
		c.Msg = Recode(c.Msg)
	}
	c.Seq = NextSeq()
	t.Calls = append(t.Calls, c)
	if t.Fail != nil {
		return t.Fail(c)
	}
	return nil
}

func (t *RecTransport) OpenChannel(ctx context.Context, dataSender peer.ID, chid datatransfer.ChannelID, root ipld.Link, stor datamodel.Node, channel datatransfer.ChannelState, msg datatransfer.Message) error {
	err := t.rec(TCall{Op: "open", Chid: chid, Peer: dataSender, Msg: msg, Channel: channel, Root: root.String()})
	if hold := t.HoldOpen; hold != nil {
		// the request is on the wire; the call returns when the harness says so (the counterparty may answer first)
		select {
		case <-hold:
		case <-ctx.Done():
			return ctx.Err()
		}
	}
	return err
}
func (t *RecTransport) CloseChannel(ctx context.Context, chid datatransfer.ChannelID) error {
	return t.rec(TCall{Op: "close", Chid: chid})
}
func (t *RecTransport) SetEventHandler(events datatransfer.EventsHandler) error {
	t.mu.Lock()
	defer t.mu.Unlock()
	if t.Handler != nil {
		return datatransfer.ErrHandlerAlreadySet
	}
	t.Handler = events
	return nil
}
func (t *RecTransport) CleanupChannel(chid datatransfer.ChannelID) {
	// releasing transport resources takes time: a scheduling point for thread-level cells (the channel's state
	// machine is busy in its cleanup handler while a goroutine is parked here)
	core.Point("stmt", "transport:cleanup")
	_ = t.rec(TCall{Op: "cleanup", Chid: chid})
}
func (t *RecTransport) Shutdown(ctx context.Context) error { return t.rec(TCall{Op: "shutdown"}) }
func (t *RecTransport) PauseChannel(ctx context.Context, chid datatransfer.ChannelID) error {
	return t.rec(TCall{Op: "pause", Chid: chid})
}
func (t *RecTransport) ResumeChannel(ctx context.Context, msg datatransfer.Message, chid datatransfer.ChannelID) error {
	err := t.rec(TCall{Op: "resume", Chid: chid, Msg: msg})
	if t.OnResume != nil {
		t.OnResume(chid)
	}
	// the transport is running again before the caller gets control back: a scheduling point for thread-level cells
	core.Point("stmt", "transport:resumed")
	return err
}

// NumCalls returns the number of calls so far.
func (t *RecTransport) NumCalls() int {
	t.mu.Lock()
	defer t.mu.Unlock()
	return len(t.Calls)
}

// CallsFrom returns a copy of the calls from index i.
func (t *RecTransport) CallsFrom(i int) []TCall {
	t.mu.Lock()
	defer t.mu.Unlock()
	return append([]TCall(nil), t.Calls[i:]...)
}

var _ datatransfer.PauseableTransport = (*RecTransport)(nil)
