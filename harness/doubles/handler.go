package doubles

import (
	"context"
	"fmt"
	"sync"

	ipld "github.com/ipld/go-ipld-prime"

	datatransfer "github.com/filecoin-project/go-data-transfer/v2"
)

// HCall is one recorded EventsHandler call.
type HCall struct {
	Seq    int64
	Method string
	Chid   datatransfer.ChannelID
	Msg    datatransfer.Message
	Size   uint64
	Index  int64
	Unique bool
	Err    error // argument error (completed / cancelled / errors)
}

func (c HCall) String() string {
	s := fmt.Sprintf("%s(%s", c.Method, ChidName(c.Chid))
	if c.Msg != nil {
		s += " " + MsgSummary(c.Msg)
	}
	if c.Index != 0 {
		s += fmt.Sprintf(" idx=%d size=%d unique=%v", c.Index, c.Size, c.Unique)
	}
	if c.Err != nil {
		s += " err=" + c.Err.Error()
	}
	return s + ")"
}

// RecHandler is a recording datatransfer.EventsHandler with scripted answers.
type RecHandler struct {
	mu    sync.Mutex
	Calls []HCall
	// Answer gives the error returned by a call (nil = ok); for OnRequestReceived / OnDataQueued also a message.
	Answer func(c HCall) (datatransfer.Message, error)
}

func (h *RecHandler) rec(c HCall) (datatransfer.Message, error) {
	c.Seq = NextSeq()
	h.mu.Lock()
	h.Calls = append(h.Calls, c)
	f := h.Answer
	h.mu.Unlock()
	if f != nil {
		return f(c)
	}
	return nil, nil
}

func (h *RecHandler) NumCalls() int {
	h.mu.Lock()
	defer h.mu.Unlock()
	return len(h.Calls)
}
func (h *RecHandler) CallsFrom(i int) []HCall {
	h.mu.Lock()
	defer h.mu.Unlock()
	return append([]HCall(nil), h.Calls[i:]...)
}

func (h *RecHandler) OnChannelOpened(chid datatransfer.ChannelID) error {
	_, err := h.rec(HCall{Method: "OnChannelOpened", Chid: chid})
	return err
}
func (h *RecHandler) OnResponseReceived(chid datatransfer.ChannelID, msg datatransfer.Response) error {
	_, err := h.rec(HCall{Method: "OnResponseReceived", Chid: chid, Msg: msg})
	return err
}
func (h *RecHandler) OnDataReceived(chid datatransfer.ChannelID, link ipld.Link, size uint64, index int64, unique bool) error {
	_, err := h.rec(HCall{Method: "OnDataReceived", Chid: chid, Size: size, Index: index, Unique: unique})
	return err
}
func (h *RecHandler) OnDataQueued(chid datatransfer.ChannelID, link ipld.Link, size uint64, index int64, unique bool) (datatransfer.Message, error) {
	return h.rec(HCall{Method: "OnDataQueued", Chid: chid, Size: size, Index: index, Unique: unique})
}
func (h *RecHandler) OnDataSent(chid datatransfer.ChannelID, link ipld.Link, size uint64, index int64, unique bool) error {
	_, err := h.rec(HCall{Method: "OnDataSent", Chid: chid, Size: size, Index: index, Unique: unique})
	return err
}
func (h *RecHandler) OnTransferInitiated(chid datatransfer.ChannelID) {
	_, _ = h.rec(HCall{Method: "OnTransferInitiated", Chid: chid})
}
func (h *RecHandler) OnRequestReceived(chid datatransfer.ChannelID, msg datatransfer.Request) (datatransfer.Response, error) {
	m, err := h.rec(HCall{Method: "OnRequestReceived", Chid: chid, Msg: msg})
	if m == nil {
		return nil, err
	}
	return m.(datatransfer.Response), err
}
func (h *RecHandler) OnChannelCompleted(chid datatransfer.ChannelID, err error) error {
	_, e := h.rec(HCall{Method: "OnChannelCompleted", Chid: chid, Err: err})
	return e
}
func (h *RecHandler) OnRequestCancelled(chid datatransfer.ChannelID, err error) error {
	_, e := h.rec(HCall{Method: "OnRequestCancelled", Chid: chid, Err: err})
	return e
}
func (h *RecHandler) OnRequestDisconnected(chid datatransfer.ChannelID, err error) error {
	_, e := h.rec(HCall{Method: "OnRequestDisconnected", Chid: chid, Err: err})
	return e
}
func (h *RecHandler) OnSendDataError(chid datatransfer.ChannelID, err error) error {
	_, e := h.rec(HCall{Method: "OnSendDataError", Chid: chid, Err: err})
	return e
}
func (h *RecHandler) OnReceiveDataError(chid datatransfer.ChannelID, err error) error {
	_, e := h.rec(HCall{Method: "OnReceiveDataError", Chid: chid, Err: err})
	return e
}
func (h *RecHandler) OnContextAugment(chid datatransfer.ChannelID) func(context.Context) context.Context {
	return func(ctx context.Context) context.Context { return ctx }
}

var _ datatransfer.EventsHandler = (*RecHandler)(nil)
