package doubles

import (
	"fmt"
	"sync"
	"verif/shim/core"

	"github.com/ipfs/go-cid"
	"github.com/ipld/go-ipld-prime/datamodel"
	"github.com/libp2p/go-libp2p/core/peer"

	datatransfer "github.com/filecoin-project/go-data-transfer/v2"
)

// VCall is one recorded validator call.
type VCall struct {
	Seq     int64
	Kind    string // push, pull, restart
	Chid    datatransfer.ChannelID
	Other   peer.ID
	Voucher string
	BaseCid string
	State   datatransfer.ChannelState
}

// RecValidator is a scripted, recording RequestValidator.
type RecValidator struct {
	Name  string
	mu    sync.Mutex
	Calls []VCall
	// Answer gives the result of the n-th call.
	Answer func(n int, c VCall) (datatransfer.ValidationResult, error)
}

func (v *RecValidator) answer(c VCall) (datatransfer.ValidationResult, error) {
	// scheduling points around the application's validator (no-ops unless a scheduler with a matching filter is
	// installed): the library calls it without holding its own locks, so other operations may run meanwhile
	core.Point("stmt", "validator:"+c.Kind)
	defer core.Point("stmt", "validator:return")
	v.mu.Lock()
	n := len(v.Calls)
	c.Seq = NextSeq()
	v.Calls = append(v.Calls, c)
	f := v.Answer
	v.mu.Unlock()
	if f == nil {
		return datatransfer.ValidationResult{Accepted: true}, nil
	}
	return f(n, c)
}

func (v *RecValidator) ValidatePush(chid datatransfer.ChannelID, sender peer.ID, voucher datamodel.Node, baseCid cid.Cid, selector datamodel.Node) (datatransfer.ValidationResult, error) {
	return v.answer(VCall{Kind: "push", Chid: chid, Other: sender, Voucher: NodeBytes(voucher), BaseCid: baseCid.String()})
}
func (v *RecValidator) ValidatePull(chid datatransfer.ChannelID, receiver peer.ID, voucher datamodel.Node, baseCid cid.Cid, selector datamodel.Node) (datatransfer.ValidationResult, error) {
	return v.answer(VCall{Kind: "pull", Chid: chid, Other: receiver, Voucher: NodeBytes(voucher), BaseCid: baseCid.String()})
}
func (v *RecValidator) ValidateRestart(chid datatransfer.ChannelID, channel datatransfer.ChannelState) (datatransfer.ValidationResult, error) {
	return v.answer(VCall{Kind: "restart", Chid: chid, State: channel})
}

// NumCalls returns the number of validator calls so far.
func (v *RecValidator) NumCalls() int {
	v.mu.Lock()
	defer v.mu.Unlock()
	return len(v.Calls)
}

// CallsFrom returns the calls from index i.
func (v *RecValidator) CallsFrom(i int) []VCall {
	v.mu.Lock()
	defer v.mu.Unlock()
	return append([]VCall(nil), v.Calls[i:]...)
}

func (c VCall) String() string { return fmt.Sprintf("%s(%s)", c.Kind, ChidName(c.Chid)) }

var _ datatransfer.RequestValidator = (*RecValidator)(nil)
