package doubles

import (
	"bytes"
	"context"
	"errors"
	"fmt"
	"sync"

	"github.com/libp2p/go-libp2p/core/peer"
	"github.com/libp2p/go-libp2p/core/protocol"

	datatransfer "github.com/filecoin-project/go-data-transfer/v2"
	"github.com/filecoin-project/go-data-transfer/v2/message"
	"github.com/filecoin-project/go-data-transfer/v2/network"
)

// Sent is one recorded SendMessage call.
type Sent struct {
	Seq int64
	To  peer.ID
	Msg datatransfer.Message
	Err error
}

// RecNet is a recording network.DataTransferNetwork.
type RecNet struct {
	Self peer.ID

	mu         sync.Mutex
	Sends      []Sent
	Protects   []string
	Unprotects []string
	ProtLog    []string // "P:<tag>" / "U:<tag>" in call order
	Receiver   network.Receiver
	Connects   []peer.ID
	// FailSend decides the answer of the n-th send (nil = ok).
	FailSend func(n int, to peer.ID, m datatransfer.Message) error
	// HoldSend, when non-nil, parks every SendMessage until it receives.
	HoldSend chan struct{}
}

var ErrSend = errors.New("scripted send failure")

func (n *RecNet) Protect(id peer.ID, tag string) {
	n.mu.Lock()
	defer n.mu.Unlock()
	n.Protects = append(n.Protects, string(id)+"/"+tag)
	n.ProtLog = append(n.ProtLog, "P:"+tag)
}
func (n *RecNet) Unprotect(id peer.ID, tag string) bool {
	n.mu.Lock()
	defer n.mu.Unlock()
	n.Unprotects = append(n.Unprotects, string(id)+"/"+tag)
	n.ProtLog = append(n.ProtLog, "U:"+tag)
	return true
}
func (n *RecNet) SendMessage(ctx context.Context, to peer.ID, m datatransfer.Message) error {
	n.mu.Lock()
	idx := len(n.Sends)
	var err error
	if n.FailSend != nil {
		err = n.FailSend(idx, to, m)
	}
	// messages travel encoded: keep a decoded copy so later mutation of m cannot alias
	cp := m
	if m != nil {
		var buf bytes.Buffer
		if e := m.ToNet(&buf); e == nil {
			if d, e2 := message.FromNet(&buf); e2 == nil {
				cp = d
			}
		}
	}
	n.Sends = append(n.Sends, Sent{Seq: NextSeq(), To: to, Msg: cp, Err: err})
	hold := n.HoldSend
	n.mu.Unlock()
	if hold != nil {
		select {
		case <-hold:
		case <-ctx.Done():
			// the send was abandoned while the message was still on its way: it did not reach the peer
			n.mu.Lock()
			if n.Sends[idx].Err == nil {
				n.Sends[idx].Err = ctx.Err()
			}
			n.mu.Unlock()
			return ctx.Err()
		}
	}
	return err
}
func (n *RecNet) SetDelegate(r network.Receiver) {
	n.mu.Lock()
	defer n.mu.Unlock()
	n.Receiver = r
}
func (n *RecNet) ConnectTo(ctx context.Context, p peer.ID) error { return n.ConnectWithRetry(ctx, p) }
func (n *RecNet) ConnectWithRetry(ctx context.Context, p peer.ID) error {
	n.mu.Lock()
	defer n.mu.Unlock()
	n.Connects = append(n.Connects, p)
	return nil
}
func (n *RecNet) ID() peer.ID { return n.Self }
func (n *RecNet) Protocol(context.Context, peer.ID) (protocol.ID, error) {
	return datatransfer.ProtocolDataTransfer1_2, nil
}

// NumSends returns the number of sends so far.
func (n *RecNet) NumSends() int {
	n.mu.Lock()
	defer n.mu.Unlock()
	return len(n.Sends)
}

// SendsFrom returns a copy of the sends from index i.
func (n *RecNet) SendsFrom(i int) []Sent {
	n.mu.Lock()
	defer n.mu.Unlock()
	return append([]Sent(nil), n.Sends[i:]...)
}

var _ network.DataTransferNetwork = (*RecNet)(nil)

// MsgSummary renders a message canonically (kind, flags, id, voucher).
func MsgSummary(m datatransfer.Message) string {
	if m == nil {
		return "<nil>"
	}
	s := fmt.Sprintf("id=%d paused=%v", uint64(m.TransferID()), m.IsPaused())
	switch x := m.(type) {
	case datatransfer.Request:
		k := "?"
		switch {
		case x.IsRestartExistingChannelRequest():
			k = "restart-existing"
		case x.IsNew():
			k = "new"
		case x.IsRestart():
			k = "restart"
		case x.IsCancel():
			k = "cancel"
		case x.IsUpdate():
			k = "update"
		case x.IsVoucher():
			k = "voucher"
		}
		v, _ := x.Voucher()
		sel, _ := x.Selector()
		rc, _ := x.RestartChannelId()
		vb := "none"
		if v != nil && !v.IsNull() {
			vb = NodeBytes(v)
		}
		sb := "none"
		if sel != nil && !sel.IsNull() {
			sb = NodeBytes(sel)
		}
		return fmt.Sprintf("REQ %s %s pull=%v vtype=%q v=%s cid=%s sel=%s rc=%s", k, s, x.IsPull(), x.VoucherType(), vb, x.BaseCid(), Hash8(sb), ChidName(rc))
	case datatransfer.Response:
		k := "?"
		switch {
		case x.IsNew():
			k = "new"
		case x.IsRestart():
			k = "restart"
		case x.IsCancel():
			k = "cancel"
		case x.IsComplete():
			k = "complete"
		case x.IsUpdate():
			k = "update"
		case x.IsValidationResult():
			k = "voucher-result"
		}
		v, _ := x.VoucherResult()
		vb := "none"
		if v != nil && !v.IsNull() {
			vb = NodeBytes(v)
		}
		return fmt.Sprintf("RESP %s %s accepted=%v vtype=%q v=%s", k, s, x.Accepted(), x.VoucherResultType(), vb)
	}
	return "?"
}

// Hash8 shortens long renderings.
func Hash8(s string) string {
	if len(s) <= 16 {
		return s
	}
	var h uint64 = 1469598103934665603
	for i := 0; i < len(s); i++ {
		h ^= uint64(s[i])
		h *= 1099511628211
	}
	return fmt.Sprintf("#%x", h)
}

// Recode passes a message through the network encoding (what a peer would receive).
func Recode(m datatransfer.Message) datatransfer.Message {
	var buf bytes.Buffer
	if err := m.ToNet(&buf); err != nil {
		panic(err)
	}
	d, err := message.FromNet(&buf)
	if err != nil {
		panic(err)
	}
	return d
}

// ProtectedAtEnd tells whether the last protection call for tag was a Protect.
func (n *RecNet) ProtectedAtEnd(tag string) bool {
	n.mu.Lock()
	defer n.mu.Unlock()
	last := ""
	for _, e := range n.ProtLog {
		if e[2:] == tag {
			last = e[:1]
		}
	}
	return last == "P"
}
