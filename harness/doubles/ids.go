package doubles

import (
	"bytes"
	"encoding/hex"
	"fmt"
	"strings"
	"sync/atomic"

	"github.com/ipfs/go-cid"
	"github.com/ipld/go-ipld-prime"
	"github.com/ipld/go-ipld-prime/codec/dagcbor"
	"github.com/ipld/go-ipld-prime/datamodel"
	"github.com/ipld/go-ipld-prime/fluent/qp"
	cidlink "github.com/ipld/go-ipld-prime/linking/cid"
	"github.com/ipld/go-ipld-prime/node/basicnode"
	"github.com/ipld/go-ipld-prime/node/bindnode"
	"github.com/ipld/go-ipld-prime/schema"
	selectorparse "github.com/ipld/go-ipld-prime/traversal/selector/parse"
	"github.com/libp2p/go-libp2p/core/peer"
	mh "github.com/multiformats/go-multihash"

	datatransfer "github.com/filecoin-project/go-data-transfer/v2"
)

// Fixed peers (identity-multihash peer IDs, deterministic).
var (
	PeerA = mkPeer("peer-A")
	PeerB = mkPeer("peer-B")
	PeerC = mkPeer("peer-C")
)

func mkPeer(s string) peer.ID {
	h, err := mh.Sum([]byte(s), mh.IDENTITY, -1)
	if err != nil {
		panic(err)
	}
	return peer.ID(h)
}

// PeerName gives a short name for the fixed peers.
func PeerName(p peer.ID) string {
	switch p {
	case PeerA:
		return "A"
	case PeerB:
		return "B"
	case PeerC:
		return "C"
	case "":
		return "-"
	}
	return "?" + hex.EncodeToString([]byte(p))
}

// Cid makes a deterministic CIDv1 (raw, sha2-256) from a string.
func Cid(s string) cid.Cid {
	h, _ := mh.Sum([]byte(s), mh.SHA2_256, -1)
	return cid.NewCidV1(cid.Raw, h)
}

// AllSelector is the explore-all-recursively selector node.
func AllSelector() datamodel.Node { return selectorparse.CommonSelector_ExploreAllRecursively }

// Str makes a string node.
func Str(s string) datamodel.Node { return basicnode.NewString(s) }

// Voucher makes a typed voucher with a string payload.
func Voucher(typ, payload string) datatransfer.TypedVoucher {
	return datatransfer.TypedVoucher{Type: datatransfer.TypeIdentifier(typ), Voucher: basicnode.NewString(payload)}
}

// NodeFamily is the IPLD value family used for vouchers/results/selectors in
// persistence and wire checks.
func NodeFamily() map[string]datamodel.Node {
	lnk := cidlink.Link{Cid: Cid("linked")}
	m := map[string]datamodel.Node{
		"string": basicnode.NewString("s"),
		"empty":  basicnode.NewString(""),
		"int":    basicnode.NewInt(7),
		"negint": basicnode.NewInt(-3),
		"bigint": basicnode.NewInt(1<<63 - 1),
		"bytes":  basicnode.NewBytes([]byte{0, 1, 2, 255}),
		"bool":   basicnode.NewBool(true),
		"float":  basicnode.NewFloat(1.5),
		"link":   basicnode.NewLink(lnk),
		// sizes on both sides of the places where the CBOR length header changes width (24, 256, 65536)
		"string_300":  basicnode.NewString(strings.Repeat("abcdefghij", 30)),
		"bytes_70000": basicnode.NewBytes(bytes.Repeat([]byte{0xde, 0xad, 0xbe, 0xef, 0x00}, 14000)),
	}
	ll, _ := qp.BuildList(basicnode.Prototype.Any, -1, func(la datamodel.ListAssembler) {
		for i := 0; i < 30; i++ {
			qp.ListEntry(la, qp.Int(int64(i*i)))
		}
	})
	m["list_30"] = ll
	l, _ := qp.BuildList(basicnode.Prototype.Any, -1, func(la datamodel.ListAssembler) {
		qp.ListEntry(la, qp.Int(1))
		qp.ListEntry(la, qp.String("x"))
	})
	m["list"] = l
	// keys deliberately in non-canonical order (dag-cbor sorts by length then bytes)
	mm, _ := qp.BuildMap(basicnode.Prototype.Any, -1, func(ma datamodel.MapAssembler) {
		qp.MapEntry(ma, "zz", qp.Int(1))
		qp.MapEntry(ma, "a", qp.String("v"))
		qp.MapEntry(ma, "bbb", qp.Bool(false))
	})
	m["map_noncanon"] = mm
	nested, _ := qp.BuildMap(basicnode.Prototype.Any, -1, func(ma datamodel.MapAssembler) {
		qp.MapEntry(ma, "k", qp.List(-1, func(la datamodel.ListAssembler) {
			qp.ListEntry(la, qp.Map(-1, func(ma2 datamodel.MapAssembler) {
				qp.MapEntry(ma2, "y", qp.Int(2))
				qp.MapEntry(ma2, "x", qp.Link(lnk))
			}))
		}))
	})
	m["nested"] = nested
	em, _ := qp.BuildMap(basicnode.Prototype.Any, -1, func(ma datamodel.MapAssembler) {})
	m["emptymap"] = em
	// schema-typed values whose representation differs from their type-level view (what applications that define
	// their vouchers with bindnode hand to the library): as DAG-CBOR data they are their representation
	m["typed_tuple"] = bindnode.Wrap(&typedDeal{ID: "deal-1", Price: 20}, typedSchema.TypeByName("Deal"))
	m["typed_renamed"] = bindnode.Wrap(&typedRenamed{A: "x", B: 3}, typedSchema.TypeByName("Renamed"))
	return m
}

type typedDeal struct {
	ID    string
	Price int64
}

type typedRenamed struct {
	A string
	B int64
}

var typedSchema = func() *schema.TypeSystem {
	ts, err := ipld.LoadSchemaBytes([]byte(`
type Deal struct {
	ID String
	Price Int
} representation tuple

type Renamed struct {
	A String (rename "zz")
	B Int (rename "a")
} representation map
`))
	if err != nil {
		panic(err)
	}
	return ts
}()

// NodeBytes is the canonical dag-cbor encoding of a node (hex), "nil" for nil.
func NodeBytes(n datamodel.Node) string {
	if n == nil {
		return "nil"
	}
	var buf bytes.Buffer
	if err := ipld.EncodeStreaming(&buf, n, dagcbor.Encode); err != nil {
		return "ERR:" + err.Error()
	}
	return hex.EncodeToString(buf.Bytes())
}

// TV renders a typed voucher canonically.
func TV(v datatransfer.TypedVoucher) string {
	return fmt.Sprintf("%s:%s", v.Type, NodeBytes(v.Voucher))
}

// TVs renders a voucher list canonically.
func TVs(vs []datatransfer.TypedVoucher) string {
	parts := make([]string, len(vs))
	for i, v := range vs {
		parts[i] = TV(v)
	}
	return "[" + strings.Join(parts, ",") + "]"
}

// ChidName renders a channel id with short peer names.
func ChidName(c datatransfer.ChannelID) string {
	return fmt.Sprintf("%s-%s-%d", PeerName(c.Initiator), PeerName(c.Responder), uint64(c.ID))
}

var seqCounter atomic.Int64

// NextSeq returns a process-wide increasing stamp used to order records of different recorders.
func NextSeq() int64 { return seqCounter.Add(1) }
