package l0wire

import (
	"testing"

	"verif/mc"
)

func TestCheck(t *testing.T) { mc.Main(t, "l0wire") }
