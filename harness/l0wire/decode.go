package l0wire

import (
	"bytes"
	"fmt"

	"github.com/ipld/go-ipld-prime/codec/dagcbor"
	"github.com/ipld/go-ipld-prime/node/basicnode"

	datatransfer "github.com/filecoin-project/go-data-transfer/v2"
	"github.com/filecoin-project/go-data-transfer/v2/message"
	"github.com/filecoin-project/go-data-transfer/v2/message/types"

	"verif/doubles"
	"verif/mc"
)

// decodeBoth presents bytes to both decoders (network, and IPLD via a generic dag-cbor decode)
// and applies the C12 decoder oracle: no panic; err==nil => usable message.
func decodeBoth(x *mc.Cell, b []byte, class string) (okNet bool, o string) {
	x.Executions++
	try := func(path string, f func() (datatransfer.Message, error)) (string, bool) {
		var m datatransfer.Message
		var err error
		func() {
			defer func() {
				if r := recover(); r != nil {
					x.Violate("C12", fmt.Sprintf("decoder-panic;path=%s;class=%s", path, class), fmt.Sprintf("decoding %x panicked: %v", b, r), map[string]any{"bytes": fmt.Sprintf("%x", b)})
					err = fmt.Errorf("panic")
				}
			}()
			m, err = f()
		}()
		if err != nil {
			return "err", false
		}
		if m == nil {
			x.Violate("C12", fmt.Sprintf("decoder-nil-message;path=%s;class=%s", path, class), fmt.Sprintf("decoding %x returned nil message and nil error", b), map[string]any{"bytes": fmt.Sprintf("%x", b)})
			return "nil", false
		}
		s, aerr := obs(m)
		if aerr != nil {
			x.Violate("C12", fmt.Sprintf("decoded-message-unusable;path=%s;class=%s", path, class), fmt.Sprintf("decoding %x succeeded but %v", b, aerr), map[string]any{"bytes": fmt.Sprintf("%x", b)})
			return "unusable", false
		}
		return s, true
	}
	o1, ok1 := try("net", func() (datatransfer.Message, error) { return message.FromNet(bytes.NewReader(b)) })
	o2, _ := try("ipld", func() (datatransfer.Message, error) {
		nb := basicnode.Prototype.Any.NewBuilder()
		if err := dagcbor.Decode(nb, bytes.NewReader(b)); err != nil {
			return nil, err
		}
		return message.FromIPLD(nb.Build())
	})
	x.Outcome(o1 + "|" + o2)
	return ok1, o1
}

// canonicalEncodings returns a set of well-formed messages (name -> bytes) used as mutation seeds.
func canonicalEncodings() map[string][]byte {
	out := map[string][]byte{}
	allBuilt(false, func(b built) {
		var buf bytes.Buffer
		if err := b.msg.ToNet(&buf); err == nil {
			if _, dup := out[b.kind+fmt.Sprint(b.msg.IsRequest())]; !dup {
				out[b.kind+fmt.Sprint(b.msg.IsRequest())] = buf.Bytes()
			}
		}
	})
	// a few richer ones
	v := doubles.Voucher("T", "v")
	rq, _ := message.NewRequest(1<<63+5, true, true, &v, doubles.Cid("r"), doubles.AllSelector())
	var b1 bytes.Buffer
	_ = rq.ToNet(&b1)
	out["rich-restart-pull"] = b1.Bytes()
	nf := doubles.NodeFamily()
	res := datatransfer.TypedVoucher{Type: "R", Voucher: nf["nested"]}
	rs, _ := message.CompleteResponse(9, true, true, &res)
	var b2 bytes.Buffer
	_ = rs.ToNet(&b2)
	out["rich-complete"] = b2.Bytes()
	return out
}

func mutations(x *mc.Cell, stride int) {
	seeds := canonicalEncodings()
	for name, enc := range seeds {
		if ok, _ := decodeBoth(x, enc, "seed"); !ok {
			x.Violate("C12", "seed-does-not-decode;"+name, fmt.Sprintf("%x", enc), nil)
		}
		for n := 0; n < len(enc); n++ { // truncations
			decodeBoth(x, enc[:n], "truncation")
		}
		for off := 0; off < len(enc); off += stride {
			for v := 0; v < 256; v++ {
				if byte(v) == enc[off] {
					continue
				}
				m := append([]byte(nil), enc...)
				m[off] = byte(v)
				decodeBoth(x, m, "substitution")
			}
			del := append(append([]byte(nil), enc[:off]...), enc[off+1:]...)
			decodeBoth(x, del, "deletion")
			dup := append(append(append([]byte(nil), enc[:off+1]...), enc[off]), enc[off+1:]...)
			decodeBoth(x, dup, "duplication")
		}
		if x.TimeUp() {
			x.Cap("mutations: time cap")
			return
		}
	}
	x.Premise = x.Executions
}

func shortStrings(x *mc.Cell) {
	decodeBoth(x, nil, "short")
	for a := 0; a < 256; a++ {
		decodeBoth(x, []byte{byte(a)}, "short")
		for b := 0; b < 256; b++ {
			decodeBoth(x, []byte{byte(a), byte(b)}, "short")
		}
	}
	x.Premise = x.Executions
}

// confusionValues: one CBOR value of each type
func confusionValues() map[string][]byte {
	return map[string][]byte{
		"null": {0xf6}, "bool": {0xf5}, "int": {0x07}, "negint": {0x20}, "string": {0x61, 'x'}, "bytes": {0x41, 1},
		"list": {0x80}, "map": {0xa0}, "link": one(func(e *enc) { e.link(doubles.Cid("c")) }), "float": {0xfb, 0x3f, 0xf8, 0, 0, 0, 0, 0, 0},
		"bigint": {0x1b, 0xff, 0xff, 0xff, 0xff, 0xff, 0xff, 0xff, 0xff},
	}
}

// typeConfusion: every field of the message / request / response maps set to every CBOR type or absent.
func typeConfusion(x *mc.Cell, pairs bool) {
	cv := confusionValues()
	cid1 := doubles.Cid("r")
	goodReq := reqFields{cid: &cid1, typ: 0, stor: doubles.AllSelector(), vouch: doubles.Str("v"), vtyp: "T", xfer: 5,
		restart: datatransfer.ChannelID{Initiator: doubles.PeerA, Responder: doubles.PeerB, ID: 3}}
	goodResp := respFields{typ: uint64(types.NewMessage), acpt: true, xfer: 5, vres: doubles.Str("r"), vtyp: "R"}
	variants := func(entries []kv, i int) [][]kv {
		var out [][]kv
		// absent
		out = append(out, append(append([]kv(nil), entries[:i]...), entries[i+1:]...))
		for _, v := range sortedKeys(cv) {
			e := append([]kv(nil), entries...)
			e[i] = kv{entries[i].k, cv[v]}
			out = append(out, e)
		}
		return out
	}
	// top level: full product over the three fields
	reqInner := mapOf(canonical(goodReq.entries()))
	respInner := mapOf(canonical(goodResp.entries()))
	topVals := func(inner []byte) [][]byte {
		out := [][]byte{nil, inner} // nil = absent
		for _, v := range sortedKeys(cv) {
			out = append(out, cv[v])
		}
		return out
	}
	isrqVals := [][]byte{nil, {0xf5}, {0xf4}, {0xf6}, {0x01}, {0x61, 'x'}, {0xa0}, {0x80}}
	for _, a := range isrqVals {
		for _, b := range topVals(reqInner) {
			for _, c := range topVals(respInner) {
				var es []kv
				if a != nil {
					es = append(es, kv{"IsRq", a})
				}
				if b != nil {
					es = append(es, kv{"Request", b})
				}
				if c != nil {
					es = append(es, kv{"Response", c})
				}
				decodeBoth(x, mapOf(canonical(es)), "confusion-top")
			}
		}
	}
	// inner fields: every single field, and (pairs) every pair of fields
	reqE := canonical(goodReq.entries())
	for i := range reqE {
		for _, v1 := range variants(reqE, i) {
			decodeBoth(x, mapOf(canonical(topEntries(true, mapOf(v1)))), "confusion-request-field")
			if pairs {
				for j := i + 1; j < len(reqE); j++ {
					// locate field j in v1 by key
					for k := range v1 {
						if v1[k].k == reqE[j].k {
							for _, v2 := range variants(v1, k) {
								decodeBoth(x, mapOf(canonical(topEntries(true, mapOf(v2)))), "confusion-request-pair")
							}
						}
					}
				}
			}
		}
		if x.TimeUp() {
			x.Cap("typeConfusion: time cap")
			return
		}
	}
	respE := canonical(goodResp.entries())
	for i := range respE {
		for _, v1 := range variants(respE, i) {
			decodeBoth(x, mapOf(canonical(topEntries(false, mapOf(v1)))), "confusion-response-field")
			if pairs {
				for j := i + 1; j < len(respE); j++ {
					for k := range v1 {
						if v1[k].k == respE[j].k {
							for _, v2 := range variants(v1, k) {
								decodeBoth(x, mapOf(canonical(topEntries(false, mapOf(v2)))), "confusion-response-pair")
							}
						}
					}
				}
			}
		}
	}
	// tuple confusion for RestartChannel
	for _, v := range [][]byte{{0x80}, {0x81, 0x60}, {0x82, 0x60, 0x60}, {0x84, 0x60, 0x60, 0x01, 0x01}, {0x83, 0x01, 0x60, 0x01}, {0x83, 0x60, 0x60, 0x60}} {
		e := append([]kv(nil), reqE...)
		for k := range e {
			if e[k].k == "RestartChannel" {
				e[k].v = v
			}
		}
		decodeBoth(x, mapOf(canonical(topEntries(true, mapOf(e)))), "confusion-tuple")
	}
	x.Premise = x.Executions
}

func sortedKeys(m map[string][]byte) []string {
	ks := make([]string, 0, len(m))
	for k := range m {
		ks = append(ks, k)
	}
	for i := range ks {
		for j := i + 1; j < len(ks); j++ {
			if ks[j] < ks[i] {
				ks[i], ks[j] = ks[j], ks[i]
			}
		}
	}
	return ks
}

// keyOrders: every permutation of the 3 top-level and 6 response keys; every transposition and the reversal of the 10 request keys.
func keyOrders(x *mc.Cell) {
	cid1 := doubles.Cid("r")
	rq := reqFields{cid: &cid1, typ: uint64(types.RestartMessage), pull: true, paus: true, stor: doubles.AllSelector(), vouch: doubles.NodeFamily()["map_noncanon"], vtyp: "T", xfer: 1<<63 + 1,
		restart: datatransfer.ChannelID{}}
	rs := respFields{typ: uint64(types.CompleteMessage), acpt: true, paus: true, xfer: 1<<64 - 1, vres: doubles.NodeFamily()["nested"], vtyp: "R"}
	okc, refReq := decodeBoth(x, encodeReq(rq), "keyorder-ref")
	okr, refResp := decodeBoth(x, encodeResp(rs), "keyorder-ref")
	if !okc || !okr {
		x.Violate("C12", "keyorder;reference-does-not-decode", "", nil)
		return
	}
	check := func(b []byte, ref, what string) {
		ok, o := decodeBoth(x, b, "keyorder")
		if !ok || o != ref {
			x.Violate("C12", "keyorder;"+what, fmt.Sprintf("map with permuted keys (%s) decodes differently:\n  canonical: %s\n  permuted:  %s (ok=%v)\n  bytes=%x", what, ref, o, ok, b), map[string]any{"bytes": fmt.Sprintf("%x", b)})
		}
	}
	reqInnerCanon := mapOf(canonical(rq.entries()))
	respInnerCanon := mapOf(canonical(rs.entries()))
	permute(3, func(p []int) {
		t := topEntries(true, reqInnerCanon)
		check(mapOf([]kv{t[p[0]], t[p[1]], t[p[2]]}), refReq, "top-level")
		t2 := topEntries(false, respInnerCanon)
		check(mapOf([]kv{t2[p[0]], t2[p[1]], t2[p[2]]}), refResp, "top-level")
	})
	re := rs.entries()
	permute(6, func(p []int) {
		es := make([]kv, 6)
		for i, j := range p {
			es[i] = re[j]
		}
		check(mapOf(canonical(topEntries(false, mapOf(es)))), refResp, "response-keys")
	})
	qe := canonical(rq.entries())
	for i := 0; i < len(qe); i++ {
		for j := i + 1; j < len(qe); j++ {
			es := append([]kv(nil), qe...)
			es[i], es[j] = es[j], es[i]
			check(mapOf(canonical(topEntries(true, mapOf(es)))), refReq, "request-keys-transposition")
		}
	}
	rev := make([]kv, len(qe))
	for i := range qe {
		rev[len(qe)-1-i] = qe[i]
	}
	check(mapOf(canonical(topEntries(true, mapOf(rev)))), refReq, "request-keys-reversed")
	x.Premise = x.Executions
}

func permute(n int, f func(p []int)) {
	p := make([]int, n)
	for i := range p {
		p[i] = i
	}
	var rec func(k int)
	rec = func(k int) {
		if k == n {
			f(append([]int(nil), p...))
			return
		}
		for i := k; i < n; i++ {
			p[k], p[i] = p[i], p[k]
			rec(k + 1)
			p[k], p[i] = p[i], p[k]
		}
	}
	rec(0)
}

func init() {
	mc.Register("C12", "constructors-roundtrip-bytes", "quick", func(x *mc.Cell) {
		allBuilt(false, func(b built) { checkBuilt(x, b) })
	})
	mc.Register("C12", "constructors-roundtrip-bytes-full", "thorough", func(x *mc.Cell) {
		allBuilt(true, func(b built) { checkBuilt(x, b) })
	})
	mc.Register("C12", "validation-responses", "both", validationResponses)
	mc.Register("C12", "key-orders", "both", keyOrders)
	mc.Register("C12", "decoder-short-strings", "both", shortStrings)
	mc.Register("C12", "decoder-mutations", "quick", func(x *mc.Cell) { mutations(x, 4) })
	mc.Register("C12", "decoder-mutations-full", "thorough", func(x *mc.Cell) { mutations(x, 1) })
	mc.Register("C12", "decoder-type-confusion", "quick", func(x *mc.Cell) { typeConfusion(x, false) })
	mc.Register("C12", "decoder-type-confusion-pairs", "thorough", func(x *mc.Cell) { typeConfusion(x, true) })
}
