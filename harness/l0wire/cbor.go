// Package l0wire checks the wire format (C12) on the pure message functions.
package l0wire

import (
	"bytes"
	"encoding/binary"
	"sort"

	"github.com/ipfs/go-cid"
)

// ---- a minimal, independent DAG-CBOR writer (no bindnode, no ipld codec)

type enc struct{ bytes.Buffer }

func (e *enc) hdr(major byte, n uint64) {
	m := major << 5
	switch {
	case n < 24:
		e.WriteByte(m | byte(n))
	case n <= 0xff:
		e.WriteByte(m | 24)
		e.WriteByte(byte(n))
	case n <= 0xffff:
		e.WriteByte(m | 25)
		var b [2]byte
		binary.BigEndian.PutUint16(b[:], uint16(n))
		e.Write(b[:])
	case n <= 0xffffffff:
		e.WriteByte(m | 26)
		var b [4]byte
		binary.BigEndian.PutUint32(b[:], uint32(n))
		e.Write(b[:])
	default:
		e.WriteByte(m | 27)
		var b [8]byte
		binary.BigEndian.PutUint64(b[:], n)
		e.Write(b[:])
	}
}
func (e *enc) uint(n uint64) { e.hdr(0, n) }
func (e *enc) text(s string) { e.hdr(3, uint64(len(s))); e.WriteString(s) }
func (e *enc) boolean(b bool) {
	if b {
		e.WriteByte(0xf5)
	} else {
		e.WriteByte(0xf4)
	}
}
func (e *enc) null()        { e.WriteByte(0xf6) }
func (e *enc) array(n int)  { e.hdr(4, uint64(n)) }
func (e *enc) mapHdr(n int) { e.hdr(5, uint64(n)) }
func (e *enc) raw(b []byte) { e.Write(b) }
func (e *enc) link(c cid.Cid) {
	e.WriteByte(0xd8)
	e.WriteByte(0x2a)
	cb := c.Bytes()
	e.hdr(2, uint64(len(cb)+1))
	e.WriteByte(0)
	e.Write(cb)
}

type kv struct {
	k string
	v []byte
}

// mapOf writes a map with the given entries in the given order (no sorting).
func mapOf(entries []kv) []byte {
	var e enc
	e.mapHdr(len(entries))
	for _, x := range entries {
		e.text(x.k)
		e.raw(x.v)
	}
	return e.Bytes()
}

// canonical sorts entries in DAG-CBOR order (length first, then bytewise).
func canonical(entries []kv) []kv {
	out := append([]kv(nil), entries...)
	sort.SliceStable(out, func(i, j int) bool {
		if len(out[i].k) != len(out[j].k) {
			return len(out[i].k) < len(out[j].k)
		}
		return out[i].k < out[j].k
	})
	return out
}

func one(f func(e *enc)) []byte {
	var e enc
	f(&e)
	return append([]byte(nil), e.Bytes()...)
}
