package l0wire

import (
	"bufio"
	"bytes"
	"fmt"
	"io"
	"testing/iotest"

	"github.com/filecoin-project/go-data-transfer/v2/message"

	"verif/mc"
)

// plainReader hides every method of the underlying reader but Read (a network stream is no io.ByteReader).
type plainReader struct{ r io.Reader }

func (p plainReader) Read(b []byte) (int, error) { return p.r.Read(b) }

// c12Streams: the network form is a stream that may carry several messages back to back. For every ordered pair of
// a systematic subset of the constructible messages, written one after the other, and every kind of reader a
// transport may hand in (a byte reader, a plain stream, a stream delivering one byte per read, a stream delivering
// it in two halves, a buffered stream), decoding the stream message by message yields exactly the two messages
// (all observable fields) and then the end of the stream.
func c12Streams(x *mc.Cell) {
	var msgs []built
	seen := map[string]bool{}
	allBuilt(false, func(b built) {
		if seen[b.kind] || b.want == nil {
			return
		}
		seen[b.kind] = true
		msgs = append(msgs, b)
	})
	readers := []struct {
		name string
		mk   func([]byte) io.Reader
	}{
		{"bytes.Reader", func(b []byte) io.Reader { return bytes.NewReader(b) }},
		{"plain-stream", func(b []byte) io.Reader { return plainReader{bytes.NewReader(b)} }},
		{"one-byte-per-read", func(b []byte) io.Reader { return plainReader{iotest.OneByteReader(bytes.NewReader(b))} }},
		{"half-per-read", func(b []byte) io.Reader { return plainReader{iotest.HalfReader(bytes.NewReader(b))} }},
		{"bufio.Reader", func(b []byte) io.Reader { return bufio.NewReader(plainReader{bytes.NewReader(b)}) }},
	}
	for _, a := range msgs {
		for _, b := range msgs {
			oa, ea := obs(a.msg)
			ob, eb := obs(b.msg)
			if ea != nil || eb != nil {
				continue
			}
			var wire bytes.Buffer
			if a.msg.ToNet(&wire) != nil || b.msg.ToNet(&wire) != nil {
				continue
			}
			for _, rd := range readers {
				x.Executions++
				rep := map[string]any{"first": a.name, "second": b.name, "reader": rd.name}
				func() {
					defer func() {
						if r := recover(); r != nil {
							x.Violate("C12", "panic;stream-of-two", fmt.Sprintf("%v", r), rep)
						}
					}()
					r := rd.mk(wire.Bytes())
					x.Premise++
					x.Outcome(a.kind + "|" + b.kind + "|" + rd.name)
					for i, want := range []string{oa, ob} {
						m, err := message.FromNet(r)
						if err != nil {
							x.Violate("C12", fmt.Sprintf("stream-of-two;message-%d-lost;reader=%s", i+1, rd.name), fmt.Sprintf("%s then %s on one stream (%s): decoding message %d failed: %v", a.name, b.name, rd.name, i+1, err), rep)
							return
						}
						got, err := obs(m)
						if err != nil || got != want {
							x.Violate("C12", fmt.Sprintf("stream-of-two;message-%d-differs;reader=%s", i+1, rd.name), fmt.Sprintf("%s then %s on one stream (%s): message %d decoded as\n  %s (err %v)\nwant\n  %s", a.name, b.name, rd.name, i+1, got, err, want), rep)
							return
						}
					}
					if m, err := message.FromNet(r); err == nil {
						o, _ := obs(m)
						x.Violate("C12", "stream-of-two;third-message-from-nowhere;reader="+rd.name, fmt.Sprintf("%s then %s: a third message was decoded: %s", a.name, b.name, o), rep)
					}
				}()
			}
		}
	}
}

func init() {
	mc.Register("C12", "two-messages-on-one-stream", "both", c12Streams)
}
