package l0wire

import (
	"bytes"
	"errors"
	"fmt"

	"verif/mc"
)

type failingWriter struct {
	after int // bytes accepted before the failure
	n     int
}

func (w *failingWriter) Write(p []byte) (int, error) {
	if w.n+len(p) > w.after {
		k := w.after - w.n
		if k < 0 {
			k = 0
		}
		w.n += k
		return k, errors.New("scripted write failure")
	}
	w.n += len(p)
	return len(p), nil
}

// c12EncodeHistories: encoding is a pure function of the message - also after an earlier encode whose writer
// failed (at the first byte, in the middle, at the last byte). For every ordered pair of a systematic subset of
// the constructible messages: ToNet(a) into a failing writer, then ToNet(b) into a healthy one must yield exactly
// the independent schema encoding of b (and decode back to b).
func c12EncodeHistories(x *mc.Cell) {
	var msgs []built
	seen := map[string]bool{}
	allBuilt(false, func(b built) {
		if seen[b.kind] || b.want == nil {
			return
		}
		seen[b.kind] = true
		msgs = append(msgs, b)
	})
	for _, a := range msgs {
		var full bytes.Buffer
		if err := a.msg.ToNet(&full); err != nil {
			continue
		}
		for _, cut := range []int{0, full.Len() / 2, full.Len() - 1} {
			for _, b := range msgs {
				x.Executions++
				rep := map[string]any{"failed-first": a.name, "write-fails-after-bytes": cut, "then": b.name}
				func() {
					defer func() {
						if r := recover(); r != nil {
							x.Violate("C12", "panic;encode-after-failed-write", fmt.Sprintf("%v", r), rep)
						}
					}()
					ferr := a.msg.ToNet(&failingWriter{after: cut})
					var out bytes.Buffer
					err := b.msg.ToNet(&out)
					x.Premise++
					x.Outcome(fmt.Sprintf("%s|%d|%s|%v", a.kind, cut, b.kind, ferr != nil))
					if err != nil {
						x.Violate("C12", "encode-after-failed-write;error", fmt.Sprintf("ToNet(%s) after a failed ToNet(%s): %v", b.name, a.name, err), rep)
						return
					}
					if !bytes.Equal(out.Bytes(), b.want) {
						x.Violate("C12", fmt.Sprintf("encode-after-failed-write;bytes-differ-from-schema-encoding;kind=%s", b.kind),
							fmt.Sprintf("after ToNet(%s) failed at byte %d, ToNet(%s) wrote %d bytes, the schema encoding has %d:\n  wrote:  %x\n  schema: %x", a.name, cut, b.name, out.Len(), len(b.want), out.Bytes(), b.want), rep)
					}
				}()
			}
		}
	}
}

func init() {
	mc.Register("C12", "encode-after-a-failed-write", "both", c12EncodeHistories)
}
