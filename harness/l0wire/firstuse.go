package l0wire

import (
	"bytes"
	"fmt"

	"github.com/ipld/go-ipld-prime/codec/dagcbor"
	"github.com/ipld/go-ipld-prime/node/basicnode"

	datatransfer "github.com/filecoin-project/go-data-transfer/v2"
	message "github.com/filecoin-project/go-data-transfer/v2/message/message1_1prime"
	"github.com/filecoin-project/go-data-transfer/v2/message/types"

	"verif/doubles"
	"verif/mc"
	"verif/sched"
)

// c12FirstUse: the very first uses of the codec in a process (each cell runs in its own worker process) happen
// concurrently: one goroutine decodes a message from the network form, one from the IPLD form, one encodes a
// message the library built. Scheduling points are the lock / atomic operations of the message package (none on
// the pinned tree: the schema is bound in init(); the cell then has a single execution). Whatever the
// interleaving, nothing panics and every call yields the right message.
func c12FirstUse(x *mc.Cell, bound int) {
	name := fmt.Sprintf("c12-first-use/b%d", bound)
	x.Enumerate(name, mc.EnumOpts{MaxDeviations: bound, DeviationCost: sched.Cost, MaxExecutions: 4000}, c12FirstUseBody(x, name))
}

func c12FirstUseBody(x *mc.Cell, name string) mc.Body {
	cid1 := doubles.Cid("root")
	wire := encodeReq(reqFields{cid: &cid1, typ: uint64(types.NewMessage), pull: true, stor: doubles.AllSelector(), vouch: doubles.Str("v"), vtyp: "T", xfer: 1<<64 - 2})
	filter := func(kind string, obj any) bool {
		return kind == "atomic" || kind == "atomic-post" || kind == "lock" || kind == "rlock" || kind == "unlock"
	}
	return func(c *mc.Chooser) mc.Exec {
		var ex mc.Exec
		pv, stack := mc.Bubble(x.T, func() {
			s := sched.New(filter)
			defer s.Close()
			var m1, m2 datatransfer.Message
			var e1, e2, e3 error
			var out bytes.Buffer
			s.Go("decode-net", func() { m1, e1 = message.FromNet(bytes.NewReader(wire)) })
			s.Go("decode-ipld", func() {
				nb := basicnode.Prototype.Any.NewBuilder()
				if err := dagcbor.Decode(nb, bytes.NewReader(wire)); err != nil {
					e2 = err
					return
				}
				m2, e2 = message.FromIPLD(nb.Build())
			})
			s.Go("encode", func() { e3 = message.CancelRequest(7).ToNet(&out) })
			stuck, _ := s.Run(c, 2000, 0, 0)
			s.Close()
			mc.Wait()
			rep := mc.EnumReplay(name, c)
			ex.Premise = true
			if len(stuck) > 0 {
				x.Violate("C12", "first-use;call-did-not-return", fmt.Sprintf("%v; schedule %v", stuck, s.Trace), rep)
				return
			}
			for i, e := range []error{e1, e2, e3} {
				if e != nil {
					x.Violate("C12", fmt.Sprintf("first-use;error;call=%d", i), fmt.Sprintf("%v; schedule %v", e, s.Trace), rep)
				}
			}
			for i, m := range []datatransfer.Message{m1, m2} {
				if m == nil {
					continue
				}
				if o, err := obs(m); err != nil || !m.IsRequest() || uint64(m.TransferID()) != 1<<64-2 {
					x.Violate("C12", fmt.Sprintf("first-use;wrong-message;call=%d", i), fmt.Sprintf("decoded %s (err %v); schedule %v", o, err, s.Trace), rep)
				}
			}
			ex.Outcome = fmt.Sprintf("%d", out.Len())
		})
		if pv != nil {
			x.Violate("C12", "first-use;panic", fmt.Sprintf("the first concurrent uses of the codec panicked: %v\n%s", pv, stack), mc.EnumReplay(name, c))
		}
		return ex
	}
}

// The race window of a lazily initialised package-level value exists once per process, and all executions of a
// cell share one worker process. So besides the enumerating cell there is one cell (= one fresh process) per
// single-deviation schedule: the process's very first execution takes alternative `alt` at decision `i`.
func c12FirstUseOneSchedule(x *mc.Cell, i, alt int) {
	name := fmt.Sprintf("c12-first-use/dev=%d.%d", i, alt)
	x.RunOne(name, append(make([]int, i), alt), c12FirstUseBody(x, name))
}

func init() {
	mc.Register("C12", "first-uses-of-the-codec-concurrently", "quick", func(x *mc.Cell) { c12FirstUse(x, 2) })
	mc.Register("C12", "first-uses-of-the-codec-concurrently", "thorough", func(x *mc.Cell) { c12FirstUse(x, 4) })
	for i := 0; i < 8; i++ {
		for alt := 1; alt <= 2; alt++ {
			i, alt := i, alt
			mc.Register("C12", fmt.Sprintf("first-use-in-a-fresh-process/decision%d-alternative%d", i, alt), "both", func(x *mc.Cell) { c12FirstUseOneSchedule(x, i, alt) })
		}
	}
}
