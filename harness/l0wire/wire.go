package l0wire

import (
	"bytes"
	"fmt"
	"github.com/ipld/go-ipld-prime/schema"
	"sort"
	"strings"

	"github.com/ipfs/go-cid"
	"github.com/ipfs/go-graphsync"
	"github.com/ipld/go-ipld-prime"
	"github.com/ipld/go-ipld-prime/codec/dagcbor"
	"github.com/ipld/go-ipld-prime/datamodel"
	"github.com/ipld/go-ipld-prime/fluent/qp"
	cidlink "github.com/ipld/go-ipld-prime/linking/cid"
	"github.com/ipld/go-ipld-prime/node/basicnode"
	"github.com/ipld/go-ipld-prime/traversal/selector"
	"github.com/ipld/go-ipld-prime/traversal/selector/builder"
	"github.com/libp2p/go-libp2p/core/peer"
	mh "github.com/multiformats/go-multihash"

	datatransfer "github.com/filecoin-project/go-data-transfer/v2"
	"github.com/filecoin-project/go-data-transfer/v2/message"
	"github.com/filecoin-project/go-data-transfer/v2/message/types"
	"github.com/filecoin-project/go-data-transfer/v2/transport/graphsync/extension"

	"verif/doubles"
	"verif/mc"
)

// ---------------------------------------------------------------- domains

var transferIDs = []uint64{0, 1, 1 << 31, 1 << 32, 1<<53 + 1, 1<<63 - 1, 1 << 63, 1<<64 - 1}

func cids() []cid.Cid {
	h, _ := mh.Sum([]byte("x"), mh.SHA2_256, -1)
	idh, _ := mh.Sum([]byte("id"), mh.IDENTITY, -1)
	return []cid.Cid{cid.NewCidV0(h), cid.NewCidV1(cid.Raw, h), cid.NewCidV1(cid.DagCBOR, h), cid.NewCidV1(cid.Raw, idh)}
}

func selectors() []datamodel.Node {
	ssb := builder.NewSelectorSpecBuilder(basicnode.Prototype.Any)
	return []datamodel.Node{
		doubles.AllSelector(),
		ssb.Matcher().Node(),
		ssb.ExploreRecursive(selectorparse_limit(3), ssb.ExploreAll(ssb.ExploreRecursiveEdge())).Node(),
	}
}

// atoms of the voucher value family
func atoms() map[string]datamodel.Node {
	lnk := cidlink.Link{Cid: doubles.Cid("l")}
	return map[string]datamodel.Node{
		"true": basicnode.NewBool(true), "0": basicnode.NewInt(0), "-1": basicnode.NewInt(-1), "maxint": basicnode.NewInt(1<<63 - 1),
		"emptystr": basicnode.NewString(""), "s": basicnode.NewString("s"), "nonutf8": basicnode.NewString("\xff\xfe"),
		"bytes": basicnode.NewBytes([]byte{1, 2, 3}), "link": basicnode.NewLink(lnk), "1.5": basicnode.NewFloat(1.5),
	}
}

// values builds all IPLD values of depth <= depth over the atoms, plus empty
// list/map and maps built in non-canonical key order.
func values(depth int) map[string]datamodel.Node {
	out := map[string]datamodel.Node{}
	at := atoms()
	for k, v := range at {
		out[k] = v
	}
	el, _ := qp.BuildList(basicnode.Prototype.Any, -1, func(la datamodel.ListAssembler) {})
	em, _ := qp.BuildMap(basicnode.Prototype.Any, -1, func(ma datamodel.MapAssembler) {})
	out["[]"] = el
	out["{}"] = em
	if depth >= 2 {
		for k, v := range at {
			v := v
			l, _ := qp.BuildList(basicnode.Prototype.Any, -1, func(la datamodel.ListAssembler) {
				qp.ListEntry(la, qp.Node(v))
				qp.ListEntry(la, qp.Node(v))
			})
			out["["+k+"]"] = l
			m, _ := qp.BuildMap(basicnode.Prototype.Any, -1, func(ma datamodel.MapAssembler) {
				qp.MapEntry(ma, "zz", qp.Node(v))
				qp.MapEntry(ma, "a", qp.Node(v))
				qp.MapEntry(ma, "bbb", qp.Int(1))
			})
			out["{"+k+"}"] = m
		}
	}
	return out
}

var typeIDs = []string{"", "T", "тип-☃", strings.Repeat("x", 300)}

var peersDom = []peer.ID{doubles.PeerA, doubles.PeerB, peer.ID("\x00\xff arbitrary bytes"), peer.ID("")}

// ---------------------------------------------------------------- observation

// obs is everything observable about a message through its interface.
func obs(m datatransfer.Message) (s string, err error) {
	defer func() {
		if r := recover(); r != nil {
			err = fmt.Errorf("panic in accessor: %v", r)
		}
	}()
	var sb strings.Builder
	fmt.Fprintf(&sb, "req=%v new=%v restart=%v update=%v paused=%v cancel=%v id=%d", m.IsRequest(), m.IsNew(), m.IsRestart(), m.IsUpdate(), m.IsPaused(), m.IsCancel(), uint64(m.TransferID()))
	switch x := m.(type) {
	case datatransfer.Request:
		v, verr := x.Voucher()
		sel, serr := x.Selector()
		_, tverr := x.TypedVoucher()
		rc, rerr := x.RestartChannelId()
		_, _, _ = verr, tverr, serr
		fmt.Fprintf(&sb, " pull=%v isvoucher=%v vtype=%q voucher=%s cid=%s sel=%s rex=%v rc=%s/%s/%d rerr=%v",
			x.IsPull(), x.IsVoucher(), x.VoucherType(), noneOr(v), x.BaseCid(), noneOr(sel),
			x.IsRestartExistingChannelRequest(), []byte(rc.Initiator), []byte(rc.Responder), uint64(rc.ID), rerr != nil)
	case datatransfer.Response:
		v, verr := x.VoucherResult()
		_ = verr
		fmt.Fprintf(&sb, " validation=%v complete=%v accepted=%v vtype=%q vres=%s empty=%v",
			x.IsValidationResult(), x.IsComplete(), x.Accepted(), x.VoucherResultType(), noneOr(v), x.EmptyVoucherResult())
	default:
		return "", fmt.Errorf("message is neither Request nor Response: %T", m)
	}
	// every interface method must be callable
	_ = m.ToIPLD()
	var buf bytes.Buffer
	if e := m.ToNet(&buf); e != nil {
		fmt.Fprintf(&sb, " tonet-err")
	}
	_, _ = m.MessageForProtocol(datatransfer.ProtocolDataTransfer1_2)
	return sb.String(), nil
}

// kind classifies a message into exactly one primary kind (or reports how many matched).
func kind(m datatransfer.Message) (string, int) {
	var ks []string
	if rq, ok := m.(datatransfer.Request); ok {
		if rq.IsNew() {
			ks = append(ks, "new")
		}
		if rq.IsRestart() {
			ks = append(ks, "restart")
		}
		if rq.IsUpdate() {
			ks = append(ks, "update")
		}
		if rq.IsCancel() {
			ks = append(ks, "cancel")
		}
		if rq.IsVoucher() && !rq.IsNew() {
			ks = append(ks, "voucher")
		}
		if rq.IsRestartExistingChannelRequest() {
			ks = append(ks, "restart-existing")
		}
	} else if rs, ok := m.(datatransfer.Response); ok {
		if rs.IsNew() {
			ks = append(ks, "new")
		}
		if rs.IsRestart() {
			ks = append(ks, "restart")
		}
		if rs.IsUpdate() {
			ks = append(ks, "update")
		}
		if rs.IsCancel() {
			ks = append(ks, "cancel")
		}
		if rs.IsComplete() {
			ks = append(ks, "complete")
		}
		if rs.IsValidationResult() && !rs.IsNew() && !rs.IsRestart() && !rs.IsComplete() {
			ks = append(ks, "voucher-result")
		}
	}
	return strings.Join(ks, "+"), len(ks)
}

// ---------------------------------------------------------------- independent encoding

func encNode(n datamodel.Node) []byte {
	if n == nil || n.IsNull() {
		return []byte{0xf6}
	}
	if tn, ok := n.(schema.TypedNode); ok {
		n = tn.Representation() // as DAG-CBOR data a schema-typed value is its representation
	}
	var buf bytes.Buffer
	if err := dagcbor.Encode(n, &buf); err != nil {
		panic(err)
	}
	return buf.Bytes()
}

type reqFields struct {
	cid     *cid.Cid
	typ     uint64
	paus    bool
	part    bool
	pull    bool
	stor    datamodel.Node
	vouch   datamodel.Node
	vtyp    string
	xfer    uint64
	restart datatransfer.ChannelID
}

func (r reqFields) entries() []kv {
	bcid := []byte{0xf6}
	if r.cid != nil {
		bcid = one(func(e *enc) { e.link(*r.cid) })
	}
	return []kv{
		{"BCid", bcid},
		{"Type", one(func(e *enc) { e.uint(r.typ) })},
		{"Paus", one(func(e *enc) { e.boolean(r.paus) })},
		{"Part", one(func(e *enc) { e.boolean(r.part) })},
		{"Pull", one(func(e *enc) { e.boolean(r.pull) })},
		{"Stor", encNode(r.stor)},
		{"Vouch", encNode(r.vouch)},
		{"VTyp", one(func(e *enc) { e.text(r.vtyp) })},
		{"XferID", one(func(e *enc) { e.uint(r.xfer) })},
		{"RestartChannel", one(func(e *enc) {
			e.array(3)
			e.text(string(r.restart.Initiator))
			e.text(string(r.restart.Responder))
			e.uint(uint64(r.restart.ID))
		})},
	}
}

type respFields struct {
	typ  uint64
	acpt bool
	paus bool
	xfer uint64
	vres datamodel.Node
	vtyp string
}

func (r respFields) entries() []kv {
	return []kv{
		{"Type", one(func(e *enc) { e.uint(r.typ) })},
		{"Acpt", one(func(e *enc) { e.boolean(r.acpt) })},
		{"Paus", one(func(e *enc) { e.boolean(r.paus) })},
		{"XferID", one(func(e *enc) { e.uint(r.xfer) })},
		{"VRes", encNode(r.vres)},
		{"VTyp", one(func(e *enc) { e.text(r.vtyp) })},
	}
}

func topEntries(isReq bool, inner []byte) []kv {
	null := []byte{0xf6}
	req, resp := null, null
	if isReq {
		req = inner
	} else {
		resp = inner
	}
	return []kv{{"IsRq", one(func(e *enc) { e.boolean(isReq) })}, {"Request", req}, {"Response", resp}}
}

func encodeReq(r reqFields) []byte {
	return mapOf(canonical(topEntries(true, mapOf(canonical(r.entries())))))
}
func encodeResp(r respFields) []byte {
	return mapOf(canonical(topEntries(false, mapOf(canonical(r.entries())))))
}

// ---------------------------------------------------------------- round trips

type gsExt map[graphsync.ExtensionName]datamodel.Node

func (g gsExt) Extension(name graphsync.ExtensionName) (datamodel.Node, bool) {
	n, ok := g[name]
	return n, ok
}

// roundTrips sends m through the three codec paths and returns the decoded messages.
func roundTrips(m datatransfer.Message) (map[string]datatransfer.Message, []byte, error) {
	out := map[string]datatransfer.Message{}
	var buf bytes.Buffer
	if err := m.ToNet(&buf); err != nil {
		return nil, nil, fmt.Errorf("ToNet: %w", err)
	}
	wire := append([]byte(nil), buf.Bytes()...)
	d, err := message.FromNet(bytes.NewReader(wire))
	if err != nil {
		return nil, wire, fmt.Errorf("FromNet: %w", err)
	}
	out["net"] = d
	d2, err := message.FromIPLD(m.ToIPLD())
	if err != nil {
		return nil, wire, fmt.Errorf("FromIPLD: %w", err)
	}
	out["ipld"] = d2
	exts, err := extension.ToExtensionData(m, []graphsync.ExtensionName{extension.ExtensionDataTransfer1_1})
	if err != nil {
		return nil, wire, fmt.Errorf("ToExtensionData: %w", err)
	}
	// the extension node travels through graphsync as dag-cbor: re-encode/decode it generically
	var eb bytes.Buffer
	if err := dagcbor.Encode(exts[0].Data, &eb); err != nil {
		return nil, wire, fmt.Errorf("encode ext: %w", err)
	}
	nb := basicnode.Prototype.Any.NewBuilder()
	if err := dagcbor.Decode(nb, bytes.NewReader(eb.Bytes())); err != nil {
		return nil, wire, fmt.Errorf("decode ext: %w", err)
	}
	d3, err := extension.GetTransferData(gsExt{exts[0].Name: nb.Build()}, []graphsync.ExtensionName{extension.ExtensionDataTransfer1_1})
	if err != nil {
		return nil, wire, fmt.Errorf("GetTransferData: %w", err)
	}
	out["ext"] = d3
	if !bytes.Equal(eb.Bytes(), wire) {
		return out, wire, fmt.Errorf("extension bytes differ from network bytes")
	}
	return out, wire, nil
}

type built struct {
	name string
	msg  datatransfer.Message
	want []byte // independent encoding
	kind string
}

// checkBuilt runs the constructor-level oracles for one message.
func checkBuilt(x *mc.Cell, b built) {
	x.Executions++
	rep := map[string]any{"case": b.name}
	defer func() {
		if r := recover(); r != nil {
			x.Violate("C12", "panic;constructor-path;"+b.kind, fmt.Sprintf("%s: panic %v", b.name, r), rep)
		}
	}()
	o0, err := obs(b.msg)
	if err != nil {
		x.Violate("C12", "accessor-panic;"+b.kind, b.name+": "+err.Error(), rep)
		return
	}
	k, nk := kind(b.msg)
	if nk != 1 || k != b.kind {
		x.Violate("C12", fmt.Sprintf("classification;want=%s;got=%s", b.kind, k), fmt.Sprintf("%s classified as %q", b.name, k), rep)
	}
	dec, wire, err := roundTrips(b.msg)
	if err != nil {
		x.Violate("C12", "roundtrip-error;"+b.kind+";"+errClass(err), fmt.Sprintf("%s: %v", b.name, err), rep)
		return
	}
	for path, d := range dec {
		o, err := obs(d)
		if err != nil {
			x.Violate("C12", "accessor-panic-after-decode;"+b.kind, b.name+": "+err.Error(), rep)
			continue
		}
		if o != o0 {
			x.Violate("C12", fmt.Sprintf("roundtrip-mismatch;path=%s;kind=%s;field=%s", path, b.kind, firstDiff(o0, o)), fmt.Sprintf("%s via %s:\n  built:   %s\n  decoded: %s", b.name, path, o0, o), rep)
		}
	}
	if b.want != nil && !bytes.Equal(wire, b.want) {
		x.Violate("C12", "bytes-differ-from-schema-encoding;"+b.kind, fmt.Sprintf("%s:\n  library: %x\n  schema:  %x", b.name, wire, b.want), rep)
	}
	x.Outcome(o0)
	if len(wire) > 0 {
		x.State(string(wire))
	}
	x.Premise++
}

func errClass(err error) string {
	s := err.Error()
	if i := strings.Index(s, ":"); i > 0 {
		return s[:i]
	}
	return s
}

func firstDiff(a, b string) string {
	fa, fb := strings.Fields(a), strings.Fields(b)
	for i := range fa {
		if i >= len(fb) || fa[i] != fb[i] {
			if j := strings.Index(fa[i], "="); j > 0 {
				return fa[i][:j]
			}
			return fa[i]
		}
	}
	return "?"
}

func tvPtr(typ string, n datamodel.Node) *datatransfer.TypedVoucher {
	return &datatransfer.TypedVoucher{Type: datatransfer.TypeIdentifier(typ), Voucher: n}
}

func nodeOrNull(n datamodel.Node) datamodel.Node {
	if n == nil {
		return datamodel.Null
	}
	return n
}

// allBuilt enumerates constructor calls. full=false takes a systematic subset of the value family.
func allBuilt(full bool, emit func(b built)) {
	vals := values(2)
	if !full {
		vals = values(1)
		v2 := values(2)
		for _, k := range []string{"{s}", "[link]", "{nonutf8}", "[1.5]", "{maxint}"} {
			vals[k] = v2[k]
		}
	}
	vals["null"] = datamodel.Null
	vals["nil"] = nil
	// schema-typed values (bindnode) whose representation differs from the type-level view
	nf := doubles.NodeFamily()
	vals["typed_tuple"] = nf["typed_tuple"]
	vals["typed_renamed"] = nf["typed_renamed"]
	// payload sizes on the far side of the CBOR length-header widths
	for _, k := range []string{"string_300", "bytes_70000", "list_30"} {
		vals[k] = nf[k]
	}
	valKeys := make([]string, 0, len(vals))
	for k := range vals {
		valKeys = append(valKeys, k)
	}
	sort.Strings(valKeys) // deterministic enumeration order
	cs := cids()
	sels := selectors()
	ids := transferIDs
	if !full {
		ids = []uint64{0, 1 << 32, 1<<63 - 1, 1 << 63, 1<<64 - 1}
	}
	for _, id := range ids {
		tid := datatransfer.TransferID(id)
		for _, vk := range valKeys {
			v := vals[vk]
			for ti, typ := range typeIDs {
				if !full && ti >= 2 && vk != "s" {
					continue
				}
				tv := tvPtr(typ, v)
				ev := nodeOrNull(v)
				// requests: new/restart x push/pull
				for _, restart := range []bool{false, true} {
					for _, pull := range []bool{false, true} {
						for ci, c := range cs {
							for si, sel := range sels {
								if !full && (ci+si)%3 != 0 && vk != "s" {
									continue
								}
								c := c
								rq, err := message.NewRequest(tid, restart, pull, tv, c, sel)
								if err != nil {
									continue
								}
								t := uint64(types.NewMessage)
								k := "new"
								if restart {
									t = uint64(types.RestartMessage)
									k = "restart"
								}
								emit(built{fmt.Sprintf("NewRequest(id=%d,restart=%v,pull=%v,v=%s,typ=%d,cid=%d,sel=%d)", id, restart, pull, vk, ti, ci, si), rq,
									encodeReq(reqFields{cid: &c, typ: t, pull: pull, stor: sel, vouch: ev, vtyp: typ, xfer: id}), k})
							}
						}
					}
				}
				vr, _ := message.VoucherRequest(tid, tv)
				emit(built{fmt.Sprintf("VoucherRequest(id=%d,v=%s,typ=%d)", id, vk, ti), vr, encodeReq(reqFields{typ: uint64(types.VoucherMessage), vouch: ev, vtyp: typ, xfer: id}), "voucher"})
				for _, acc := range []bool{false, true} {
					for _, pa := range []bool{false, true} {
						r1, _ := message.NewResponse(tid, acc, pa, tv)
						emit(built{fmt.Sprintf("NewResponse(id=%d,%v,%v,v=%s,typ=%d)", id, acc, pa, vk, ti), r1, encodeResp(respFields{typ: uint64(types.NewMessage), acpt: acc, paus: pa, xfer: id, vres: ev, vtyp: typ}), "new"})
						r2, _ := message.RestartResponse(tid, acc, pa, tv)
						emit(built{fmt.Sprintf("RestartResponse(id=%d,%v,%v,v=%s,typ=%d)", id, acc, pa, vk, ti), r2, encodeResp(respFields{typ: uint64(types.RestartMessage), acpt: acc, paus: pa, xfer: id, vres: ev, vtyp: typ}), "restart"})
						r3, _ := message.VoucherResultResponse(tid, acc, pa, tv)
						emit(built{fmt.Sprintf("VoucherResultResponse(id=%d,%v,%v,v=%s,typ=%d)", id, acc, pa, vk, ti), r3, encodeResp(respFields{typ: uint64(types.VoucherResultMessage), acpt: acc, paus: pa, xfer: id, vres: ev, vtyp: typ}), "voucher-result"})
						r4, _ := message.CompleteResponse(tid, acc, pa, tv)
						emit(built{fmt.Sprintf("CompleteResponse(id=%d,%v,%v,v=%s,typ=%d)", id, acc, pa, vk, ti), r4, encodeResp(respFields{typ: uint64(types.CompleteMessage), acpt: acc, paus: pa, xfer: id, vres: ev, vtyp: typ}), "complete"})
					}
				}
			}
		}
		// nil voucher pointers
		rqn, _ := message.NewRequest(tid, false, false, nil, cs[1], sels[0])
		c1 := cs[1]
		emit(built{fmt.Sprintf("NewRequest(id=%d,nil voucher)", id), rqn, encodeReq(reqFields{cid: &c1, typ: 0, stor: sels[0], xfer: id}), "new"})
		emit(built{fmt.Sprintf("CancelRequest(%d)", id), message.CancelRequest(tid), encodeReq(reqFields{typ: uint64(types.CancelMessage), xfer: id}), "cancel"})
		emit(built{fmt.Sprintf("CancelResponse(%d)", id), message.CancelResponse(tid), encodeResp(respFields{typ: uint64(types.CancelMessage), xfer: id}), "cancel"})
		for _, pa := range []bool{false, true} {
			emit(built{fmt.Sprintf("UpdateRequest(%d,%v)", id, pa), message.UpdateRequest(tid, pa), encodeReq(reqFields{typ: uint64(types.UpdateMessage), paus: pa, xfer: id}), "update"})
			emit(built{fmt.Sprintf("UpdateResponse(%d,%v)", id, pa), message.UpdateResponse(tid, pa), encodeResp(respFields{typ: uint64(types.UpdateMessage), paus: pa, xfer: id}), "update"})
		}
		for pi, p1 := range peersDom {
			for pj, p2 := range peersDom {
				chid := datatransfer.ChannelID{Initiator: p1, Responder: p2, ID: tid}
				emit(built{fmt.Sprintf("RestartExistingChannelRequest(%d,%d,%d)", pi, pj, id), message.RestartExistingChannelRequest(chid),
					encodeReq(reqFields{typ: uint64(types.RestartExistingChannelRequestMessage), restart: chid}), "restart-existing"})
			}
		}
	}
}

// validationResponses: ValidationResultResponse x message types x err x Accepted
func validationResponses(x *mc.Cell) {
	res := doubles.Voucher("R", "r")
	for mt := types.NewMessage; mt <= types.RestartExistingChannelRequestMessage; mt++ {
		for _, hasErr := range []bool{false, true} {
			for _, acc := range []bool{false, true} {
				for _, paused := range []bool{false, true} {
					for _, withRes := range []int{0, 1, 2} {
						x.Executions++
						vr := datatransfer.ValidationResult{Accepted: acc}
						switch withRes {
						case 1:
							vr.VoucherResult = &res
						case 2:
							vr.VoucherResult = &datatransfer.TypedVoucher{Type: "R"}
						}
						var verr error
						if hasErr {
							verr = fmt.Errorf("validation failed")
						}
						m, err := message.ValidationResultResponse(mt, 7, vr, verr, paused)
						name := fmt.Sprintf("ValidationResultResponse(type=%d,err=%v,accepted=%v,paused=%v,res=%d)", mt, hasErr, acc, paused, withRes)
						if err != nil || m == nil {
							x.Violate("C12", "validation-response-construct-error", name, nil)
							continue
						}
						if m.Accepted() != (!hasErr && acc) {
							x.Violate("C12", fmt.Sprintf("validation-response-accepted;err=%v;accepted=%v", hasErr, acc), fmt.Sprintf("%s reports Accepted()=%v", name, m.Accepted()), map[string]any{"case": name})
						}
						if m.IsPaused() != paused || uint64(m.TransferID()) != 7 {
							x.Violate("C12", "validation-response-fields", name, nil)
						}
						if withRes != 2 {
							dec, _, rerr := roundTrips(m)
							if rerr != nil {
								x.Violate("C12", "validation-response-roundtrip;"+errClass(rerr), name+": "+rerr.Error(), nil)
							} else if rs, ok := dec["net"].(datatransfer.Response); !ok || rs.Accepted() != m.Accepted() {
								x.Violate("C12", "validation-response-roundtrip-accepted", name, nil)
							}
						}
						o, _ := obs(m)
						x.Outcome(o)
						x.Premise++
					}
				}
			}
		}
	}
}

var _ = ipld.DeepEqual

func selectorparse_limit(n int64) selector.RecursionLimit { return selector.RecursionLimitDepth(n) }

// noneOr renders a node; nil and Null both mean "none" (the property: null means none).
func noneOr(n datamodel.Node) string {
	if n == nil || n.IsNull() {
		return "none"
	}
	return doubles.NodeBytes(n)
}
