package l2monitor

import (
	"testing"

	"verif/mc"
)

func TestCheck(t *testing.T) { mc.Main(t, "l2monitor") }
