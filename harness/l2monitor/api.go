// Package l2monitor drives the real channel monitor black-box over a recording,
// controllable double of the manager API it uses.
package l2monitor

import (
	"context"
	"errors"
	"fmt"
	"sync"
	"time"

	"github.com/libp2p/go-libp2p/core/peer"

	datatransfer "github.com/filecoin-project/go-data-transfer/v2"

	"verif/doubles"
	"verif/shim/core"
)

var ErrAPI = errors.New("scripted api failure")

// APICall is one call the monitor made.
type APICall struct {
	Seq        int64
	Kind       string // connect, restart, close
	Start      time.Time
	End        time.Time
	Ended      bool
	Err        error
	CloseErr   string
	done       chan error
	Overlap    bool // started while another connect/restart call of the channel was still in flight
	AfterUnsub bool
}

// MonAPI is the double of the manager API used by the monitor.
type MonAPI struct {
	mu         sync.Mutex
	Calls      []*APICall
	subs       map[int]datatransfer.Subscriber
	nextSub    int
	Unsubs     int
	Subscribes int
	// Park makes every connect/restart/close call wait until the explorer completes it.
	Park bool
	// Answer gives the immediate answer when Park is false.
	Answer func(kind string, n int) error
	// Yield, when true, passes through a scheduling point inside each call (thread-level exploration).
	Yield bool
	Start time.Time
}

func NewMonAPI() *MonAPI { return &MonAPI{subs: map[int]datatransfer.Subscriber{}, Start: time.Now()} }

func (m *MonAPI) SubscribeToEvents(s datatransfer.Subscriber) datatransfer.Unsubscribe {
	m.mu.Lock()
	id := m.nextSub
	m.nextSub++
	m.subs[id] = s
	m.Subscribes++
	yield := m.Yield
	m.mu.Unlock()
	if yield {
		// the subscriber is live before the caller has the unsubscribe function in hand
		core.Point("stmt", "monapi:subscribe:return")
	}
	return func() {
		m.mu.Lock()
		if _, ok := m.subs[id]; ok {
			delete(m.subs, id)
			m.Unsubs++
		}
		m.mu.Unlock()
	}
}

// Subscribed is the number of live subscriptions.
func (m *MonAPI) Subscribed() int {
	m.mu.Lock()
	defer m.mu.Unlock()
	return len(m.subs)
}

// Deliver calls every live subscriber (like the manager's publisher does).
func (m *MonAPI) Deliver(code datatransfer.EventCode, chid datatransfer.ChannelID, status datatransfer.Status) {
	m.mu.Lock()
	var ss []datatransfer.Subscriber
	for i := 0; i < m.nextSub; i++ {
		if s, ok := m.subs[i]; ok {
			ss = append(ss, s)
		}
	}
	m.mu.Unlock()
	for _, s := range ss {
		s(datatransfer.Event{Code: code}, stubState{chid: chid, status: status})
	}
}

type stubState struct {
	datatransfer.ChannelState
	chid   datatransfer.ChannelID
	status datatransfer.Status
}

func (s stubState) ChannelID() datatransfer.ChannelID { return s.chid }
func (s stubState) Status() datatransfer.Status       { return s.status }

func (m *MonAPI) call(ctx context.Context, kind string, closeErr error) error {
	c := &APICall{Seq: doubles.NextSeq(), Kind: kind, Start: time.Now(), done: make(chan error, 1)}
	if closeErr != nil {
		c.CloseErr = closeErr.Error()
	}
	m.mu.Lock()
	n := 0
	for _, o := range m.Calls {
		if o.Kind == kind {
			n++
		}
		if !o.Ended && (o.Kind == "connect" || o.Kind == "restart") && (kind == "connect" || kind == "restart") {
			c.Overlap = true
		}
	}
	c.AfterUnsub = len(m.subs) == 0
	m.Calls = append(m.Calls, c)
	park, yield, ans := m.Park, m.Yield, m.Answer
	m.mu.Unlock()
	var err error
	if yield {
		core.Point("stmt", "monapi:"+kind)
	}
	if park {
		select {
		case err = <-c.done:
		case <-ctx.Done():
			err = ctx.Err()
		}
	} else if ans != nil {
		err = ans(kind, n)
	}
	if yield {
		core.Point("stmt", "monapi:"+kind+":return")
	}
	m.mu.Lock()
	c.Ended, c.End, c.Err = true, time.Now(), err
	m.mu.Unlock()
	return err
}

func (m *MonAPI) RestartDataTransferChannel(ctx context.Context, chid datatransfer.ChannelID) error {
	return m.call(ctx, "restart", nil)
}
func (m *MonAPI) CloseDataTransferChannelWithError(ctx context.Context, chid datatransfer.ChannelID, cherr error) error {
	return m.call(ctx, "close", cherr)
}
func (m *MonAPI) ConnectTo(ctx context.Context, p peer.ID) error { return m.call(ctx, "connect", nil) }
func (m *MonAPI) PeerID() peer.ID                                { return doubles.PeerA }

// Pending returns the kinds of the calls still in flight, oldest first.
func (m *MonAPI) Pending() []string {
	m.mu.Lock()
	defer m.mu.Unlock()
	var out []string
	for _, c := range m.Calls {
		if !c.Ended {
			out = append(out, c.Kind)
		}
	}
	return out
}

// Complete answers the oldest pending call.
func (m *MonAPI) Complete(err error) bool {
	m.mu.Lock()
	var c *APICall
	for _, x := range m.Calls {
		if !x.Ended {
			c = x
			break
		}
	}
	m.mu.Unlock()
	if c == nil {
		return false
	}
	c.done <- err
	return true
}

// Log renders the call log canonically ("connect+ restart! close." : + ok, ! error, ~ pending).
func (m *MonAPI) Log() string {
	m.mu.Lock()
	defer m.mu.Unlock()
	s := ""
	for _, c := range m.Calls {
		mark := "~"
		if c.Ended {
			mark = "+"
			if c.Err != nil {
				mark = "!"
			}
		}
		s += fmt.Sprintf("%s%s@%d ", c.Kind, mark, c.Start.Sub(m.Start)/time.Second)
	}
	return s
}

// Count counts calls of a kind.
func (m *MonAPI) Count(kind string) int {
	m.mu.Lock()
	defer m.mu.Unlock()
	n := 0
	for _, c := range m.Calls {
		if c.Kind == kind {
			n++
		}
	}
	return n
}

// Snapshot copies the call log.
func (m *MonAPI) Snapshot() []APICall {
	m.mu.Lock()
	defer m.mu.Unlock()
	out := make([]APICall, len(m.Calls))
	for i, c := range m.Calls {
		out[i] = *c
	}
	return out
}
