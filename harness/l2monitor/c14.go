package l2monitor

import (
	"fmt"
	"strings"
	"time"

	datatransfer "github.com/filecoin-project/go-data-transfer/v2"
	"github.com/filecoin-project/go-data-transfer/v2/channelmonitor"

	"verif/doubles"
	"verif/mc"
)

const u = time.Second

type cfg struct {
	Max               uint32
	Accept, Complete  int // in units; 0 = disabled
	Debounce, Backoff int
	Push              bool
}

func (c cfg) String() string {
	return fmt.Sprintf("max=%d accept=%du complete=%du debounce=%du backoff=%du push=%v", c.Max, c.Accept, c.Complete, c.Debounce, c.Backoff, c.Push)
}

func (c cfg) config() *channelmonitor.Config {
	return &channelmonitor.Config{AcceptTimeout: time.Duration(c.Accept) * u, CompleteTimeout: time.Duration(c.Complete) * u,
		RestartDebounce: time.Duration(c.Debounce) * u, RestartBackoff: time.Duration(c.Backoff) * u, MaxConsecutiveRestarts: c.Max}
}

var chid = datatransfer.ChannelID{Initiator: doubles.PeerA, Responder: doubles.PeerB, ID: 1}
var otherChid = datatransfer.ChannelID{Initiator: doubles.PeerA, Responder: doubles.PeerB, ID: 2}

var opNames = []string{"ev:Accept", "ev:SendDataError", "ev:ReceiveDataError", "ev:DataSent", "ev:FinishTransfer", "ev:PauseInitiator", "ev:status=Cancelling", "ev:status=Completed",
	"ev:other-channel-error", "tick", "complete-ok", "complete-error", "add-again", "monitor-shutdown"}

// ref is the property-level reference of one monitored channel (exact for debounce=0, backoff=0).
type ref struct {
	c                  cfg
	now                int
	acceptAt           int // time Accept was delivered (-1 none)
	finishAts          []int
	shutAt             int // time the monitor saw a cleanup/terminal status or closed (-1 none)
	inFlight, queued   bool
	consec             int
	pending            string // kind of the call the monitor must be waiting on ("" none)
	connects, restarts int
	closes             int
	reason             string
	exact              bool
}

func newRef(c cfg) *ref {
	return &ref{c: c, acceptAt: -1, shutAt: -1, exact: c.Debounce == 0 && c.Backoff == 0}
}

func (r *ref) shut() bool { return r.shutAt >= 0 }

func (r *ref) closeWith(reason string) {
	if r.shut() {
		return
	}
	r.closes++
	r.reason = reason
	r.shutAt = r.now
	r.pending = ""
	r.inFlight = false
}

func (r *ref) startAttempt() {
	r.consec++
	if uint32(r.consec) > r.c.Max {
		r.closeWith("max-consecutive-restarts")
		return
	}
	r.inFlight = true
	r.pending = "connect"
	r.connects++
}

func (r *ref) trigger() {
	if r.shut() {
		return
	}
	if r.inFlight {
		r.queued = true
		return
	}
	r.startAttempt()
}

func (r *ref) complete(ok bool) {
	if r.pending == "" {
		return
	}
	k := r.pending
	r.pending = ""
	if !ok {
		r.startAttempt() // the monitor retries until the consecutive limit is exceeded
		return
	}
	if k == "connect" {
		r.pending = "restart"
		r.restarts++
		return
	}
	// restart message sent: the attempt is over
	r.inFlight = false
	if r.queued {
		r.queued = false
		r.startAttempt()
	}
}

func (r *ref) timers() {
	if r.shut() {
		return
	}
	if r.c.Accept > 0 && r.now >= r.c.Accept && (r.acceptAt < 0 || r.acceptAt >= r.c.Accept) {
		r.closeWith("accept-timeout")
		return
	}
	if r.c.Complete > 0 {
		for _, f := range r.finishAts {
			if r.now >= f+r.c.Complete {
				r.closeWith("complete-timeout")
				return
			}
		}
	}
}

func (r *ref) key() string {
	return fmt.Sprintf("t%d a%d f%v s%d if%v q%v c%d p%s n%d/%d/%d", r.now, r.acceptAt, r.finishAts, r.shutAt, r.inFlight, r.queued, r.consec, r.pending, r.connects, r.restarts, r.closes)
}

func c14BFS(x *mc.Cell, c cfg, depth int) {
	name := "c14/" + c.String()
	opName := func(i int) string { return opNames[i] }
	x.BFS(name, mc.BFSOpts{NumOps: len(opNames), MaxDepth: depth, OpName: opName}, func(hist []int) (string, bool) {
		key, enabled := "", true
		rep := mc.BFSReplay(name, hist, opName)
		pv, stack := mc.Bubble(x.T, func() {
			api := NewMonAPI()
			api.Park = true
			mon := channelmonitor.NewMonitor(api, c.config())
			add := func() bool {
				if c.Push {
					return mon.AddPushChannel(chid) != nil
				}
				return mon.AddPullChannel(chid) != nil
			}
			if !add() {
				panic("first add refused")
			}
			r := newRef(c)
			flush := func() { mc.Wait(); time.Sleep(time.Nanosecond); mc.Wait() }
			flush()
			defer func() {
				// teardown: answer everything, let timers expire, shut down
				mon.Shutdown()
				api.Deliver(datatransfer.CleanupComplete, chid, datatransfer.Cancelled)
				for i := 0; i < 50; i++ {
					flush()
					if !api.Complete(ErrAPI) {
						break
					}
				}
				time.Sleep(40 * u)
				for i := 0; i < 50; i++ {
					flush()
					if !api.Complete(ErrAPI) {
						break
					}
				}
				mc.Wait()
			}()
			ended := false
			var terminalSeq int64 = -1
			for hi, op := range hist {
				last := hi == len(hist)-1
				if ended {
					if last {
						enabled = false
					}
					return
				}
				switch opNames[op] {
				case "ev:Accept":
					api.Deliver(datatransfer.Accept, chid, datatransfer.Ongoing)
					if r.acceptAt < 0 {
						r.acceptAt = r.now
					}
				case "ev:SendDataError":
					api.Deliver(datatransfer.SendDataError, chid, datatransfer.Ongoing)
					r.trigger()
				case "ev:ReceiveDataError":
					api.Deliver(datatransfer.ReceiveDataError, chid, datatransfer.Ongoing)
					r.trigger()
				case "ev:DataSent":
					api.Deliver(datatransfer.DataSent, chid, datatransfer.Ongoing)
					if !r.shut() {
						r.consec = 0
					}
				case "ev:FinishTransfer":
					api.Deliver(datatransfer.FinishTransfer, chid, datatransfer.TransferFinished)
					if !r.shut() {
						r.finishAts = append(r.finishAts, r.now)
					}
				case "ev:PauseInitiator":
					api.Deliver(datatransfer.PauseInitiator, chid, datatransfer.Ongoing)
				case "ev:status=Cancelling":
					if terminalSeq < 0 && api.Subscribed() > 0 {
						terminalSeq = doubles.NextSeq()
					}
					api.Deliver(datatransfer.Cancel, chid, datatransfer.Cancelling)
					if !r.shut() {
						r.shutAt = r.now
						r.pending = ""
					}
				case "ev:status=Completed":
					if terminalSeq < 0 && api.Subscribed() > 0 {
						terminalSeq = doubles.NextSeq()
					}
					api.Deliver(datatransfer.CleanupComplete, chid, datatransfer.Completed)
					if !r.shut() {
						r.shutAt = r.now
						r.pending = ""
					}
				case "ev:other-channel-error":
					api.Deliver(datatransfer.SendDataError, otherChid, datatransfer.Failed)
				case "tick":
					if r.now >= 12 {
						if last {
							enabled = false
						}
						return
					}
					time.Sleep(u)
					r.now++
					r.timers()
				case "complete-ok", "complete-error":
					if len(api.Pending()) == 0 {
						if last {
							enabled = false
						}
						return
					}
					k := api.Pending()[0]
					ok := opNames[op] == "complete-ok"
					if ok {
						api.Complete(nil)
					} else {
						api.Complete(ErrAPI)
					}
					if k != "close" && !r.shut() {
						r.complete(ok)
					}
				case "add-again":
					flush()
					got := add()
					want := r.shut() || api.Count("close") > 0 // the monitor also forgets a channel it closed itself
					// with a back-off or debounce the reference does not know *when* the monitor gives up after too many
					// attempts: until the close call is visible the answer is not determined
					indeterminate := !r.exact && r.reason == "max-consecutive-restarts" && api.Count("close") == 0
					if last && !indeterminate && got != want {
						x.Violate("C14", fmt.Sprintf("add-again;accepted=%v;want=%v", got, want), fmt.Sprintf("%s history=%v: adding the same channel again was accepted=%v; the monitor %s; api log: %s", c, rep.(map[string]any)["ops"], got, map[bool]string{true: "had seen the channel end and must have forgotten it", false: "is still monitoring it"}[want], api.Log()), rep)
					}
					if got {
						ended = true
					}
				case "monitor-shutdown":
					mon.Shutdown()
				}
				flush()
				if !last {
					continue
				}
				x.Premise++
				// ---------------- invariants on the API log
				calls := api.Snapshot()
				viol := func(sig, msg string) {
					x.Violate("C14", sig, fmt.Sprintf("%s history=%v: %s\n  api log: %s\n  reference: %s", c, rep.(map[string]any)["ops"], msg, api.Log(), r.key()), rep)
				}
				closes := 0
				connSinceData := 0
				_ = connSinceData
				for _, cl := range calls {
					if cl.Overlap {
						viol("overlapping-restart-attempts", "a restart attempt started while another one was in flight")
					}
					if cl.Kind == "close" {
						closes++
					}
				}
				if closes > 1 {
					viol(fmt.Sprintf("closed-more-than-once;closes=%d", closes), "the channel was closed with an error more than once")
				}
				if closes != r.closes {
					if r.exact || r.reason == "accept-timeout" || r.reason == "complete-timeout" || (closes > 0 && r.closes == 0 && r.consec == 0 && r.connects == 0) {
						viol(fmt.Sprintf("close-count=%d;want=%d;reason=%s", closes, r.closes, r.reason), "close-with-error calls differ from the reference")
					}
				}
				if r.exact && !ended {
					if !r.shut() {
						nc, nr := api.Count("connect"), api.Count("restart")
						if nc != r.connects || nr != r.restarts {
							viol(fmt.Sprintf("attempts;connect=%d/%d;restart=%d/%d", nc, r.connects, nr, r.restarts), "number of reconnect / restart calls differs from the reference (serialized, queued once, bounded)")
						}
						pend := api.Pending()
						var pk []string
						for _, k := range pend {
							if k != "close" {
								pk = append(pk, k)
							}
						}
						want := []string{}
						if r.pending != "" {
							want = append(want, r.pending)
						}
						if strings.Join(pk, ",") != strings.Join(want, ",") {
							viol("pending-call;got="+strings.Join(pk, ",")+";want="+strings.Join(want, ","), "the call the monitor is waiting on differs from the reference")
						}
					}
				}
				// after the monitor saw a cleanup / terminal status: unsubscribed, no later close
				if terminalSeq >= 0 {
					if api.Subscribed() != 0 && !ended {
						viol("still-subscribed-after-terminal", "the monitor is still subscribed after it saw the channel end")
					}
					for _, cl := range calls {
						if cl.Kind == "close" && cl.Seq > terminalSeq {
							viol("closed-after-terminal", "the channel was closed with an error after the monitor had seen it end")
						}
					}
				}
			}
			key = r.key() + "|" + api.Log() + fmt.Sprintf("|sub%d end%v", api.Subscribed(), ended)
		})
		if pv != nil {
			if _, ok := pv.(mc.ErrDiverged); ok {
				panic(pv)
			}
			x.Violate("C14", "panic", fmt.Sprintf("%v\n%s", pv, stack), rep)
			return "panic", false
		}
		return key, enabled
	})
}

// c14Disabled: with monitoring disabled nothing is ever restarted or closed.
func c14Disabled(x *mc.Cell) {
	x.Executions++
	mc.Bubble(x.T, func() {
		api := NewMonAPI()
		mon := channelmonitor.NewMonitor(api, nil)
		a, b := mon.AddPushChannel(chid), mon.AddPullChannel(otherChid)
		for _, code := range []datatransfer.EventCode{datatransfer.SendDataError, datatransfer.ReceiveDataError, datatransfer.FinishTransfer, datatransfer.Accept} {
			api.Deliver(code, chid, datatransfer.Ongoing)
		}
		time.Sleep(1000 * u)
		mc.Wait()
		x.Premise++
		x.Outcome("disabled")
		x.State("disabled")
		x.State("disabled2")
		if a != nil || b != nil || len(api.Snapshot()) != 0 || api.Subscribes != 0 {
			x.Violate("C14", "disabled-monitor-acted", fmt.Sprintf("with a nil config the monitor returned %v/%v, subscribed %d times and made calls: %s", a != nil, b != nil, api.Subscribes, api.Log()), nil)
		}
		mon.Shutdown()
	})
}

func init() {
	quick := []cfg{
		{Max: 2, Accept: 3, Complete: 4, Push: true},
		{Max: 1, Accept: 0, Complete: 0, Push: false},
		{Max: 2, Accept: 2, Complete: 0, Debounce: 1, Backoff: 2, Push: true},
		// a short complete timeout alone: it can expire while a restart attempt is in flight within the depth bound
		{Max: 2, Accept: 0, Complete: 2, Push: false},
	}
	for _, c := range quick {
		c := c
		mc.Register("C14", "monitor-bfs/"+c.String(), "quick", func(x *mc.Cell) { c14BFS(x, c, 6) })
	}
	for _, max := range []uint32{1, 2, 3} {
		for _, acc := range []int{0, 2, 3} {
			for _, comp := range []int{0, 2, 3} {
				for _, deb := range []int{0, 1} {
					for _, back := range []int{0, 2} {
						c := cfg{Max: max, Accept: acc, Complete: comp, Debounce: deb, Backoff: back, Push: (acc+comp)%2 == 0}
						mc.Register("C14", "monitor-bfs/"+c.String(), "thorough", func(x *mc.Cell) { c14BFS(x, c, 6) })
					}
				}
			}
		}
	}
	mc.Register("C14", "monitor-disabled", "both", c14Disabled)
}
