// Package l1chan drives the real channels.Channels (real go-statemachine,
// statestore, versioned FSM) over a recording datastore and environment.
package l1chan

import (
	"context"
	"errors"
	"fmt"
	"sync"
	"time"

	"github.com/libp2p/go-libp2p/core/peer"

	datatransfer "github.com/filecoin-project/go-data-transfer/v2"
	"github.com/filecoin-project/go-data-transfer/v2/channels"

	"verif/doubles"
	"verif/mc"
	"verif/views"
)

// Ev is one notifier call.
type Ev struct {
	Code datatransfer.EventCode
	Chid datatransfer.ChannelID
	Vec  views.Vec
	St   datatransfer.ChannelState
}

// Sys is one real Channels instance plus its doubles.
type Sys struct {
	DS  *doubles.RecDS
	Env *doubles.RecEnv
	Ch  *channels.Channels

	mu         sync.Mutex
	Events     []Ev
	lastDupErr error
	// WritesAtEvent[i] = number of datastore writes that had happened when event i was announced
	WritesAtEvent []int
}

// Role of the local node (always peer A) in a channel with peer B.
type Role int

const (
	InitPush Role = iota // A initiated, A sends
	InitPull             // A initiated, B sends
	RespPush             // B initiated a push: B sends, A receives (A = responder)
	RespPull             // B initiated a pull: A sends
)

var RoleNames = []string{"created-push", "created-pull", "received-push", "received-pull"}

func (r Role) Initiator() bool { return r == InitPush || r == InitPull }

// NewSys opens Channels on ds (a fresh one when nil) and starts it.
func NewSys(ds *doubles.RecDS) (*Sys, error) {
	if ds == nil {
		ds = doubles.NewRecDS()
	}
	s := &Sys{DS: ds, Env: &doubles.RecEnv{Self: doubles.PeerA}}
	ch, err := channels.New(ds, s.notify, s.Env, doubles.PeerA)
	if err != nil {
		return nil, err
	}
	s.Ch = ch
	if err := ch.Start(context.Background()); err != nil {
		return nil, err
	}
	return s, nil
}

func (s *Sys) notify(evt datatransfer.Event, st datatransfer.ChannelState) {
	v := views.Of(st)
	s.mu.Lock()
	s.Events = append(s.Events, Ev{Code: evt.Code, Chid: st.ChannelID(), Vec: v, St: st})
	s.WritesAtEvent = append(s.WritesAtEvent, s.DS.NumWrites())
	s.mu.Unlock()
}

// NumEvents returns the number of notifier calls so far.
func (s *Sys) NumEvents() int {
	s.mu.Lock()
	defer s.mu.Unlock()
	return len(s.Events)
}

// EventsFrom returns a copy of the events from index i.
func (s *Sys) EventsFrom(i int) []Ev {
	s.mu.Lock()
	defer s.mu.Unlock()
	return append([]Ev(nil), s.Events[i:]...)
}

// Stop stops the state machines (needed before a bubble ends).
func (s *Sys) Stop() {
	_ = s.Ch.Stop(context.Background())
	mc.Wait()
}

// Parties returns (initiator, sender, receiver) for a role.
func Parties(r Role) (ini, snd, rcv peer.ID) {
	switch r {
	case InitPush:
		return doubles.PeerA, doubles.PeerA, doubles.PeerB
	case InitPull:
		return doubles.PeerA, doubles.PeerB, doubles.PeerA
	case RespPush:
		return doubles.PeerB, doubles.PeerB, doubles.PeerA
	default:
		return doubles.PeerB, doubles.PeerA, doubles.PeerB
	}
}

// Create creates and opens a channel of the given role with transfer id tid.
func (s *Sys) Create(r Role, tid uint64, v datatransfer.TypedVoucher) (datatransfer.ChannelID, error) {
	ini, snd, rcv := Parties(r)
	chid, err := s.Ch.CreateNew(doubles.PeerA, datatransfer.TransferID(tid), doubles.Cid("root"), doubles.AllSelector(), v, ini, snd, rcv)
	if err != nil {
		return chid, err
	}
	if err := s.Ch.Open(chid); err != nil {
		return chid, err
	}
	mc.Wait()
	return chid, nil
}

// Get reads the state (flushes queued events first).
func (s *Sys) Get(chid datatransfer.ChannelID) (datatransfer.ChannelState, error) {
	// bounded in virtual time: a query that is never answered (e.g. the channel's state machine died) comes back
	// with an error instead of ending the bubble in a deadlock panic
	ctx, cancel := context.WithTimeout(context.Background(), time.Hour)
	defer cancel()
	return s.Ch.GetByID(ctx, chid)
}

// Vec reads the accessor vector.
func (s *Sys) Vec(chid datatransfer.ChannelID) (views.Vec, error) {
	st, err := s.Get(chid)
	if err != nil {
		return views.Vec{}, err
	}
	return views.Of(st), nil
}

// ---------------------------------------------------------------- operations

// Op is one operation of the L1 alphabet.
type Op struct {
	Name string
	// Kind: "life" lifecycle, "book" bookkeeping, "end" ending
	Kind string
	// Roles the op is role-consistent for: "i" initiator, "r" responder, "ir" both
	Roles string
	Do    func(s *Sys, chid datatransfer.ChannelID, cur views.Vec) error
	// Enabled may restrict when the op is offered (bounding counters); nil = always
	Enabled func(cur views.Vec) bool
}

var errBoom = errors.New("boom")

const maxCount = 2 // data positions explored per direction

// Alphabet is the L1 operation alphabet.
var Alphabet = []Op{
	{Name: "Accept", Kind: "life", Roles: "ir", Do: func(s *Sys, c datatransfer.ChannelID, _ views.Vec) error { return s.Ch.Accept(c) }},
	{Name: "TransferInitiated", Kind: "life", Roles: "ir", Do: func(s *Sys, c datatransfer.ChannelID, _ views.Vec) error { return s.Ch.TransferInitiated(c) }},
	{Name: "FinishTransfer", Kind: "life", Roles: "i", Do: func(s *Sys, c datatransfer.ChannelID, _ views.Vec) error { return s.Ch.FinishTransfer(c) }},
	{Name: "ResponderCompletes", Kind: "life", Roles: "i", Do: func(s *Sys, c datatransfer.ChannelID, _ views.Vec) error { return s.Ch.ResponderCompletes(c) }},
	{Name: "ResponderBeginsFinalization", Kind: "life", Roles: "i", Do: func(s *Sys, c datatransfer.ChannelID, _ views.Vec) error {
		return s.Ch.ResponderBeginsFinalization(c)
	}},
	{Name: "Complete", Kind: "life", Roles: "r", Do: func(s *Sys, c datatransfer.ChannelID, _ views.Vec) error { return s.Ch.Complete(c) }},
	{Name: "BeginFinalizing", Kind: "life", Roles: "r", Do: func(s *Sys, c datatransfer.ChannelID, _ views.Vec) error { return s.Ch.BeginFinalizing(c) }},
	{Name: "Cancel", Kind: "end", Roles: "ir", Do: func(s *Sys, c datatransfer.ChannelID, _ views.Vec) error { return s.Ch.Cancel(c) }},
	{Name: "Error", Kind: "end", Roles: "ir", Do: func(s *Sys, c datatransfer.ChannelID, _ views.Vec) error { return s.Ch.Error(c, errBoom) }},

	{Name: "CreateDuplicate", Kind: "book", Roles: "ir", Do: func(s *Sys, c datatransfer.ChannelID, v views.Vec) error {
		ini := c.Initiator
		_, err := s.Ch.CreateNew(doubles.PeerA, c.ID, doubles.Cid("other-root"), doubles.AllSelector(), doubles.Voucher("T", "dup"), ini, v.Sender, v.Rcpt)
		s.lastDupErr = err
		return err
	}},
	{Name: "Opened", Kind: "book", Roles: "ir", Do: func(s *Sys, c datatransfer.ChannelID, _ views.Vec) error { return s.Ch.ChannelOpened(c) }},
	{Name: "Restart", Kind: "book", Roles: "ir", Do: func(s *Sys, c datatransfer.ChannelID, _ views.Vec) error { return s.Ch.Restart(c) }},
	{Name: "CompleteCleanupOnRestart", Kind: "book", Roles: "ir", Do: func(s *Sys, c datatransfer.ChannelID, _ views.Vec) error {
		return s.Ch.CompleteCleanupOnRestart(c)
	}},
	{Name: "DataReceivedNext", Kind: "book", Roles: "ir", Enabled: func(v views.Vec) bool { return v.RIdx < maxCount },
		Do: func(s *Sys, c datatransfer.ChannelID, v views.Vec) error {
			return ignorePause(s.Ch.DataReceived(c, doubles.Cid("b"), 1, v.RIdx+1, true))
		}},
	{Name: "DataQueuedNext", Kind: "book", Roles: "ir", Enabled: func(v views.Vec) bool { return v.QIdx < maxCount },
		Do: func(s *Sys, c datatransfer.ChannelID, v views.Vec) error {
			return ignorePause(s.Ch.DataQueued(c, doubles.Cid("b"), 1, v.QIdx+1, true))
		}},
	{Name: "DataSentNext", Kind: "book", Roles: "ir", Enabled: func(v views.Vec) bool { return v.SIdx < maxCount },
		Do: func(s *Sys, c datatransfer.ChannelID, v views.Vec) error {
			return ignorePause(s.Ch.DataSent(c, doubles.Cid("b"), 1, v.SIdx+1, true))
		}},
	{Name: "DataReceivedReplay1", Kind: "book", Roles: "ir",
		Do: func(s *Sys, c datatransfer.ChannelID, v views.Vec) error {
			return ignorePause(s.Ch.DataReceived(c, doubles.Cid("b"), 1, 1, true))
		}},
	{Name: "PauseInitiator", Kind: "book", Roles: "ir", Do: func(s *Sys, c datatransfer.ChannelID, _ views.Vec) error { return s.Ch.PauseInitiator(c) }},
	{Name: "ResumeInitiator", Kind: "book", Roles: "ir", Do: func(s *Sys, c datatransfer.ChannelID, _ views.Vec) error { return s.Ch.ResumeInitiator(c) }},
	{Name: "PauseResponder", Kind: "book", Roles: "ir", Do: func(s *Sys, c datatransfer.ChannelID, _ views.Vec) error { return s.Ch.PauseResponder(c) }},
	{Name: "ResumeResponder", Kind: "book", Roles: "ir", Do: func(s *Sys, c datatransfer.ChannelID, _ views.Vec) error { return s.Ch.ResumeResponder(c) }},
	{Name: "NewVoucher", Kind: "book", Roles: "ir", Enabled: func(v views.Vec) bool { return countList(v.Vouchers) < 2 },
		Do: func(s *Sys, c datatransfer.ChannelID, _ views.Vec) error {
			return s.Ch.NewVoucher(c, doubles.Voucher("T", "v2"))
		}},
	// the same result value may be issued twice in a row (e.g. a restart re-validation answering like the first
	// validation): each issue is one log entry
	{Name: "NewVoucherResult", Kind: "book", Roles: "ir", Enabled: func(v views.Vec) bool { return countList(v.Results) < 2 },
		Do: func(s *Sys, c datatransfer.ChannelID, _ views.Vec) error {
			return s.Ch.NewVoucherResult(c, doubles.Voucher("R", "r1"))
		}},
	{Name: "SetDataLimit1", Kind: "book", Roles: "ir", Do: func(s *Sys, c datatransfer.ChannelID, _ views.Vec) error { return s.Ch.SetDataLimit(c, 1) }},
	{Name: "SetDataLimit0", Kind: "book", Roles: "ir", Do: func(s *Sys, c datatransfer.ChannelID, _ views.Vec) error { return s.Ch.SetDataLimit(c, 0) }},
	{Name: "SetRequiresFinalizationT", Kind: "book", Roles: "ir", Do: func(s *Sys, c datatransfer.ChannelID, _ views.Vec) error {
		return s.Ch.SetRequiresFinalization(c, true)
	}},
	{Name: "SetRequiresFinalizationF", Kind: "book", Roles: "ir", Do: func(s *Sys, c datatransfer.ChannelID, _ views.Vec) error {
		return s.Ch.SetRequiresFinalization(c, false)
	}},
	{Name: "Disconnected", Kind: "book", Roles: "ir", Do: func(s *Sys, c datatransfer.ChannelID, _ views.Vec) error { return s.Ch.Disconnected(c, errBoom) }},
	{Name: "SendDataError", Kind: "book", Roles: "ir", Do: func(s *Sys, c datatransfer.ChannelID, _ views.Vec) error { return s.Ch.SendDataError(c, errBoom) }},
	{Name: "ReceiveDataError", Kind: "book", Roles: "ir", Do: func(s *Sys, c datatransfer.ChannelID, _ views.Vec) error {
		return s.Ch.ReceiveDataError(c, errBoom)
	}},
	{Name: "RequestCancelled", Kind: "book", Roles: "ir", Do: func(s *Sys, c datatransfer.ChannelID, _ views.Vec) error {
		return s.Ch.RequestCancelled(c, errBoom)
	}},
}

func ignorePause(err error) error {
	if err == datatransfer.ErrPause {
		return nil
	}
	return err
}

func countList(rendered string) int {
	if rendered == "[]" || rendered == "" {
		return 0
	}
	n := 1
	for _, ch := range rendered {
		if ch == ',' {
			n++
		}
	}
	return n
}

// OpIndex finds an op by name.
func OpIndex(name string) int {
	for i, o := range Alphabet {
		if o.Name == name {
			return i
		}
	}
	panic("no op " + name)
}

// OpName names an op index.
func OpName(i int) string { return Alphabet[i].Name }

// Apply performs op i on chid and runs to quiescence. A channel that has
// terminated answers some sends with an error; errors are returned, not fatal.
func (s *Sys) Apply(i int, chid datatransfer.ChannelID, cur views.Vec) error {
	err := Alphabet[i].Do(s, chid, cur)
	mc.Wait()
	return err
}

// Terminal reports whether st is a finality status.
func Terminal(st datatransfer.Status) bool {
	return st == datatransfer.Completed || st == datatransfer.Failed || st == datatransfer.Cancelled
}

// Key is the canonical state key used by the L1 searches.
func Key(v views.Vec, full bool) string {
	msg := "e"
	if v.Message != "" {
		msg = "m"
	}
	if full {
		return fmt.Sprintf("%s ip%v rp%v q%d s%d r%d qi%d si%d ri%d nv%d nr%d l%d f%v %s",
			datatransfer.Statuses[v.Status], v.IPaused, v.RPaused, v.Queued, v.Sent, v.Received, v.QIdx, v.SIdx, v.RIdx,
			countList(v.Vouchers), countList(v.Results), v.Limit, v.ReqFin, msg)
	}
	return fmt.Sprintf("%s ip%v rp%v l%d f%v", datatransfer.Statuses[v.Status], v.IPaused, v.RPaused, v.Limit, v.ReqFin)
}
