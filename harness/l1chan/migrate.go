package l1chan

import (
	"bytes"
	"context"
	"encoding/binary"
	"fmt"
	"sort"
	"strings"
	"time"

	"github.com/ipld/go-ipld-prime/codec/dagcbor"
	"github.com/ipld/go-ipld-prime/datamodel"
	"github.com/libp2p/go-libp2p/core/peer"

	datatransfer "github.com/filecoin-project/go-data-transfer/v2"
	"github.com/filecoin-project/go-data-transfer/v2/channels"

	"verif/doubles"
	"verif/mc"
	"verif/views"
)

// ---- independent CBOR writer for version-2 records (not the generated marshaller)

type cw struct{ bytes.Buffer }

func (e *cw) hdr(major byte, n uint64) {
	m := major << 5
	switch {
	case n < 24:
		e.WriteByte(m | byte(n))
	case n <= 0xff:
		e.WriteByte(m | 24)
		e.WriteByte(byte(n))
	case n <= 0xffff:
		e.WriteByte(m | 25)
		var b [2]byte
		binary.BigEndian.PutUint16(b[:], uint16(n))
		e.Write(b[:])
	case n <= 0xffffffff:
		e.WriteByte(m | 26)
		var b [4]byte
		binary.BigEndian.PutUint32(b[:], uint32(n))
		e.Write(b[:])
	default:
		e.WriteByte(m | 27)
		var b [8]byte
		binary.BigEndian.PutUint64(b[:], n)
		e.Write(b[:])
	}
}
func (e *cw) text(s string) { e.hdr(3, uint64(len(s))); e.WriteString(s) }
func (e *cw) uint(n uint64) { e.hdr(0, n) }
func (e *cw) int(n int64) {
	if n >= 0 {
		e.hdr(0, uint64(n))
	} else {
		e.hdr(1, uint64(-1-n))
	}
}
func (e *cw) boolean(b bool) {
	if b {
		e.WriteByte(0xf5)
	} else {
		e.WriteByte(0xf4)
	}
}
func (e *cw) node(n datamodel.Node) {
	if n == nil {
		e.WriteByte(0xf6)
		return
	}
	if err := dagcbor.Encode(n, &e.Buffer); err != nil {
		panic(err)
	}
}

type v2Log struct {
	Log string
	At  int64
}
type v2Stage struct {
	Name, Desc       string
	Created, Updated int64
	Logs             []v2Log
}

// v2Rec is a version-2 channel record as the harness defines it.
type v2Rec struct {
	Self, Initiator, Responder, Sender, Recipient peer.ID
	TID                                           uint64
	Status                                        datatransfer.Status
	TotalSize, Queued, Sent, Received             uint64
	Message                                       string
	Vouchers, Results                             []datatransfer.TypedVoucher
	RIdx, QIdx, SIdx                              int64
	Limit                                         uint64
	ReqFin                                        bool
	StagesMode                                    int // 0 nil, 1 empty, 2 two stages with logs
	Selector                                      datamodel.Node
}

func (r v2Rec) chid() datatransfer.ChannelID {
	return datatransfer.ChannelID{Initiator: r.Initiator, Responder: r.Responder, ID: datatransfer.TransferID(r.TID)}
}

func (r v2Rec) stages() []v2Stage {
	if r.StagesMode != 2 {
		return nil
	}
	return []v2Stage{
		{"Requested", "d1", 1000, 2000, []v2Log{{"l1", 1500}, {"l2", 1600}}},
		{"Ongoing", "", 3000, 4000, []v2Log{{"sending data", 3500}}},
	}
}

func (r v2Rec) encode() []byte {
	var e cw
	type field struct {
		k string
		f func()
	}
	fs := []field{
		{"SelfPeer", func() { e.text(string(r.Self)) }},
		{"TransferID", func() { e.uint(r.TID) }},
		{"Initiator", func() { e.text(string(r.Initiator)) }},
		{"Responder", func() { e.text(string(r.Responder)) }},
		{"BaseCid", func() {
			c := doubles.Cid("root")
			e.WriteByte(0xd8)
			e.WriteByte(0x2a)
			cb := c.Bytes()
			e.hdr(2, uint64(len(cb)+1))
			e.WriteByte(0)
			e.Write(cb)
		}},
		{"Selector", func() { e.node(r.Selector) }},
		{"Sender", func() { e.text(string(r.Sender)) }},
		{"Recipient", func() { e.text(string(r.Recipient)) }},
		{"TotalSize", func() { e.uint(r.TotalSize) }},
		{"Status", func() { e.uint(uint64(r.Status)) }},
		{"Queued", func() { e.uint(r.Queued) }},
		{"Sent", func() { e.uint(r.Sent) }},
		{"Received", func() { e.uint(r.Received) }},
		{"Message", func() { e.text(r.Message) }},
		{"Vouchers", func() {
			e.hdr(4, uint64(len(r.Vouchers)))
			for _, v := range r.Vouchers {
				e.hdr(5, 2)
				e.text("Type")
				e.text(string(v.Type))
				e.text("Voucher")
				e.node(v.Voucher)
			}
		}},
		{"VoucherResults", func() {
			e.hdr(4, uint64(len(r.Results)))
			for _, v := range r.Results {
				e.hdr(5, 2)
				e.text("VoucherResult")
				e.node(v.Voucher)
				e.text("Type")
				e.text(string(v.Type))
			}
		}},
		{"ReceivedBlocksTotal", func() { e.int(r.RIdx) }},
		{"QueuedBlocksTotal", func() { e.int(r.QIdx) }},
		{"SentBlocksTotal", func() { e.int(r.SIdx) }},
		{"DataLimit", func() { e.uint(r.Limit) }},
		{"RequiresFinalization", func() { e.boolean(r.ReqFin) }},
		{"Stages", func() {
			switch r.StagesMode {
			case 0:
				e.WriteByte(0xf6)
			default:
				st := r.stages()
				e.hdr(4, 1) // ChannelStages tuple of 1
				e.hdr(4, uint64(len(st)))
				for _, s := range st {
					e.hdr(4, 5)
					e.text(s.Name)
					e.text(s.Desc)
					e.int(s.Created)
					e.int(s.Updated)
					e.hdr(4, uint64(len(s.Logs)))
					for _, l := range s.Logs {
						e.hdr(4, 2)
						e.text(l.Log)
						e.int(l.At)
					}
				}
			}
		}},
	}
	// deliberately not the generated marshaller's order: plain alphabetical
	sort.Slice(fs, func(i, j int) bool { return fs[i].k < fs[j].k })
	e.hdr(5, uint64(len(fs)))
	for _, f := range fs {
		e.text(f.k)
		f.f()
	}
	return append([]byte(nil), e.Bytes()...)
}

// v2Image builds a version-2 datastore image holding the given records.
func v2Image(recs []v2Rec) map[string][]byte {
	img := map[string][]byte{"/versions/current": []byte("2")}
	for _, r := range recs {
		img["/2/"+r.chid().String()] = r.encode()
	}
	return img
}

func (r v2Rec) wantVec() views.Vec {
	st := r.Status
	ip, rp := false, false
	switch r.Status {
	case datatransfer.InitiatorPaused:
		st, ip = datatransfer.Ongoing, true
	case datatransfer.ResponderPaused:
		st, rp = datatransfer.Ongoing, true
	case datatransfer.BothPaused:
		st, ip, rp = datatransfer.Ongoing, true, true
	}
	v := views.Vec{Status: st, Message: r.Message, Queued: r.Queued, Sent: r.Sent, Received: r.Received,
		QIdx: r.QIdx, SIdx: r.SIdx, RIdx: r.RIdx, IPaused: ip, RPaused: rp || st == datatransfer.Finalizing, Limit: r.Limit, ReqFin: r.ReqFin,
		Self: r.Self, Sender: r.Sender, Rcpt: r.Recipient, TID: datatransfer.TransferID(r.TID),
		BaseCid: doubles.Cid("root").String(), Selector: doubles.NodeBytes(r.Selector),
		Vouchers: doubles.TVs(r.Vouchers), Results: doubles.TVs(r.Results), TotalSize: r.TotalSize}
	v.Both = v.IPaused && v.RPaused
	v.IsPull = r.Initiator == r.Recipient
	v.Chid = r.chid()
	if r.Self == r.Sender {
		v.Other = r.Recipient
	} else {
		v.Other = r.Sender
	}
	if r.Self == r.Initiator {
		v.SelfP = v.IPaused
	} else {
		v.SelfP = v.RPaused
	}
	return v
}

func stagesString(st *datatransfer.ChannelStages) string {
	if st == nil {
		return "nil"
	}
	var sb strings.Builder
	for _, s := range st.Stages {
		fmt.Fprintf(&sb, "{%s|%s|%d|%d|", s.Name, s.Description, time.Time(s.CreatedTime).UnixNano(), time.Time(s.UpdatedTime).UnixNano())
		for _, l := range s.Logs {
			fmt.Fprintf(&sb, "(%s@%d)", l.Log, time.Time(l.UpdatedTime).UnixNano())
		}
		sb.WriteString("}")
	}
	return sb.String()
}

func (r v2Rec) wantStages() string {
	var sb strings.Builder
	for _, s := range r.stages() {
		fmt.Fprintf(&sb, "{%s|%s|%d|%d|", s.Name, s.Desc, s.Created, s.Updated)
		for _, l := range s.Logs {
			fmt.Fprintf(&sb, "(%s@%d)", l.Log, l.At)
		}
		sb.WriteString("}")
	}
	return sb.String()
}

var allStatuses = []datatransfer.Status{
	datatransfer.Requested, datatransfer.Ongoing, datatransfer.TransferFinished, datatransfer.ResponderCompleted, datatransfer.Finalizing,
	datatransfer.Completing, datatransfer.Completed, datatransfer.Failing, datatransfer.Failed, datatransfer.Cancelling, datatransfer.Cancelled,
	datatransfer.InitiatorPaused, datatransfer.ResponderPaused, datatransfer.BothPaused, datatransfer.ResponderFinalizing,
	datatransfer.ResponderFinalizingTransferFinished, datatransfer.ChannelNotFoundError, datatransfer.Queued, datatransfer.AwaitingAcceptance,
}

func recFor(role Role, tid uint64, status datatransfer.Status, bits int, nv, nr, stages int, family string) v2Rec {
	ini, snd, rcv := Parties(role)
	resp := rcv
	if snd != ini {
		resp = snd
	}
	nf := doubles.NodeFamily()
	val := nf[family]
	r := v2Rec{Self: doubles.PeerA, Initiator: ini, Responder: resp, Sender: snd, Recipient: rcv, TID: tid, Status: status,
		StagesMode: stages, Selector: doubles.AllSelector()}
	if bits&1 != 0 {
		r.Queued, r.Sent, r.Received = 11, 7, 5
	}
	if bits&2 != 0 {
		r.QIdx, r.SIdx, r.RIdx = 4, 3, 2
	}
	if bits&4 != 0 {
		r.Message = "some message"
	}
	if bits&8 != 0 {
		r.Limit = 1000
	}
	if bits&16 != 0 {
		r.ReqFin = true
	}
	if bits&32 != 0 {
		r.TotalSize = 1 << 40
	}
	for i := 0; i < nv; i++ {
		r.Vouchers = append(r.Vouchers, datatransfer.TypedVoucher{Type: datatransfer.TypeIdentifier(fmt.Sprintf("T%d", i)), Voucher: val})
	}
	for i := 0; i < nr; i++ {
		r.Results = append(r.Results, datatransfer.TypedVoucher{Type: datatransfer.TypeIdentifier(fmt.Sprintf("R%d", i)), Voucher: val})
	}
	return r
}

// checkMigrated opens img, and checks every record against its source.
func checkMigrated(x *mc.Cell, recs []v2Rec, rep any, furtherStarts int) {
	x.Executions++
	pv, stack := mc.Bubble(x.T, func() {
		ds := doubles.NewRecDSFrom(v2Image(recs))
		s, err := NewSys(ds)
		if err != nil {
			x.Violate("C13", "start-error", fmt.Sprintf("Start on a well-formed v2 store failed: %v", err), rep)
			return
		}
		x.Premise++
		check := func(s *Sys, when string) {
			m, err := s.Ch.InProgress()
			if err != nil {
				x.Violate("C13", "list-error;"+when, err.Error(), rep)
				return
			}
			if len(m) != len(recs) {
				x.Violate("C13", fmt.Sprintf("listed=%d;stored=%d;%s", len(m), len(recs), when), "the channels listed after migration are not exactly the stored ones", rep)
			}
			for _, r := range recs {
				st, err := s.Get(r.chid())
				if err != nil {
					x.Violate("C13", "migrated-channel-missing;"+when+";status="+datatransfer.Statuses[r.Status], err.Error(), rep)
					continue
				}
				for _, p := range views.Check(st) {
					x.Violate("C19", p.Sig, "(migrated channel) "+p.Msg, rep)
				}
				got, want := views.Of(st), r.wantVec()
				if got.String() != want.String() {
					x.Violate("C13", fmt.Sprintf("field-mismatch;%s;status=%s;field=%s", when, datatransfer.Statuses[r.Status], firstDiffField(want.String(), got.String())),
						fmt.Sprintf("migrated record differs from its source:\n  want: %s\n  got:  %s", want, got), rep)
				}
				if gs, ws := stagesString(st.Stages()), r.wantStages(); gs != ws && !(r.StagesMode != 2 && (gs == "" || gs == "nil")) {
					x.Violate("C13", "stages-mismatch;"+when, fmt.Sprintf("stages differ:\n  want: %s\n  got:  %s", ws, gs), rep)
				}
				x.Outcome(got.String())
			}
		}
		check(s, "first-start")
		img := s.DS.Image()
		s.Stop()
		for k := 0; k < furtherStarts; k++ {
			s2, err := NewSys(doubles.NewRecDSFrom(img))
			if err != nil {
				x.Violate("C13", "restart-error", fmt.Sprintf("Start %d on the migrated store failed: %v", k+2, err), rep)
				return
			}
			check(s2, "restart")
			img2 := s2.DS.Image()
			s2.Stop()
			if rawValue(img2) != rawValue(img) {
				x.Violate("C13", "restart-changed-bytes", "starting again on an already migrated store changed datastore bytes", rep)
			}
		}
	})
	if pv != nil {
		x.Violate("C13", "panic", fmt.Sprintf("panic: %v\n%s", pv, stack), rep)
	}
}

func firstDiffField(a, b string) string {
	fa, fb := strings.Fields(a), strings.Fields(b)
	for i := range fa {
		if i >= len(fb) || fa[i] != fb[i] {
			if j := strings.Index(fa[i], "="); j > 0 {
				return fa[i][:j]
			}
			return fa[i]
		}
	}
	return "?"
}

func c13Records(x *mc.Cell, full bool) {
	families := []string{"string"}
	stagesModes := []int{2}
	nvs := [][2]int{{2, 1}}
	if full {
		families = []string{"string", "map_noncanon", "nested", "bytes", "link", "float", "list", "emptymap"}
		stagesModes = []int{0, 1, 2}
		nvs = [][2]int{{1, 0}, {1, 1}, {1, 2}, {2, 0}, {2, 1}, {2, 2}}
	}
	for role := InitPush; role <= RespPull; role++ {
		for _, st := range allStatuses {
			for bits := 0; bits < 64; bits++ {
				for _, sm := range stagesModes {
					for _, nv := range nvs {
						for fi, fam := range families {
							if full && fi > 0 && bits != 63 {
								continue
							}
							if x.TimeUp() {
								x.Cap("c13Records: time cap")
								return
							}
							rec := recFor(role, 5, st, bits, nv[0], nv[1], sm, fam)
							rep := map[string]any{"role": RoleNames[role], "status": datatransfer.Statuses[st], "bits": bits, "stages": sm, "vouchers": nv[0], "results": nv[1], "family": fam}
							x.Sample(rep)
							checkMigrated(x, []v2Rec{rec}, rep, 1)
							if bits == 63 || bits == 0 {
								// the store was written under another node identity (rotated key, restored backup): the
								// record's own-peer field is data like any other and must be preserved
								moved := rec
								moved.Self = doubles.PeerC
								rep2 := map[string]any{"role": RoleNames[role], "status": datatransfer.Statuses[st], "bits": bits, "stages": sm, "vouchers": nv[0], "results": nv[1], "family": fam, "written-by-another-identity": true}
								checkMigrated(x, []v2Rec{moved}, rep2, 1)
							}
						}
					}
				}
			}
		}
	}
}

func c13MultiChannel(x *mc.Cell) {
	// stores with 0, 1, 2 (all status pairs), 3 channels; 1-3 further starts
	checkMigrated(x, nil, map[string]any{"channels": 0}, 2)
	for _, a := range allStatuses {
		for _, b := range allStatuses {
			r1 := recFor(InitPush, 1, a, 63, 2, 1, 2, "string")
			r2 := recFor(RespPull, 2, b, 21, 1, 0, 0, "map_noncanon")
			checkMigrated(x, []v2Rec{r1, r2}, map[string]any{"channels": 2, "a": datatransfer.Statuses[a], "b": datatransfer.Statuses[b]}, 1)
		}
	}
	for _, a := range []datatransfer.Status{datatransfer.BothPaused, datatransfer.Completed, datatransfer.Requested} {
		r1 := recFor(InitPush, 1, a, 63, 2, 2, 2, "nested")
		r2 := recFor(RespPush, 2, datatransfer.InitiatorPaused, 1, 1, 0, 1, "string")
		r3 := recFor(InitPull, 3, datatransfer.ResponderPaused, 2, 1, 1, 2, "bytes")
		checkMigrated(x, []v2Rec{r1, r2, r3}, map[string]any{"channels": 3, "a": datatransfer.Statuses[a]}, 3)
	}
}

// c13Differential: for every representative native state, write the equivalent v2 record, migrate it,
// and require that every operation has the same effect on the migrated channel as on the native one,
// in the same process and after a reopen.
func c13Differential(x *mc.Cell, role Role) {
	o := closureOpts{role: role, roleConsist: true, name: "c13-reps-" + RoleNames[role], noBuiltin: true}
	if !x.Thorough() {
		o.maxDepth = 4
	}
	ops := opsFor(o)
	reps := collectReps(x, o)
	for _, h := range reps {
		for oi2 := 0; oi2 < 2*len(ops); oi2++ {
			if x.TimeUp() {
				x.Cap("c13Differential: time cap")
				return
			}
			// the v2 record carries an empty stage log (written by recent v1 builds) or none at all (older records)
			h, oi, stagesMode := h, oi2%len(ops), 1-oi2/len(ops)
			x.Executions++
			rep := map[string]any{"role": RoleNames[role], "history": histNames(h, func(i int) string { return Alphabet[ops[i]].Name }), "op": Alphabet[ops[oi]].Name, "v2-stages": []string{"null", "empty"}[stagesMode]}
			pv, stack := mc.Bubble(x.T, func() {
				nat, err := NewSys(nil)
				if err != nil {
					panic(err)
				}
				defer nat.Stop()
				chid, _ := nat.Create(role, 1, doubles.Voucher("T", "v1"))
				cur, _ := nat.Vec(chid)
				// cachesExact: the native channel's progress / block-index caches still agree with its stored state. A
				// block report that the state machine ignores (transfer not moving in that status) is nevertheless
				// counted by the caches, so after one the warm native channel is no reference for a cold one any more.
				cachesExact := true
				for _, i := range h {
					prev := cur
					_ = nat.Apply(ops[i], chid, cur)
					cur, _ = nat.Vec(chid)
					if strings.HasPrefix(Alphabet[ops[i]].Name, "Data") && sameProgress(prev, cur) {
						cachesExact = false
					}
				}
				// representable in v2? pause flags only exist as the three deprecated statuses
				st := cur.Status
				flagsRP := cur.RPaused && st != datatransfer.Finalizing
				if cur.IPaused || flagsRP {
					if st != datatransfer.Ongoing {
						return
					}
					switch {
					case cur.IPaused && flagsRP:
						st = datatransfer.BothPaused
					case cur.IPaused:
						st = datatransfer.InitiatorPaused
					default:
						st = datatransfer.ResponderPaused
					}
				}
				natSt, _ := nat.Get(chid)
				rec := v2Rec{Self: cur.Self, Initiator: cur.Chid.Initiator, Responder: cur.Chid.Responder, Sender: cur.Sender, Recipient: cur.Rcpt, TID: uint64(cur.TID),
					Status: st, TotalSize: cur.TotalSize, Queued: cur.Queued, Sent: cur.Sent, Received: cur.Received, Message: cur.Message,
					Vouchers: natSt.Vouchers(), Results: natSt.VoucherResults(), RIdx: cur.RIdx, QIdx: cur.QIdx, SIdx: cur.SIdx, Limit: cur.Limit, ReqFin: cur.ReqFin,
					StagesMode: stagesMode, Selector: doubles.AllSelector()}
				mig, err := NewSys(doubles.NewRecDSFrom(v2Image([]v2Rec{rec})))
				if err != nil {
					x.Violate("C13", "differential;start-error", err.Error(), rep)
					return
				}
				defer func() { mig.Stop() }()
				mv, err := mig.Vec(chid)
				if err != nil || mv.String() != cur.String() {
					x.Violate("C13", "differential;migrated!=native;status="+datatransfer.Statuses[cur.Status], fmt.Sprintf("native: %s\nmigrated: %s (err %v)", cur, mv, err), rep)
					return
				}
				x.Premise++
				op := Alphabet[ops[oi]]
				if op.Enabled != nil && !op.Enabled(cur) {
					return
				}
				if op.Name == "CreateDuplicate" {
					return
				}
				nE1, nE2 := nat.NumEvents(), mig.NumEvents()
				_ = nat.Apply(ops[oi], chid, cur)
				_ = mig.Apply(ops[oi], chid, mv)
				a1, _ := nat.Vec(chid)
				a2, _ := mig.Vec(chid)
				if a1.String() != a2.String() {
					x.Violate("C13", fmt.Sprintf("differential;op=%s;from=%s;field=%s", op.Name, datatransfer.Statuses[cur.Status], firstDiffField(a1.String(), a2.String())),
						fmt.Sprintf("the same event has different effects on a native and on a migrated channel:\n  native:   %s\n  migrated: %s", a1, a2), rep)
				}
				e1, e2 := nat.EventsFrom(nE1), mig.EventsFrom(nE2)
				if len(e1) != len(e2) {
					x.Violate("C13", "differential;events;op="+op.Name, fmt.Sprintf("native announced %d events, migrated %d", len(e1), len(e2)), rep)
				}
				// persists like a native one
				img := mig.DS.Image()
				mig.Stop()
				mig, err = NewSys(doubles.NewRecDSFrom(img))
				if err != nil {
					panic(err)
				}
				a3, _ := mig.Vec(chid)
				if a3.String() != a1.String() {
					x.Violate("C13", "differential;persist;op="+op.Name, fmt.Sprintf("after reopen: %s\nwant: %s", a3, a1), rep)
				}
				// "accept further events like native ones", two events deep and including what the calls return: the
				// limit is moved to just above the progress made so far (on the reopened store that is the first
				// progress-relevant call of the process), then one more block is reported in each direction. The
				// pause signal and the resulting state must be those of the native channel.
				if strings.HasPrefix(op.Name, "Data") && sameProgress(a1, cur) {
					cachesExact = false
				}
				if !Terminal(a1.Status) && cachesExact {
					x.Note("limit_probes", 1)
					probe := func(s *Sys, v views.Vec) (string, views.Vec) {
						out := ""
						step := func(what string, err error) {
							mc.Wait()
							out += fmt.Sprintf("%s->%v; ", what, err)
						}
						step("SetDataLimit(queued+1)", s.Ch.SetDataLimit(chid, v.Queued+1))
						step("ResumeResponder", s.Ch.ResumeResponder(chid))
						step("DataQueued", s.Ch.DataQueued(chid, doubles.Cid("p1"), 1, v.QIdx+1, true))
						w, _ := s.Vec(chid)
						step("SetDataLimit(received+1)", s.Ch.SetDataLimit(chid, w.Received+1))
						step("DataReceived", s.Ch.DataReceived(chid, doubles.Cid("p2"), 1, w.RIdx+1, true))
						step("DataReceived", s.Ch.DataReceived(chid, doubles.Cid("p3"), 1, w.RIdx+2, true))
						w, _ = s.Vec(chid)
						return out, w
					}
					o1, p1 := probe(nat, a1)
					o2, p2 := probe(mig, a3)
					if o1 != o2 || p1.String() != p2.String() {
						x.Violate("C13", fmt.Sprintf("differential;limit-probe;from=%s;returns-differ=%v;field=%s", datatransfer.Statuses[a1.Status], o1 != o2, firstDiffField(p1.String(), p2.String())),
							fmt.Sprintf("moving the limit just above the progress and reporting further blocks behaves differently on a migrated (reopened) channel:\n  native:   %s\n            %s\n  migrated: %s\n            %s", o1, p1, o2, p2), rep)
					}
				}
				x.Outcome(a1.String())
			})
			if pv != nil {
				x.Violate("C13", "panic;differential", fmt.Sprintf("panic: %v\n%s", pv, stack), rep)
			}
		}
	}
}

// c13NotReady: before Start, and while the migration is parked inside its batch commit, every
// operation is refused with the not-ready error and nothing is written.
func c13NotReady(x *mc.Cell) {
	for _, gated := range []bool{false, true} {
		gated := gated
		x.Executions++
		rep := map[string]any{"gated": gated}
		pv, stack := mc.Bubble(x.T, func() {
			rec := recFor(InitPush, 1, datatransfer.Ongoing, 63, 2, 1, 2, "string")
			ds := doubles.NewRecDSFrom(v2Image([]v2Rec{rec}))
			env := &doubles.RecEnv{Self: doubles.PeerA}
			nEvents := 0
			ch, err := channels.New(ds, func(datatransfer.Event, datatransfer.ChannelState) { nEvents++ }, env, doubles.PeerA)
			if err != nil {
				panic(err)
			}
			gate := make(chan struct{})
			var startCall *mc.CallResult
			if gated {
				ds.Gate = func(w doubles.Write) { <-gate }
				startCall = mc.Go(func() { _ = ch.Start(context.Background()) })
				mc.Wait()
			}
			x.Premise++
			chid := rec.chid()
			nw := ds.NumWrites()
			calls := map[string]func() error{
				"GetByID":    func() error { _, e := ch.GetByID(context.Background(), chid); return e },
				"InProgress": func() error { _, e := ch.InProgress(); return e },
				"HasChannel": func() error { _, e := ch.HasChannel(chid); return e },
				"CreateNew": func() error {
					_, e := ch.CreateNew(doubles.PeerA, 9, doubles.Cid("root"), doubles.AllSelector(), doubles.Voucher("T", "v"), doubles.PeerA, doubles.PeerA, doubles.PeerB)
					return e
				},
				"Accept":         func() error { return ch.Accept(chid) },
				"Cancel":         func() error { return ch.Cancel(chid) },
				"Error":          func() error { return ch.Error(chid, errBoom) },
				"DataReceived":   func() error { return ch.DataReceived(chid, doubles.Cid("b"), 1, 1, true) },
				"DataQueued":     func() error { return ch.DataQueued(chid, doubles.Cid("b"), 1, 1, true) },
				"NewVoucher":     func() error { return ch.NewVoucher(chid, doubles.Voucher("T", "x")) },
				"SetDataLimit":   func() error { return ch.SetDataLimit(chid, 5) },
				"Restart":        func() error { return ch.Restart(chid) },
				"PauseInitiator": func() error { return ch.PauseInitiator(chid) },
				"Complete":       func() error { return ch.Complete(chid) },
			}
			names := make([]string, 0, len(calls))
			for k := range calls {
				names = append(names, k)
			}
			sort.Strings(names)
			for _, n := range names {
				var err error
				hang, r := mc.Call(func() { err = calls[n]() })
				if hang {
					x.Violate("C13", "not-ready;call-hangs;"+n, "operation before readiness did not return", rep)
					x.Fatal = true
					return
				}
				if r.Panic != nil {
					x.Violate("C13", "not-ready;panic;"+n, fmt.Sprint(r.Panic), rep)
				}
				if err == nil {
					x.Violate("C13", fmt.Sprintf("not-ready;op-accepted;%s;gated=%v", n, gated), "operation "+n+" succeeded before migration finished", rep)
				}
				x.Outcome(fmt.Sprintf("%s:%v", n, err))
			}
			if ds.NumWrites() != nw || nEvents != 0 {
				x.Violate("C13", fmt.Sprintf("not-ready;wrote;gated=%v", gated), fmt.Sprintf("operations before readiness wrote %d time(s) / announced %d event(s)", ds.NumWrites()-nw, nEvents), rep)
			}
			if gated {
				close(gate)
				mc.Wait()
				if !startCall.Returned() {
					x.Violate("C13", "start-hangs", "Start did not return after the datastore was released", rep)
					x.Fatal = true
					return
				}
			} else {
				_ = ch.Start(context.Background())
			}
			st, err := ch.GetByID(context.Background(), chid)
			if err != nil || views.Of(st).String() != rec.wantVec().String() {
				x.Violate("C13", "not-ready;migration-result", fmt.Sprintf("after the refused operations the migrated channel is wrong (err %v)", err), rep)
			}
			_ = ch.Stop(context.Background())
			mc.Wait()
		})
		if pv != nil {
			x.Violate("C13", "panic;not-ready", fmt.Sprintf("panic: %v\n%s", pv, stack), rep)
		}
	}
}

func init() {
	mc.Register("C13", "records", "quick", func(x *mc.Cell) { c13Records(x, false) })
	for r := InitPush; r <= RespPull; r++ {
		r := r
		mc.Register("C13", "differential/"+RoleNames[r], "both", func(x *mc.Cell) { c13Differential(x, r) })
	}
	mc.Register("C13", "records-full", "thorough", func(x *mc.Cell) { c13Records(x, true) })
	mc.Register("C13", "multi-channel", "both", c13MultiChannel)
	mc.Register("C13", "not-ready", "both", c13NotReady)
}

// sameProgress: no counter or block index differs between the two vectors.
func sameProgress(a, b views.Vec) bool {
	return a.Queued == b.Queued && a.Sent == b.Sent && a.Received == b.Received && a.QIdx == b.QIdx && a.SIdx == b.SIdx && a.RIdx == b.RIdx
}
