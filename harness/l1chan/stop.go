package l1chan

import (
	"context"
	"fmt"

	datatransfer "github.com/filecoin-project/go-data-transfer/v2"

	"verif/doubles"
	"verif/mc"
)

// c06Stop: stopping the channels of a node is a clean cut of its write history - the last crash point a node
// chooses itself. (a) With a state write in flight (held by the harness) Stop does not return before that write
// has landed; (b) after Stop has returned, no operation on any of the 1-3 channels is accepted or writes to the
// datastore any more, so that a new instance opened on the same store sees a state that results from a prefix
// of the events applied and is never overwritten by the old instance.
func c06Stop(x *mc.Cell) {
	for nch := 1; nch <= 3; nch++ {
		for held := -1; held < nch; held++ { // -1: no write in flight; k: an event on channel k is being written
			nch, held := nch, held
			rep := map[string]any{"channels": nch, "write-in-flight-on": held}
			x.Executions++
			pv, stack := mc.Bubble(x.T, func() {
				s, err := NewSys(nil)
				if err != nil {
					panic(err)
				}
				stopped := false
				defer func() {
					if !stopped {
						s.Stop()
					}
				}()
				roles := []Role{InitPush, RespPull, InitPull}
				var chids []datatransfer.ChannelID
				for i := 0; i < nch; i++ {
					c, err := s.Create(roles[i], uint64(i/2+1), doubles.Voucher("T", "v")) // the first two channels share a transfer id
					if err != nil {
						panic(err)
					}
					_ = s.Ch.Accept(c)
					chids = append(chids, c)
				}
				mc.Wait()
				gate := make(chan struct{})
				released := false
				release := func() {
					if !released {
						released = true
						close(gate)
					}
				}
				defer release()
				if held >= 0 {
					s.DS.Gate = func(w doubles.Write) { <-gate }
					_ = s.Ch.PauseInitiator(chids[held]) // applied by the state machine; its Put is held
					mc.Wait()
				}
				stop := mc.Go(func() { _ = s.Ch.Stop(context.Background()) })
				mc.Wait()
				x.Premise++
				if held >= 0 {
					if stop.Returned() {
						x.Violate("C06", "stop;returned-with-a-write-in-flight", fmt.Sprintf("Stop returned while the state write of an applied event on channel %d was still in flight: a store reopened now can be overwritten by it afterwards", held), rep)
					}
					s.DS.Gate = nil
					release()
					mc.Wait()
				}
				if !stop.Returned() {
					n := mc.Unblock()
					x.Violate("C20", "stop;did-not-return", fmt.Sprintf("Channels.Stop did not return (%d parked)", n), rep)
					x.Fatal = true
					return
				}
				stopped = true
				writes := s.DS.NumWrites()
				img := fmt.Sprint(s.DS.Image())
				accepted := []string{}
				for i, c := range chids {
					for _, op := range []struct {
						name string
						do   func() error
					}{
						{"Disconnected", func() error { return s.Ch.Disconnected(c, errBoom) }},
						{"PauseInitiator", func() error { return s.Ch.PauseInitiator(c) }},
						{"DataReceived", func() error { return s.Ch.DataReceived(c, doubles.Cid("b"), 1, 1, true) }},
						{"Cancel", func() error { return s.Ch.Cancel(c) }},
					} {
						var e error
						hang, _ := mc.Call(func() { e = op.do() })
						if hang {
							x.Violate("C20", "stop;operation-after-stop-hangs;op="+op.name, "", rep)
							x.Fatal = true
							return
						}
						if e == nil && op.name != "Cancel" { // Cancel deliberately swallows the terminated error
							accepted = append(accepted, fmt.Sprintf("ch%d:%s", i, op.name))
						}
					}
				}
				mc.Wait()
				x.Outcome(fmt.Sprintf("%d|%d|%v", nch, held, accepted))
				if s.DS.NumWrites() != writes || fmt.Sprint(s.DS.Image()) != img {
					x.Violate("C06", "stop;datastore-written-after-stop", fmt.Sprintf("after Stop returned the old instance wrote %d more time(s) (operations accepted: %v)", s.DS.NumWrites()-writes, accepted), rep)
				}
			})
			if pv != nil {
				x.Violate("C06", "panic;stop", fmt.Sprintf("%v\n%s", pv, stack), rep)
			}
		}
	}
}

func init() {
	mc.Register("C06", "l1-stop-is-a-clean-cut", "both", c06Stop)
}
