package l1chan

import (
	"context"
	"fmt"
	"sync"

	datatransfer "github.com/filecoin-project/go-data-transfer/v2"
	dtimpl "github.com/filecoin-project/go-data-transfer/v2/impl"

	"verif/doubles"
	"verif/mc"
)

// c13Ready: readiness of the manager is announced exactly once, with the migration outcome, to every listener
// registered before Start - for every store kind (empty, version-2 records to migrate, already migrated), every
// number of listeners, and every fate of the context handed to Start: it outlives the migration, it is already
// cancelled, it is cancelled while the migration is parked inside its datastore write, it is cancelled right after
// the migration finished. A nil outcome means the module accepts operations.
func c13Ready(x *mc.Cell) {
	stores := []string{"empty", "v2-records", "already-migrated"}
	ctxFates := []string{"outlives", "cancelled-before-start", "cancelled-during-migration", "cancelled-after-migration"}
	for _, store := range stores {
		for _, fate := range ctxFates {
			for listeners := 1; listeners <= 2; listeners++ {
				store, fate, listeners := store, fate, listeners
				rep := map[string]any{"store": store, "start-context": fate, "listeners": listeners}
				x.Executions++
				pv, stack := mc.Bubble(x.T, func() {
					var img map[string][]byte
					rec := recFor(RespPull, 1, datatransfer.BothPaused, 63, 2, 1, 2, "string")
					switch store {
					case "v2-records":
						img = v2Image([]v2Rec{rec, recFor(InitPush, 2, datatransfer.Ongoing, 21, 1, 0, 0, "string")})
					case "already-migrated":
						s0, err := NewSys(doubles.NewRecDSFrom(v2Image([]v2Rec{rec})))
						if err != nil {
							panic(err)
						}
						img = s0.DS.Image()
						s0.Stop()
					}
					var ds *doubles.RecDS
					if img != nil {
						ds = doubles.NewRecDSFrom(img)
					} else {
						ds = doubles.NewRecDS()
					}
					m, err := dtimpl.NewDataTransfer(ds, &doubles.RecNet{Self: doubles.PeerA}, &doubles.RecTransport{})
					if err != nil {
						panic(err)
					}
					var mu sync.Mutex
					calls := make([][]error, listeners)
					for i := 0; i < listeners; i++ {
						i := i
						m.OnReady(func(err error) {
							mu.Lock()
							calls[i] = append(calls[i], err)
							mu.Unlock()
						})
					}
					ctx, cancel := context.WithCancel(context.Background())
					defer cancel()
					gate := make(chan struct{})
					gated := false
					if fate == "cancelled-during-migration" {
						gated = true
						ds.Gate = func(w doubles.Write) { <-gate }
					}
					if fate == "cancelled-before-start" {
						cancel()
					}
					_ = m.Start(ctx)
					mc.Wait()
					if fate == "cancelled-during-migration" {
						cancel()
						mc.Wait()
						close(gate)
						ds.Gate = nil
						mc.Wait()
					}
					if fate == "cancelled-after-migration" {
						cancel()
						mc.Wait()
					}
					_ = gated
					x.Premise++
					mu.Lock()
					snapshot := make([][]error, listeners)
					for i := range calls {
						snapshot[i] = append([]error(nil), calls[i]...)
					}
					mu.Unlock()
					out := ""
					for i, c := range snapshot {
						out += fmt.Sprintf("%d:%v ", i, c)
						if len(c) != 1 {
							x.Violate("C13", fmt.Sprintf("readiness;listener-called-%d-times;store=%s;ctx=%s", len(c), store, fate),
								fmt.Sprintf("listener %d registered before Start was called %d time(s) (%v); readiness is announced once, with the migration outcome", i, len(c), c), rep)
						}
					}
					// an announced success means the module accepts operations; with a context that outlives the migration
					// the outcome is success
					_, opErr := m.InProgressChannels(context.Background())
					if len(snapshot[0]) == 1 {
						if snapshot[0][0] == nil && opErr != nil {
							x.Violate("C13", fmt.Sprintf("readiness;announced-ready-but-refuses;store=%s;ctx=%s", store, fate),
								fmt.Sprintf("listeners were told the migration succeeded but a channel query returns %v", opErr), rep)
						}
						if fate == "outlives" && snapshot[0][0] != nil {
							x.Violate("C13", fmt.Sprintf("readiness;failure-announced;store=%s", store), fmt.Sprintf("migration outcome %v with a healthy store and a live context", snapshot[0][0]), rep)
						}
					}
					x.Outcome(store + "|" + fate + "|" + out)
					_ = m.Stop(context.Background())
					mc.Wait()
				})
				if pv != nil {
					x.Violate("C13", "panic;readiness", fmt.Sprintf("%v\n%s", pv, stack), rep)
				}
			}
		}
	}
}

func init() {
	mc.Register("C13", "manager-readiness-announcement", "both", c13Ready)
}
