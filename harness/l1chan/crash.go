package l1chan

import (
	"fmt"
	"sort"

	datatransfer "github.com/filecoin-project/go-data-transfer/v2"

	"verif/doubles"
	"verif/mc"
	"verif/views"
)

type crashStep struct {
	ch int
	op string
}

// crashHistory runs a scripted history over one or several channels and then reopens the datastore image at
// EVERY write boundary of the whole history: listed channels = channels created before the boundary; each
// channel presents one of the states that were current for it, never going backwards along the boundaries.
func crashHistory(x *mc.Cell, name string, roles []Role, vouchers []datatransfer.TypedVoucher, steps []crashStep, payload map[string]datatransfer.TypedVoucher) {
	x.Executions++
	rep := map[string]any{"name": name, "steps": fmt.Sprint(steps)}
	pv, stack := mc.Bubble(x.T, func() {
		s, err := NewSys(nil)
		if err != nil {
			panic(err)
		}
		defer s.Stop()
		chids := make([]datatransfer.ChannelID, len(roles))
		createdAt := make([]int, len(roles))
		cands := make([][]string, len(roles))
		created := 0
		create := func(i int) {
			c, err := s.Create(roles[i], 1, vouchers[i]) // same transfer id on every channel: the roles make the channel ids differ
			if err != nil {
				panic(err)
			}
			chids[i] = c
			created++
		}
		// candidates are collected from the notifier stream, plus the freshly created state
		for _, st := range steps {
			if st.op == "create" {
				before := s.DS.NumWrites()
				create(st.ch)
				createdAt[st.ch] = before + 1
				continue
			}
			cur, _ := s.Vec(chids[st.ch])
			if st.op == "NewVoucher*" {
				_ = s.Ch.NewVoucher(chids[st.ch], payload["voucher"])
				mc.Wait()
				continue
			}
			if st.op == "NewVoucherResult*" {
				_ = s.Ch.NewVoucherResult(chids[st.ch], payload["result"])
				mc.Wait()
				continue
			}
			_ = s.Apply(OpIndex(st.op), chids[st.ch], cur)
		}
		mc.Wait()
		idx := map[datatransfer.ChannelID]int{}
		for i, c := range chids {
			idx[c] = i
		}
		for _, e := range s.EventsFrom(0) {
			i := idx[e.Chid]
			cands[i] = append(cands[i], e.Vec.String())
		}
		x.Premise++
		nW := s.DS.NumWrites()
		pos := make([]int, len(roles))
		for b := 0; b <= nW; b++ {
			vecs, s2, err := reopen(s.DS.ImageAt(b))
			if err != nil {
				x.Violate("C06", "history;reopen-error;"+name, fmt.Sprintf("boundary %d: %v", b, err), rep)
				return
			}
			s2.Stop()
			want := 0
			for i := range roles {
				if createdAt[i] > 0 && b >= createdAt[i] {
					want++
				}
			}
			if len(vecs) != want {
				ids := []string{}
				for c := range vecs {
					ids = append(ids, doubles.ChidName(c))
				}
				sort.Strings(ids)
				x.Violate("C06", fmt.Sprintf("history;listed=%d;created=%d", len(vecs), want), fmt.Sprintf("%s: image at write boundary %d/%d lists %v, %d channel(s) had been created", name, b, nW, ids, want), rep)
				continue
			}
			for c, v := range vecs {
				i, ok := idx[c]
				if !ok {
					x.Violate("C06", "history;unknown-channel-listed", doubles.ChidName(c), rep)
					continue
				}
				got := v.String()
				found := -1
				for k := pos[i]; k < len(cands[i]); k++ {
					if cands[i][k] == got {
						found = k
						break
					}
				}
				if found < 0 {
					x.Violate("C06", "history;not-a-prefix-state;"+name, fmt.Sprintf("%s: channel %d at boundary %d/%d is in a state that was never current (or goes backwards):\n  image: %s\n  from candidate %d of %d", name, i, b, nW, got, pos[i], len(cands[i])), rep)
					continue
				}
				pos[i] = found
			}
		}
		// the final image is the last announced state of every channel
		final, s3, err := reopen(s.DS.Image())
		if err == nil {
			s3.Stop()
			for i, c := range chids {
				if len(cands[i]) > 0 && final[c].String() != cands[i][len(cands[i])-1] {
					x.Violate("C06", "history;final-state-not-durable;"+name, fmt.Sprintf("channel %d: reopen presents %s, last announced %s", i, final[c], cands[i][len(cands[i])-1]), rep)
				}
				x.Outcome(final[c].String())
			}
		}
	})
	if pv != nil {
		x.Violate("C06", "panic;history;"+name, fmt.Sprintf("%v\n%s", pv, stack), rep)
	}
}

var _ = views.Of

func c06Payloads(x *mc.Cell) {
	fam := doubles.NodeFamily()
	names := make([]string, 0, len(fam))
	for k := range fam {
		names = append(names, k)
	}
	sort.Strings(names)
	script := []crashStep{{0, "create"}, {0, "Accept"}, {0, "TransferInitiated"}, {0, "NewVoucher*"}, {0, "DataReceivedNext"}, {0, "NewVoucherResult*"},
		{0, "SetDataLimit1"}, {0, "DataQueuedNext"}, {0, "PauseInitiator"}, {0, "NewVoucher*"}, {0, "Disconnected"}, {0, "Cancel"}}
	for _, a := range names {
		for _, b := range names {
			for r := InitPush; r <= RespPull; r++ {
				if int(r) != (len(a)+len(b))%4 && a != b {
					continue // every pair once (role rotates), every diagonal pair in all four roles
				}
				v0 := datatransfer.TypedVoucher{Type: "T", Voucher: fam[a]}
				pay := map[string]datatransfer.TypedVoucher{"voucher": {Type: "T2", Voucher: fam[b]}, "result": {Type: "R", Voucher: fam[a]}}
				crashHistory(x, fmt.Sprintf("payload %s/%s/%s", a, b, RoleNames[r]), []Role{r}, []datatransfer.TypedVoucher{v0}, script, pay)
			}
		}
	}
}

func c06TwoChannels(x *mc.Cell, depth int) {
	// two channels, every interleaving of two fixed per-channel scripts
	s0 := []string{"create", "Accept", "TransferInitiated", "DataReceivedNext", "PauseResponder", "FinishTransfer", "ResponderCompletes"}
	s1 := []string{"create", "Accept", "SetDataLimit1", "DataQueuedNext", "NewVoucherResult", "Error"}
	if depth < len(s0) {
		s0 = s0[:depth]
	}
	if depth < len(s1) {
		s1 = s1[:depth]
	}
	v := []datatransfer.TypedVoucher{doubles.Voucher("T", "a"), {Type: "T", Voucher: doubles.NodeFamily()["map_noncanon"]}}
	var rec func(i, j int, cur []crashStep)
	n := 0
	rec = func(i, j int, cur []crashStep) {
		if x.TimeUp() {
			x.Cap("c06TwoChannels: time cap")
			return
		}
		if i == len(s0) && j == len(s1) {
			n++
			crashHistory(x, fmt.Sprintf("two-channels#%d", n), []Role{InitPull, RespPull}, v, cur, nil)
			return
		}
		if i < len(s0) {
			rec(i+1, j, append(append([]crashStep(nil), cur...), crashStep{0, s0[i]}))
		}
		if j < len(s1) {
			rec(i, j+1, append(append([]crashStep(nil), cur...), crashStep{1, s1[j]}))
		}
	}
	rec(0, 0, nil)
}

// c06LongLogs: the voucher and voucher-result logs grow well past the sizes where the stored encoding changes shape
// (CBOR length headers at 24 and 256 entries; any small bound a decoder might impose): 30 vouchers and 260 results
// on one channel next to an untouched second channel, the store reopened at every one of the ~300 write boundaries.
func c06LongLogs(x *mc.Cell) {
	for _, r := range []Role{InitPush, RespPull} {
		steps := []crashStep{{0, "create"}, {1, "create"}, {0, "Accept"}, {0, "TransferInitiated"}}
		for i := 0; i < 30; i++ {
			steps = append(steps, crashStep{0, "NewVoucher*"})
		}
		for i := 0; i < 260; i++ {
			steps = append(steps, crashStep{0, "NewVoucherResult*"})
		}
		steps = append(steps, crashStep{1, "Accept"}, crashStep{0, "DataReceivedNext"})
		other := InitPull
		if r == InitPush {
			other = RespPush
		}
		pay := map[string]datatransfer.TypedVoucher{"voucher": doubles.Voucher("T2", "follow-up"), "result": doubles.Voucher("R", "receipt")}
		crashHistory(x, "long-logs/"+RoleNames[r], []Role{r, other}, []datatransfer.TypedVoucher{doubles.Voucher("T", "a"), doubles.Voucher("T", "b")}, steps, pay)
	}
}

func init() {
	mc.Register("C06", "l1-crash-long-logs", "both", c06LongLogs)
	mc.Register("C06", "l1-crash-payload-family", "both", c06Payloads)
	mc.Register("C06", "l1-crash-two-channels", "quick", func(x *mc.Cell) { c06TwoChannels(x, 4) })
	mc.Register("C06", "l1-crash-two-channels", "thorough", func(x *mc.Cell) { c06TwoChannels(x, 7) })
}
