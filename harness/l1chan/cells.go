package l1chan

import (
	"fmt"
	"sort"
	"strings"

	datatransfer "github.com/filecoin-project/go-data-transfer/v2"

	"verif/doubles"
	"verif/mc"
	"verif/views"
)

// reopen opens a fresh Channels on a copy of img and returns the accessor
// vectors of all listed channels. The instance is stopped before returning.
func reopen(img map[string][]byte) (map[datatransfer.ChannelID]views.Vec, *Sys, error) {
	s2, err := NewSys(doubles.NewRecDSFrom(img))
	if err != nil {
		return nil, nil, err
	}
	m, err := s2.Ch.InProgress()
	if err != nil {
		s2.Stop()
		return nil, nil, err
	}
	out := map[datatransfer.ChannelID]views.Vec{}
	for id, st := range m {
		out[id] = views.Of(st)
	}
	return out, s2, nil
}

// ---------------------------------------------------------------- C06

// c06Hook checks, for the last operation of a history, every datastore write
// boundary created by that operation: reopening the image must present exactly
// one of the states that were current (announced) for the channel, in
// non-decreasing order, and the state returned by the query must be durable.
func c06Hook(lc *lastCtx) {
	s := lc.s
	nW := s.DS.NumWrites()
	// candidate states: the state before the op, then each announced snapshot of this op, in order
	cands := []string{lc.before.String()}
	for _, e := range lc.evs {
		if e.Chid == lc.chid {
			cands = append(cands, e.Vec.String())
		}
	}
	j := 0
	for b := lc.writesBefore; b <= nW; b++ {
		img := s.DS.ImageAt(b)
		vecs, s2, err := reopen(img)
		if err != nil {
			lc.viol("C06", "L1;reopen-error;op="+lc.op.Name, fmt.Sprintf("reopening the image at write boundary %d failed: %v", b, err))
			return
		}
		s2.Stop()
		if len(vecs) != 1 {
			lc.viol("C06", fmt.Sprintf("L1;listed=%d;want=1;op=%s", len(vecs), lc.op.Name), fmt.Sprintf("image at boundary %d lists %d channels, 1 was created", b, len(vecs)))
			continue
		}
		v, ok := vecs[lc.chid]
		if !ok {
			lc.viol("C06", "L1;wrong-id-listed;op="+lc.op.Name, "the listed channel has a different ID")
			continue
		}
		got := v.String()
		found := -1
		for k := j; k < len(cands); k++ {
			if cands[k] == got {
				found = k
				break
			}
		}
		if found < 0 {
			lc.viol("C06", fmt.Sprintf("L1;not-a-prefix-state;op=%s;from=%s", lc.op.Name, datatransfer.Statuses[lc.before.Status]),
				fmt.Sprintf("image at write boundary %d (of %d..%d) is not any state that was current for the channel (or goes backwards):\n  image: %s\n  candidates from index %d: %v", b, lc.writesBefore, nW, got, j, cands))
			continue
		}
		j = found
	}
	// query => durable: the state returned by GetByID equals the image now
	vecs, s2, err := reopen(s.DS.Image())
	if err == nil {
		s2.Stop()
		if v, ok := vecs[lc.chid]; !ok || v.String() != lc.after.String() {
			lc.viol("C06", "L1;query-not-durable;op="+lc.op.Name, fmt.Sprintf("state returned by the query is not what a reopen of the datastore presents:\n  query:  %s\n  reopen: %s", lc.after, v))
		}
	}
}

// ---------------------------------------------------------------- C09 window

// cleanupWindow: for every representative state history h, every ending e1 and
// every window event w: hold the cleanup open, apply e1, apply w inside the
// window, release, and check the cleanup accounting.
func cleanupWindow(x *mc.Cell, role Role, reps [][]int, ops []int, windowOps []int) {
	endings := []int{}
	for i, oi := range ops {
		n := Alphabet[oi].Name
		if n == "Cancel" || n == "Error" || n == "Complete" || n == "FinishTransfer" || n == "ResponderCompletes" {
			endings = append(endings, i)
		}
	}
	name := "cleanup-window-" + RoleNames[role]
	type rp struct {
		Name string `json:"name"`
		Hist []int  `json:"hist"`
		E1   int    `json:"e1"`
		W    int    `json:"w"`
	}
	for _, h := range reps {
		for _, e1 := range endings {
			for _, w := range append([]int{-1}, windowOps...) {
				if x.TimeUp() {
					x.Cap(name + ": time cap")
					return
				}
				h, e1, w := h, e1, w
				x.Executions++
				outcome := ""
				pv, stack := mc.Bubble(x.T, func() {
					s, err := NewSys(nil)
					if err != nil {
						panic(err)
					}
					defer s.Stop()
					chid, err := s.Create(role, 1, doubles.Voucher("T", "v1"))
					if err != nil {
						panic(err)
					}
					cur, _ := s.Vec(chid)
					for _, oi := range h {
						_ = s.Apply(ops[oi], chid, cur)
						cur, _ = s.Vec(chid)
					}
					if Terminal(cur.Status) {
						outcome = "terminal-start"
						return
					}
					hold := make(chan struct{})
					s.Env.HoldCleanup = hold
					released := false
					release := func() {
						if !released {
							released = true
							close(hold)
						}
					}
					defer release()
					nEv := s.NumEvents()
					_ = Alphabet[ops[e1]].Do(s, chid, cur)
					mc.Wait()
					c1, _ := s.Env.Counts(chid)
					if c1 == 0 {
						// e1 did not start a cleanup in this state (e.g. FinishTransfer alone): not an ending here
						outcome = "no-ending"
						return
					}
					x.Premise++
					endingsApplied := 1
					wname := "none"
					var wcall *mc.CallResult
					if w >= 0 {
						wname = Alphabet[w].Name
						// the window operation may itself have to wait for the held handler (e.g. a block report
						// seeding its cache through a state query), so it runs in its own goroutine
						wcall = mc.Go(func() { _ = Alphabet[w].Do(s, chid, cur) })
						mc.Wait()
					}
					// no terminal status may have been published while the cleanup is held
					for _, e := range s.EventsFrom(nEv) {
						if e.Chid == chid && Terminal(e.Vec.Status) {
							x.Violate("C09", fmt.Sprintf("L1;terminal-before-cleanup-returned;e1=%s;w=%s", Alphabet[ops[e1]].Name, wname),
								"a terminal status was published before the cleanup call returned", rp{name, h, e1, w})
						}
					}
					release()
					mc.Wait()
					if wcall != nil && !wcall.Returned() {
						x.Violate("C09", fmt.Sprintf("L1;window;call-did-not-return;w=%s", wname), "an operation issued during cleanup never returned", rp{name, h, e1, w})
						return
					}
					after, err := s.Vec(chid)
					if err != nil {
						panic(err)
					}
					for _, e := range s.EventsFrom(nEv) {
						if e.Code == datatransfer.Cancel || e.Code == datatransfer.Error || e.Code == datatransfer.Complete {
							if w >= 0 && e.Code == opCode[Alphabet[w].Name] {
								endingsApplied = 2
							}
						}
					}
					c2, u2 := s.Env.Counts(chid)
					outcome = fmt.Sprintf("%s c=%d u=%d e=%d", datatransfer.Statuses[after.Status], c2, u2, endingsApplied)
					sigBase := fmt.Sprintf("e1=%s;w=%s;from=%s", Alphabet[ops[e1]].Name, wname, datatransfer.Statuses[cur.Status])
					if !Terminal(after.Status) {
						x.Violate("C09", "L1;window;not-settled;"+sigBase, fmt.Sprintf("after ending %s (window event %s) the channel is %s, not terminal", Alphabet[ops[e1]].Name, wname, datatransfer.Statuses[after.Status]), rp{name, h, e1, w})
					}
					if c2 != u2 || c2 < 1 {
						x.Violate("C09", "L1;window;cleanup!=unprotect;"+sigBase, fmt.Sprintf("cleanups=%d unprotects=%d", c2, u2), rp{name, h, e1, w})
					}
					if w < 0 && (c2 != 1 || u2 != 1) {
						x.Violate("C09", "L1;window;strong;"+sigBase, fmt.Sprintf("one ending, no further input: cleanups=%d unprotects=%d (want 1/1)", c2, u2), rp{name, h, e1, w})
					}
				})
				if pv != nil {
					x.Violate(x.Prop, "harness-panic;"+name, fmt.Sprintf("panic: %v\n%s", pv, stack), rp{name, h, e1, w})
				}
				x.Outcome(outcome)
			}
		}
	}
}

// ---------------------------------------------------------------- C07 sequences

type blk struct {
	size   uint64
	unique bool
}

// c07Sequences: all block sequences of length n over (size in {1,2,4}) x (unique in {t,f}),
// all operation sequences over {next, replay-from-j, reopen}, per direction.
func genSeqs(n int, tied bool) [][]blk {
	sizes := []uint64{1, 2, 4}
	var seqs [][]blk
	var gen func(cur []blk)
	gen = func(cur []blk) {
		if len(cur) == n {
			seqs = append(seqs, append([]blk(nil), cur...))
			return
		}
		for _, u := range []bool{true, false} {
			if tied {
				gen(append(cur, blk{uint64(1) << len(cur), u}))
				continue
			}
			for _, sz := range sizes {
				gen(append(cur, blk{sz, u}))
			}
		}
	}
	gen(nil)
	return seqs
}

func c07Sequences(x *mc.Cell, dir string, seqs [][]blk, extra int) {
	if len(seqs) == 0 {
		return
	}
	n := len(seqs[0])
	name := fmt.Sprintf("c07-seq-%s-n%d", dir, n)
	for si, seq := range seqs {
		seq := seq
		_ = si
		// choices inside one execution: at each step pick {next, replay from j (j=1..hw), reopen}
		x.Enumerate(name+"/"+blkString(seq), mc.EnumOpts{MaxDeviations: -1}, func(c *mc.Chooser) mc.Exec {
			var ex mc.Exec
			pv, stack := mc.Bubble(x.T, func() {
				s, err := NewSys(nil)
				if err != nil {
					panic(err)
				}
				role := InitPull // local node receives
				if dir != "received" {
					role = InitPush
				}
				chid, err := s.Create(role, 1, doubles.Voucher("T", "v1"))
				if err != nil {
					panic(err)
				}
				_ = s.Ch.Accept(chid)
				_ = s.Ch.TransferInitiated(chid)
				mc.Wait()
				report := func(s *Sys, i int) error {
					b := seq[i-1]
					switch dir {
					case "received":
						return s.Ch.DataReceived(chid, doubles.Cid("b"), b.size, int64(i), b.unique)
					case "queued":
						return s.Ch.DataQueued(chid, doubles.Cid("b"), b.size, int64(i), b.unique)
					default:
						return s.Ch.DataSent(chid, doubles.Cid("b"), b.size, int64(i), b.unique)
					}
				}
				progCode := map[string]datatransfer.EventCode{"received": datatransfer.DataReceivedProgress, "queued": datatransfer.DataQueuedProgress, "sent": datatransfer.DataSentProgress}[dir]
				read := func(v views.Vec) (uint64, int64) {
					switch dir {
					case "received":
						return v.Received, v.RIdx
					case "queued":
						return v.Queued, v.QIdx
					default:
						return v.Sent, v.SIdx
					}
				}
				// reference
				seen := map[int]bool{}
				var refBytes uint64
				var refIdx int64
				hw := 0   // highest position reported
				next := 1 // next position in order
				steps := 0
				log := []string{}
				budget := n + extra
				reopens := 0
				for steps < budget {
					// menu: 0 = report `next` (if any left, else stop), 1..hw = replay position j then continue from j+1, hw+1 = reopen
					menu := 1 + hw
					if reopens == 0 {
						menu++
					}
					ch := c.Choose(menu, fmt.Sprintf("step%d", steps))
					steps++
					if ch == hw+1 {
						reopens++
						img := s.DS.Image()
						s.Stop()
						s2, err := NewSys(doubles.NewRecDSFrom(img))
						if err != nil {
							panic(err)
						}
						s = s2
						log = append(log, "reopen")
						continue
					}
					pos := next
					if ch >= 1 {
						pos = ch
					}
					if pos > n {
						break
					}
					nEv := s.NumEvents()
					before, _ := s.Vec(chid)
					err := report(s, pos)
					mc.Wait()
					after, gerr := s.Vec(chid)
					if gerr != nil {
						panic(gerr)
					}
					log = append(log, fmt.Sprintf("report%d", pos))
					progEvents := 0
					for _, e := range s.EventsFrom(nEv) {
						if e.Code == progCode {
							progEvents++
						}
					}
					counted := seq[pos-1].unique && !seen[pos]
					if !seen[pos] {
						seen[pos] = true
					}
					if counted {
						refBytes += seq[pos-1].size
					}
					if int64(pos) > refIdx {
						refIdx = int64(pos)
					}
					if pos > hw {
						hw = pos
					}
					next = pos + 1
					gotB, gotI := read(after)
					bB, bI := read(before)
					rep := mc.EnumReplay(name+"/"+blkString(seq), c)
					if err != nil && err != datatransfer.ErrPause {
						x.Violate("C07", "L1;report-error;dir="+dir, fmt.Sprintf("report returned %v", err), rep)
					}
					if gotB != refBytes || gotI != refIdx {
						x.Violate("C07", fmt.Sprintf("L1;seq;dir=%s;counted=%v;replayed=%v;reopened=%v", dir, counted, bI >= int64(pos), reopens > 0),
							fmt.Sprintf("blocks=%s ops=%v: after reporting position %d: bytes=%d index=%d, reference bytes=%d index=%d", blkString(seq), log, pos, gotB, gotI, refBytes, refIdx), rep)
					}
					if gotB < bB || gotI < bI {
						x.Violate("C07", "L1;seq;decrease;dir="+dir, "total or index decreased", rep)
					}
					want := 0
					if counted {
						want = 1
					}
					if progEvents != want {
						x.Violate("C07", fmt.Sprintf("L1;seq;progress-events=%d;want=%d;dir=%s", progEvents, want, dir), fmt.Sprintf("blocks=%s ops=%v position %d", blkString(seq), log, pos), rep)
					}
				}
				s.Stop()
				ex.Outcome = strings.Join(log, ",") + fmt.Sprintf("=>%d/%d", refBytes, refIdx)
				ex.Premise = true
			})
			if pv != nil {
				x.Violate(x.Prop, "harness-panic;"+name, fmt.Sprintf("panic: %v\n%s", pv, stack), mc.EnumReplay(name+"/"+blkString(seq), c))
			}
			return ex
		})
	}
}

func blkString(seq []blk) string {
	parts := make([]string, len(seq))
	for i, b := range seq {
		u := "n"
		if b.unique {
			u = "u"
		}
		parts[i] = fmt.Sprintf("%d%s", b.size, u)
	}
	return strings.Join(parts, ".")
}

// c07AnyOrder: arbitrary-order reports (index in 1..3 in any order), depth d, weaker oracle:
// each position at most one progress event; bytes = sum of sizes of reports that produced one; index = max.
func c07AnyOrder(x *mc.Cell, dir string, depth int) {
	name := "c07-anyorder-" + dir
	x.Enumerate(name, mc.EnumOpts{MaxDeviations: -1}, func(c *mc.Chooser) mc.Exec {
		var ex mc.Exec
		pv, stack := mc.Bubble(x.T, func() {
			s, err := NewSys(nil)
			if err != nil {
				panic(err)
			}
			defer s.Stop()
			role := InitPull
			if dir != "received" {
				role = InitPush
			}
			chid, _ := s.Create(role, 1, doubles.Voucher("T", "v1"))
			_ = s.Ch.Accept(chid)
			_ = s.Ch.TransferInitiated(chid)
			mc.Wait()
			progCode := map[string]datatransfer.EventCode{"received": datatransfer.DataReceivedProgress, "queued": datatransfer.DataQueuedProgress, "sent": datatransfer.DataSentProgress}[dir]
			perPos := map[int]int{}
			var sum uint64
			var maxI int64
			log := []string{}
			for k := 0; k < depth; k++ {
				ch := c.Choose(6, fmt.Sprintf("r%d", k)) // position 1..3 x unique t/f
				pos := ch%3 + 1
				uniq := ch < 3
				size := uint64(pos) // size tied to position
				nEv := s.NumEvents()
				switch dir {
				case "received":
					_ = s.Ch.DataReceived(chid, doubles.Cid("b"), size, int64(pos), uniq)
				case "queued":
					_ = s.Ch.DataQueued(chid, doubles.Cid("b"), size, int64(pos), uniq)
				default:
					_ = s.Ch.DataSent(chid, doubles.Cid("b"), size, int64(pos), uniq)
				}
				mc.Wait()
				log = append(log, fmt.Sprintf("%d%v", pos, uniq))
				for _, e := range s.EventsFrom(nEv) {
					if e.Code == progCode {
						perPos[pos]++
						sum += size
					}
				}
				if int64(pos) > maxI {
					maxI = int64(pos)
				}
			}
			v, _ := s.Vec(chid)
			var gotB uint64
			var gotI int64
			switch dir {
			case "received":
				gotB, gotI = v.Received, v.RIdx
			case "queued":
				gotB, gotI = v.Queued, v.QIdx
			default:
				gotB, gotI = v.Sent, v.SIdx
			}
			rep := mc.EnumReplay(name, c)
			for p, k := range perPos {
				if k > 1 {
					x.Violate("C07", "L1;anyorder;position-counted-twice;dir="+dir, fmt.Sprintf("reports %v: position %d produced %d progress events", log, p, k), rep)
				}
			}
			if gotB != sum || gotI != maxI {
				x.Violate("C07", "L1;anyorder;totals;dir="+dir, fmt.Sprintf("reports %v: bytes=%d index=%d, want bytes=%d (sum of counted reports) index=%d (max)", log, gotB, gotI, sum, maxI), rep)
			}
			ex.Outcome = fmt.Sprintf("%v=>%d/%d", log, gotB, gotI)
			ex.Premise = true
		})
		if pv != nil {
			x.Violate(x.Prop, "harness-panic;"+name, fmt.Sprintf("panic: %v\n%s", pv, stack), mc.EnumReplay(name, c))
		}
		return ex
	})
}

// ---------------------------------------------------------------- C02 dedicated

// pathsTo returns operation-name histories reaching the terminal status for a role:
// a shortest one and one through a paused/limited history (non-empty flags and logs).
func pathsTo(role Role, term datatransfer.Status) [][]string {
	rich := []string{"Accept", "TransferInitiated", "SetDataLimit1", "DataReceivedNext", "DataQueuedNext", "DataSentNext", "PauseInitiator", "NewVoucher", "NewVoucherResult", "SetRequiresFinalizationT", "Disconnected"}
	var end []string
	switch term {
	case datatransfer.Cancelled:
		end = []string{"Cancel"}
	case datatransfer.Failed:
		end = []string{"Error"}
	case datatransfer.Completed:
		if role.Initiator() {
			end = []string{"FinishTransfer", "ResponderCompletes"}
		} else {
			end = []string{"Complete"}
		}
	}
	short := append([]string{}, end...)
	if term == datatransfer.Completed && role.Initiator() {
		short = append([]string{"Accept", "TransferInitiated"}, end...)
	}
	return [][]string{short, append(append([]string{}, rich...), end...)}
}

func c02Terminal(x *mc.Cell, role Role, term datatransfer.Status, pathIdx int, pairs bool) {
	path := pathsTo(role, term)[pathIdx]
	name := fmt.Sprintf("c02-%s-%s-path%d", RoleNames[role], datatransfer.Statuses[term], pathIdx)
	nOps := len(Alphabet)
	type rp struct {
		Name   string `json:"name"`
		U1, U2 int
		Reopen int
	}
	run := func(u1, u2, reopenMode int) {
		x.Executions++
		outcome := ""
		pv, stack := mc.Bubble(x.T, func() {
			s, err := NewSys(nil)
			if err != nil {
				panic(err)
			}
			chid, err := s.Create(role, 1, doubles.Voucher("T", "v1"))
			if err != nil {
				panic(err)
			}
			cur, _ := s.Vec(chid)
			writesBeforeTerminal := 0
			for i, on := range path {
				if i == len(path)-1 {
					writesBeforeTerminal = s.DS.NumWrites()
				}
				_ = s.Apply(OpIndex(on), chid, cur)
				cur, _ = s.Vec(chid)
			}
			if cur.Status != term {
				panic(fmt.Sprintf("path %v reached %s, not %s", path, datatransfer.Statuses[cur.Status], datatransfer.Statuses[term]))
			}
			x.Premise++
			switch reopenMode {
			case 1: // reopen on the final image
				img := s.DS.Image()
				s.Stop()
				s, err = NewSys(doubles.NewRecDSFrom(img))
			case 2: // reopen at the write boundary that persisted the terminal status (earliest image whose status is terminal)
				img := s.DS.Image()
				for b := writesBeforeTerminal; b <= s.DS.NumWrites(); b++ {
					im := s.DS.ImageAt(b)
					vecs, s2, e2 := reopen(im)
					if e2 == nil {
						s2.Stop()
						if v, ok := vecs[chid]; ok && v.Status == term {
							img = im
							break
						}
					}
				}
				s.Stop()
				s, err = NewSys(doubles.NewRecDSFrom(img))
			}
			if err != nil {
				panic(err)
			}
			defer s.Stop()
			before, err := s.Vec(chid)
			if err != nil {
				x.Violate("C02", "L1;terminated-channel-missing-after-reopen;"+datatransfer.Statuses[term], "GetByID failed after reopen: "+err.Error(), rp{name, u1, u2, reopenMode})
				return
			}
			if before.Status != term {
				x.Violate("C02", "L1;status-changed-by-reopen;"+datatransfer.Statuses[term], "status after reopen: "+datatransfer.Statuses[before.Status], rp{name, u1, u2, reopenMode})
			}
			rawBefore := rawValue(s.DS.Image())
			nEv := s.NumEvents()
			_ = s.Apply(u1, chid, before)
			names := Alphabet[u1].Name
			if u2 >= 0 {
				_ = s.Apply(u2, chid, before)
				names += "," + Alphabet[u2].Name
			}
			after, err := s.Vec(chid)
			if err != nil {
				x.Violate("C02", fmt.Sprintf("L1;terminal=%s;op=%s;reopen=%d;terminated-channel-vanished", datatransfer.Statuses[term], names, reopenMode),
					fmt.Sprintf("[%s] after %v then %s the terminated channel can no longer be queried: %v", RoleNames[role], path, names, err), rp{name, u1, u2, reopenMode})
				return
			}
			evs := s.EventsFrom(nEv)
			rawAfter := rawValue(s.DS.Image())
			sig := fmt.Sprintf("L1;terminal=%s;op=%s;reopen=%d", datatransfer.Statuses[term], names, reopenMode)
			if before.String() != after.String() {
				x.Violate("C02", sig+";state-changed", fmt.Sprintf("[%s] after %v then %s:\n  before: %s\n  after:  %s", RoleNames[role], path, names, before, after), rp{name, u1, u2, reopenMode})
			}
			if rawBefore != rawAfter {
				x.Violate("C02", sig+";datastore-bytes-changed", fmt.Sprintf("[%s] after %v then %s the stored record changed", RoleNames[role], path, names), rp{name, u1, u2, reopenMode})
			}
			if len(evs) != 0 {
				x.Violate("C02", sig+";event-emitted", fmt.Sprintf("[%s] %d events emitted for a terminated channel (first: %s)", RoleNames[role], len(evs), datatransfer.Events[evs[0].Code]), rp{name, u1, u2, reopenMode})
			}
			outcome = names + "|" + after.String()
		})
		if pv != nil {
			x.Violate(x.Prop, "harness-panic;"+name, fmt.Sprintf("panic: %v\n%s", pv, stack), rp{name, u1, u2, reopenMode})
		}
		x.Outcome(outcome)
		x.State(outcome)
	}
	for reopenMode := 0; reopenMode < 3; reopenMode++ {
		for u1 := 0; u1 < nOps; u1++ {
			run(u1, -1, reopenMode)
			if pairs && reopenMode < 2 {
				for u2 := 0; u2 < nOps; u2++ {
					if x.TimeUp() {
						x.Cap(name + ": time cap")
						return
					}
					run(u1, u2, reopenMode)
				}
			}
		}
	}
}

// rawValue renders the datastore content canonically (keys sorted).
func rawValue(img map[string][]byte) string {
	keys := make([]string, 0, len(img))
	for k := range img {
		keys = append(keys, k)
	}
	sort.Strings(keys)
	var sb strings.Builder
	for _, k := range keys {
		fmt.Fprintf(&sb, "%s=%x;", k, img[k])
	}
	return mc.Hash(sb.String())
}

func init() {
	for r := InitPush; r <= RespPull; r++ {
		r := r
		// C06: factored closure with the crash-boundary hook; thorough adds a full-key depth-4 pass
		mc.Register("C06", "l1-crash-closure/"+RoleNames[r], "both", func(x *mc.Cell) {
			runClosure(x, closureOpts{role: r, roleConsist: true, fullKey: false, noBuiltin: true, onLast: c06Hook, name: "crash-closure-" + RoleNames[r]})
		})
		mc.Register("C06", "l1-crash-fullkey/"+RoleNames[r], "thorough", func(x *mc.Cell) {
			runClosure(x, closureOpts{role: r, roleConsist: false, fullKey: true, maxDepth: 3, noBuiltin: true, onLast: c06Hook, name: "crash-fullkey-" + RoleNames[r]})
		})
		// C09: strong form inside the closure (built-in), window form over representative states
		mc.Register("C09", "l1-closure/"+RoleNames[r], "both", func(x *mc.Cell) {
			o := closureOpts{role: r, roleConsist: true, fullKey: false, name: "closure-factored-" + RoleNames[r]}
			runClosure(x, o)
		})
		mc.Register("C09", "l1-cleanup-window/"+RoleNames[r], "both", func(x *mc.Cell) {
			o := closureOpts{role: r, roleConsist: true, fullKey: false, noBuiltin: true, name: "reps-" + RoleNames[r]}
			if !x.Thorough() {
				o.maxDepth = 4
			}
			ops := opsFor(o)
			var reps [][]int
			reps = collectReps(x, o)
			var window []int
			for _, n := range []string{"Cancel", "Error", "CompleteCleanupOnRestart", "Restart", "DataReceivedNext", "PauseInitiator"} {
				window = append(window, OpIndex(n))
			}
			if x.Thorough() {
				// every bookkeeping and ending operation of the alphabet (plus the two restart records). Lifecycle
				// operations are left out: C09 promises settling "without further input", and a lifecycle event that
				// arrives while the cleanup is in flight (e.g. BeginFinalizing, valid from any status) is further input
				// that may legitimately move the channel elsewhere (see DESIGN 9.3, observation e)
				window = nil
				for i, op := range Alphabet {
					if op.Kind == "book" || op.Kind == "end" || op.Name == "CompleteCleanupOnRestart" || op.Name == "Restart" {
						window = append(window, i)
					}
				}
			}
			cleanupWindow(x, r, reps, ops, window)
		})
		mc.Register("C18", "l1-closure-duplicate-create/"+RoleNames[r], "both", func(x *mc.Cell) {
			runClosure(x, closureOpts{role: r, roleConsist: true, fullKey: false, name: "closure-factored-" + RoleNames[r]})
		})
		for _, term := range []datatransfer.Status{datatransfer.Completed, datatransfer.Failed, datatransfer.Cancelled} {
			for p := 0; p < 2; p++ {
				term, p := term, p
				mc.Register("C02", fmt.Sprintf("l1-terminal/%s/%s/path%d", RoleNames[r], datatransfer.Statuses[term], p), "both", func(x *mc.Cell) {
					c02Terminal(x, r, term, p, x.Thorough())
				})
			}
		}
	}
	for _, dir := range []string{"received", "queued", "sent"} {
		dir := dir
		mc.Register("C07", "l1-seq/"+dir, "quick", func(x *mc.Cell) { c07Sequences(x, dir, genSeqs(3, true), 1) })
		for first := 0; first < 6; first++ {
			first := first
			mc.Register("C07", fmt.Sprintf("l1-seq/%s/first%d", dir, first), "thorough", func(x *mc.Cell) {
				all := genSeqs(3, false)
				per := len(all) / 6
				c07Sequences(x, dir, all[first*per:(first+1)*per], 2)
			})
		}
		mc.Register("C07", "l1-anyorder/"+dir, "quick", func(x *mc.Cell) { c07AnyOrder(x, dir, 3) })
		mc.Register("C07", "l1-anyorder/"+dir, "thorough", func(x *mc.Cell) { c07AnyOrder(x, dir, 4) })
	}
}

// collectReps runs a closure (no oracles) and returns one shortest history per canonical state.
func collectReps(x *mc.Cell, o closureOpts) [][]int {
	var reps [][]int
	ops := opsFor(o)
	opName := func(i int) string { return Alphabet[ops[i]].Name }
	saveT, saveE := x.Transitions, x.Executions
	reps = x.BFS(o.name, mc.BFSOpts{NumOps: len(ops), MaxDepth: o.maxDepth, OpName: opName}, func(hist []int) (string, bool) {
		key, enabled := "", true
		mc.Bubble(x.T, func() {
			s, err := NewSys(nil)
			if err != nil {
				panic(err)
			}
			defer s.Stop()
			chid, _ := s.Create(o.role, 1, doubles.Voucher("T", "v1"))
			cur, _ := s.Vec(chid)
			for hi, oi := range hist {
				op := Alphabet[ops[oi]]
				if op.Enabled != nil && !op.Enabled(cur) {
					if hi == len(hist)-1 {
						enabled = false
					}
					return
				}
				_ = s.Apply(ops[oi], chid, cur)
				cur, _ = s.Vec(chid)
			}
			key = Key(cur, false)
		})
		return key, enabled
	})
	_ = saveT
	_ = saveE
	return reps
}
