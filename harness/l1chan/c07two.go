package l1chan

import (
	"fmt"

	datatransfer "github.com/filecoin-project/go-data-transfer/v2"
	"github.com/libp2p/go-libp2p/core/peer"

	"verif/doubles"
	"verif/mc"
	"verif/views"
)

// c07TwoChannels: two live channels on one node that share the numeric transfer ID but not the initiator
// (transfer IDs are unique per initiating peer only). Reports are made in position order per channel (next
// position, or a replay of an earlier one), channels interleaved in every order, with an optional reopen of the
// datastore. Oracle per channel and direction: byte total = summed sizes of its own positions 1..hw, index = hw,
// one progress event per advancing report, none for a replay.
func c07TwoChannels(x *mc.Cell, dir string, depth int) {
	name := "c07-two-channels-" + dir
	type chn struct {
		chid datatransfer.ChannelID
		hw   int
		sum  uint64
	}
	x.Enumerate(name, mc.EnumOpts{MaxDeviations: -1}, func(c *mc.Chooser) mc.Exec {
		var ex mc.Exec
		pv, stack := mc.Bubble(x.T, func() {
			s, err := NewSys(nil)
			if err != nil {
				panic(err)
			}
			defer func() { s.Stop() }()
			// the local node (A) is the responder of both: a pull from B and a pull from C (it queues and sends),
			// or a push from B and a push from C (it receives)
			mk := func(ini peer.ID) datatransfer.ChannelID {
				snd, rcv := doubles.PeerA, ini
				if dir == "received" {
					snd, rcv = ini, doubles.PeerA
				}
				chid, err := s.Ch.CreateNew(doubles.PeerA, 5, doubles.Cid("root"), doubles.AllSelector(), doubles.Voucher("T", "v"), ini, snd, rcv)
				if err != nil {
					panic(err)
				}
				if err := s.Ch.Open(chid); err != nil {
					panic(err)
				}
				_ = s.Ch.Accept(chid)
				_ = s.Ch.TransferInitiated(chid)
				mc.Wait()
				return chid
			}
			chs := []*chn{{chid: mk(doubles.PeerB)}, {chid: mk(doubles.PeerC)}}
			progCode := map[string]datatransfer.EventCode{"received": datatransfer.DataReceivedProgress, "queued": datatransfer.DataQueuedProgress, "sent": datatransfer.DataSentProgress}[dir]
			read := func(v views.Vec) (uint64, int64) {
				switch dir {
				case "received":
					return v.Received, v.RIdx
				case "queued":
					return v.Queued, v.QIdx
				}
				return v.Sent, v.SIdx
			}
			size := func(ci, pos int) uint64 { return uint64(10*pos + ci + 1) }
			log := []string{}
			reopened := false
			for k := 0; k < depth; k++ {
				// 0,1: next position on channel 0/1; 2,3: replay position 1 on channel 0/1; 4: reopen the datastore
				ch := c.Choose(5, fmt.Sprintf("r%d", k))
				if ch == 4 {
					if reopened {
						continue
					}
					reopened = true
					img := s.DS.Image()
					s.Stop()
					s2, err := NewSys(doubles.NewRecDSFrom(img))
					if err != nil {
						panic(err)
					}
					s = s2
					log = append(log, "reopen")
					continue
				}
				ci := ch % 2
				t := chs[ci]
				pos := t.hw + 1
				replay := ch >= 2
				if replay {
					if t.hw == 0 {
						continue
					}
					pos = 1
				}
				nEv := s.NumEvents()
				sz := size(ci, pos)
				switch dir {
				case "received":
					_ = s.Ch.DataReceived(t.chid, doubles.Cid("b"), sz, int64(pos), true)
				case "queued":
					_ = s.Ch.DataQueued(t.chid, doubles.Cid("b"), sz, int64(pos), true)
				default:
					_ = s.Ch.DataSent(t.chid, doubles.Cid("b"), sz, int64(pos), true)
				}
				mc.Wait()
				log = append(log, fmt.Sprintf("ch%d:pos%d", ci, pos))
				progress := 0
				for _, e := range s.EventsFrom(nEv) {
					if e.Code == progCode && e.Chid == t.chid {
						progress++
					}
					if e.Code == progCode && e.Chid != t.chid {
						x.Violate("C07", "two-channels;progress-on-other-channel;dir="+dir, fmt.Sprintf("%v: a report on %s fired a progress event on %s", log, t.chid, e.Chid), mc.EnumReplay(name, c))
					}
				}
				want := 0
				if !replay {
					want = 1
					t.hw = pos
					t.sum += sz
				}
				ex.Premise = true
				if progress != want {
					x.Violate("C07", fmt.Sprintf("two-channels;progress-events=%d;want=%d;replay=%v;dir=%s", progress, want, replay, dir), fmt.Sprintf("%v", log), mc.EnumReplay(name, c))
				}
				for cj, u := range chs {
					v, err := s.Vec(u.chid)
					if err != nil {
						panic(err)
					}
					b, i := read(v)
					if b != u.sum || i != int64(u.hw) {
						x.Violate("C07", fmt.Sprintf("two-channels;totals-differ-from-own-reports;dir=%s", dir),
							fmt.Sprintf("after %v channel %d (same transfer id, other initiator) has bytes=%d index=%d, its own reports give bytes=%d index=%d", log, cj, b, i, u.sum, u.hw), mc.EnumReplay(name, c))
					}
				}
			}
			ex.Outcome = fmt.Sprint(log)
		})
		if pv != nil {
			x.Violate("C07", "two-channels;panic;dir="+dir, fmt.Sprintf("%v\n%s", pv, stack), mc.EnumReplay(name, c))
		}
		return ex
	})
}

func init() {
	for _, dir := range []string{"received", "queued", "sent"} {
		dir := dir
		mc.Register("C07", "l1-two-channels-same-transfer-id/"+dir, "quick", func(x *mc.Cell) { c07TwoChannels(x, dir, 5) })
		mc.Register("C07", "l1-two-channels-same-transfer-id/"+dir, "thorough", func(x *mc.Cell) { c07TwoChannels(x, dir, 7) })
	}
}
