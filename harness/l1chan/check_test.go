package l1chan

import (
	"testing"

	"verif/mc"
)

func TestCheck(t *testing.T) { mc.Main(t, "l1chan") }
