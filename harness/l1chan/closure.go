package l1chan

import (
	"fmt"

	datatransfer "github.com/filecoin-project/go-data-transfer/v2"

	"verif/doubles"
	"verif/mc"
	"verif/views"
)

// opCode maps an op to the event code whose announcement means "applied".
var opCode = map[string]datatransfer.EventCode{
	"Accept": datatransfer.Accept, "TransferInitiated": datatransfer.TransferInitiated, "FinishTransfer": datatransfer.FinishTransfer,
	"ResponderCompletes": datatransfer.ResponderCompletes, "ResponderBeginsFinalization": datatransfer.ResponderBeginsFinalization,
	"Complete": datatransfer.Complete, "BeginFinalizing": datatransfer.BeginFinalizing, "Cancel": datatransfer.Cancel, "Error": datatransfer.Error,
	"CreateDuplicate": datatransfer.EventCode(-1), "Opened": datatransfer.Opened, "Restart": datatransfer.Restart, "CompleteCleanupOnRestart": datatransfer.CompleteCleanupOnRestart,
	"DataReceivedNext": datatransfer.DataReceived, "DataQueuedNext": datatransfer.DataQueued, "DataSentNext": datatransfer.DataSent,
	"DataReceivedReplay1": datatransfer.DataReceived,
	"PauseInitiator":      datatransfer.PauseInitiator, "ResumeInitiator": datatransfer.ResumeInitiator,
	"PauseResponder": datatransfer.PauseResponder, "ResumeResponder": datatransfer.ResumeResponder,
	"NewVoucher": datatransfer.NewVoucher, "NewVoucherResult": datatransfer.NewVoucherResult,
	"SetDataLimit1": datatransfer.SetDataLimit, "SetDataLimit0": datatransfer.SetDataLimit,
	"SetRequiresFinalizationT": datatransfer.SetRequiresFinalization, "SetRequiresFinalizationF": datatransfer.SetRequiresFinalization,
	"Disconnected": datatransfer.Disconnected, "SendDataError": datatransfer.SendDataError, "ReceiveDataError": datatransfer.ReceiveDataError,
	"RequestCancelled": datatransfer.RequestCancelled,
}

// spec is the history-derived reference state (a transcription of what the
// properties say, never of the FSM table).
type spec struct {
	acc, tf, rc, rf, ended, fin bool
	ti                          bool // the local transport reported that the transfer was initiated
}

func (sp spec) String() string {
	b := func(x bool) byte {
		if x {
			return '1'
		}
		return '0'
	}
	return string([]byte{b(sp.acc), b(sp.tf), b(sp.rc), b(sp.rf), b(sp.ended), b(sp.fin), b(sp.ti)})
}

func completingOrDone(s datatransfer.Status) bool {
	return s == datatransfer.Completing || s == datatransfer.Completed
}

func liveForPause(s datatransfer.Status) bool {
	switch s {
	case datatransfer.Requested, datatransfer.Queued, datatransfer.AwaitingAcceptance, datatransfer.Ongoing:
		return true
	}
	return false
}

// sameExceptStatus compares the non-lifecycle fields (R3). rp is compared only
// when neither side is Finalizing (the ResponderPaused view includes Finalizing).
func r3Diff(b, a views.Vec) string {
	d := ""
	add := func(n string, x, y any) {
		if fmt.Sprint(x) != fmt.Sprint(y) {
			d += fmt.Sprintf(" %s:%v->%v", n, x, y)
		}
	}
	add("queued", b.Queued, a.Queued)
	add("sent", b.Sent, a.Sent)
	add("received", b.Received, a.Received)
	add("qidx", b.QIdx, a.QIdx)
	add("sidx", b.SIdx, a.SIdx)
	add("ridx", b.RIdx, a.RIdx)
	add("ipaused", b.IPaused, a.IPaused)
	if b.Status != datatransfer.Finalizing && a.Status != datatransfer.Finalizing {
		add("rpaused", b.RPaused, a.RPaused)
	}
	add("limit", b.Limit, a.Limit)
	add("reqfin", b.ReqFin, a.ReqFin)
	add("vouchers", b.Vouchers, a.Vouchers)
	add("results", b.Results, a.Results)
	return d
}

// lastCtx is handed to the optional onLast hook for the last operation of a history.
type lastCtx struct {
	s             *Sys
	chid          datatransfer.ChannelID
	role          Role
	op            Op
	applied       bool
	before, after views.Vec
	st            datatransfer.ChannelState
	evs           []Ev
	evBase        int // index of the first event of this operation
	writesBefore  int
	cleanBefore   int
	unprotBefore  int
	sp            spec
	viol          func(prop, sig, msg string)
}

// closureOpts selects what a closure run explores.
type closureOpts struct {
	parallel    int
	onLast      func(lc *lastCtx)
	noBuiltin   bool // skip the built-in transition oracles (hook only)
	role        Role
	roleConsist bool // restrict to the role-consistent alphabet
	fullKey     bool
	maxDepth    int
	maxStates   int
	name        string
}

func opsFor(o closureOpts) []int {
	var ops []int
	for i, op := range Alphabet {
		if o.roleConsist {
			want := byte('r')
			if o.role.Initiator() {
				want = 'i'
			}
			ok := false
			for j := 0; j < len(op.Roles); j++ {
				if op.Roles[j] == want {
					ok = true
				}
			}
			if !ok {
				continue
			}
		}
		ops = append(ops, i)
	}
	return ops
}

// runClosure explores the reachable state graph of one channel and evaluates
// the transition oracles of C02/C03/C07/C11/C19 on every transition.
func runClosure(x *mc.Cell, o closureOpts) {
	ops := opsFor(o)
	opName := func(i int) string { return Alphabet[ops[i]].Name }
	x.BFS(o.name, mc.BFSOpts{NumOps: len(ops), MaxDepth: o.maxDepth, MaxStates: o.maxStates, OpName: opName, Parallel: o.parallel},
		func(hist []int) (key string, enabled bool) {
			enabled = true
			pv, stack := mc.Bubble(x.T, func() {
				s, err := NewSys(nil)
				if err != nil {
					panic(err)
				}
				defer s.Stop()
				chid, err := s.Create(o.role, 1, doubles.Voucher("T", "v1"))
				if err != nil {
					panic(err)
				}
				var sp spec
				cur, err := s.Vec(chid)
				if err != nil {
					panic(err)
				}
				var prevV, prevR []datatransfer.TypedVoucher
				st0, _ := s.Get(chid)
				prevV, prevR = st0.Vouchers(), st0.VoucherResults()
				for hi, oi := range hist {
					op := Alphabet[ops[oi]]
					last := hi == len(hist)-1
					if op.Enabled != nil && !op.Enabled(cur) {
						if !last {
							panic(mc.ErrDiverged{Msg: "disabled op inside history"})
						}
						enabled = false
						return
					}
					nEv := s.NumEvents()
					writesBefore := s.DS.NumWrites()
					cleanBefore, unprotBefore := s.Env.Counts(chid)
					_ = s.Apply(ops[oi], chid, cur)
					st, err := s.Get(chid)
					if err != nil {
						panic(err)
					}
					after := views.Of(st)
					evs := s.EventsFrom(nEv)
					applied := false
					for _, e := range evs {
						if e.Code == opCode[op.Name] {
							applied = true
						}
					}
					before := cur
					wasTerminal := Terminal(before.Status)
					// ---- reference state update
					if applied {
						switch op.Name {
						case "Accept":
							sp.acc = true
						case "TransferInitiated":
							sp.ti = true
						case "FinishTransfer":
							sp.tf = true
						case "ResponderCompletes":
							sp.rc, sp.rf = true, false
						case "ResponderBeginsFinalization":
							sp.rc, sp.rf = false, true
						case "Cancel", "Error":
							sp.ended = true
						case "BeginFinalizing":
							sp.fin = true
						case "Complete":
							sp.fin = false
							sp.ended = true // responder's own completion ends the normal flow
						case "ResumeResponder":
							if before.Status == datatransfer.Finalizing {
								sp.fin = false
							}
						}
					}
					if last {
						rep := mc.BFSReplay(o.name, hist, opName)
						viol := func(prop, sig, msg string) {
							x.Violate(prop, sig, fmt.Sprintf("%s [%s] history=%v: %s\n  before: %s\n  after:  %s", o.name, RoleNames[o.role], histNames(hist, opName), msg, before, after), rep)
						}
						if o.onLast != nil {
							o.onLast(&lastCtx{s: s, chid: chid, role: o.role, op: op, applied: applied, before: before, after: after, st: st, evs: evs, evBase: nEv,
								writesBefore: writesBefore, cleanBefore: cleanBefore, unprotBefore: unprotBefore, sp: sp, viol: viol})
						}
						if o.noBuiltin {
							goto next
						}
						// C09 (strong form, nothing held): entering a terminal status happens with exactly one cleanup + one unprotect
						{
							c2, u2 := s.Env.Counts(chid)
							dc, du := c2-cleanBefore, u2-unprotBefore
							if !wasTerminal && Terminal(after.Status) {
								if dc != 1 || du != 1 {
									viol("C09", fmt.Sprintf("L1;ending=%s;from=%s;cleanups=%d;unprotects=%d", op.Name, datatransfer.Statuses[before.Status], dc, du),
										fmt.Sprintf("channel ended in %s with %d CleanupChannel and %d Unprotect calls (want exactly 1 and 1)", datatransfer.Statuses[after.Status], dc, du))
								}
							} else if dc != 0 || du != 0 {
								viol("C09", fmt.Sprintf("L1;spurious-cleanup;op=%s;from=%s", op.Name, datatransfer.Statuses[before.Status]), fmt.Sprintf("%d cleanup / %d unprotect calls without an ending", dc, du))
							}
							if after.Status == datatransfer.Cancelling || after.Status == datatransfer.Failing || after.Status == datatransfer.Completing {
								viol("C09", "L1;stuck-in="+datatransfer.Statuses[after.Status]+";op="+op.Name, "channel did not settle in a terminal status without further input")
							}
						}
						// C18: duplicate creation is refused and changes nothing
						if op.Name == "CreateDuplicate" {
							if s.lastDupErr == nil {
								viol("C18", "L1;duplicate-create-accepted;status="+datatransfer.Statuses[before.Status], "CreateNew for an existing channel ID returned no error")
							}
							if before.String() != after.String() || len(evs) > 0 {
								viol("C18", "L1;duplicate-create-changed-state;status="+datatransfer.Statuses[before.Status], "CreateNew for an existing channel ID changed the channel or emitted events")
							}
						}
						// C02: terminal is absorbing
						if wasTerminal {
							if before.String() != after.String() {
								viol("C02", fmt.Sprintf("L1;terminal=%s;op=%s;state-changed", datatransfer.Statuses[before.Status], op.Name), "state changed after terminal status")
							}
							if len(evs) > 0 {
								viol("C02", fmt.Sprintf("L1;terminal=%s;op=%s;event-emitted", datatransfer.Statuses[before.Status], op.Name), fmt.Sprintf("%d event(s) emitted after terminal status", len(evs)))
							}
						}
						// C03 R2: bookkeeping never changes the status
						if op.Kind == "book" && after.Status != before.Status {
							if !(op.Name == "ResumeResponder" && before.Status == datatransfer.Finalizing) {
								viol("C03", fmt.Sprintf("R2;op=%s;from=%s;to=%s", op.Name, datatransfer.Statuses[before.Status], datatransfer.Statuses[after.Status]), "bookkeeping event changed the lifecycle status")
							}
						}
						// C03 R3: lifecycle events never change counters/flags/vouchers
						if op.Kind != "book" {
							if d := r3Diff(before, after); d != "" {
								viol("C03", fmt.Sprintf("R3;op=%s;from=%s", op.Name, datatransfer.Statuses[before.Status]), "lifecycle event changed non-lifecycle fields:"+d)
							}
						}
						// C03 R1a (initiator, accepted, normal flow)
						if o.role.Initiator() && o.roleConsist && sp.acc && !sp.ended {
							want := sp.tf && sp.rc
							got := completingOrDone(after.Status)
							if want != got {
								viol("C03", fmt.Sprintf("R1a;want=%v;got=%s;op=%s;from=%s;tf=%v;rc=%v;rf=%v", want, datatransfer.Statuses[after.Status], op.Name, datatransfer.Statuses[before.Status], sp.tf, sp.rc, sp.rf),
									fmt.Sprintf("accepted initiator channel: completed=%v but transport-finished=%v responder-final-complete=%v (responder-finalizing=%v)", got, sp.tf, sp.rc, sp.rf))
							}
						}
						// C03 R1b: local-only completion
						if o.role.Initiator() && o.roleConsist && !sp.ended && op.Name == "FinishTransfer" && before.Status == datatransfer.AwaitingAcceptance && applied {
							if after.Status != datatransfer.Completed {
								viol("C03", "R1b;FinishTransfer@AwaitingAcceptance;got="+datatransfer.Statuses[after.Status], "transfer finished locally before any acceptance must complete")
							}
						}
						// C03 R4: responder finalization
						if !o.role.Initiator() && o.roleConsist {
							if op.Name == "BeginFinalizing" && applied && !wasTerminal {
								if after.Status != datatransfer.Finalizing || !after.RPaused {
									viol("C03", "R4;enter;got="+datatransfer.Statuses[after.Status], "BeginFinalizing must enter Finalizing and report the responder paused")
								}
							}
							if before.Status == datatransfer.Finalizing {
								switch {
								case op.Name == "ResumeResponder":
									if after.Status != datatransfer.Completed {
										viol("C03", "R4;release;got="+datatransfer.Statuses[after.Status], "ResumeResponder in Finalizing must complete the channel")
									}
								case op.Kind == "book" || op.Name == "Accept" || op.Name == "TransferInitiated":
									if after.Status != datatransfer.Finalizing || !after.RPaused {
										viol("C03", fmt.Sprintf("R4;stay;op=%s;got=%s", op.Name, datatransfer.Statuses[after.Status]), "a responder awaiting finalization must stay in Finalizing (paused) until released")
									}
								}
							}
						}
						// C07 (and C01's totals): while the channel is transferring - the local transport has initiated the transfer
						// and has not finished it, nothing ended it, a responder is not in finalization - a block reported at a new
						// position with a unique block is counted, whatever the counterparty has announced meanwhile
						if o.roleConsist && sp.ti && !sp.tf && !sp.ended && !sp.fin && !wasTerminal {
							switch op.Name {
							case "DataReceivedNext":
								if after.Received != before.Received+1 || after.RIdx != before.RIdx+1 {
									viol("C07", "L1;transferring-block-not-counted;op="+op.Name+";status="+datatransfer.Statuses[before.Status], fmt.Sprintf("received %d->%d index %d->%d", before.Received, after.Received, before.RIdx, after.RIdx))
								}
							case "DataQueuedNext":
								if after.Queued != before.Queued+1 || after.QIdx != before.QIdx+1 {
									viol("C07", "L1;transferring-block-not-counted;op="+op.Name+";status="+datatransfer.Statuses[before.Status], fmt.Sprintf("queued %d->%d index %d->%d", before.Queued, after.Queued, before.QIdx, after.QIdx))
								}
							case "DataSentNext":
								if after.Sent != before.Sent+1 || after.SIdx != before.SIdx+1 {
									viol("C07", "L1;transferring-block-not-counted;op="+op.Name+";status="+datatransfer.Statuses[before.Status], fmt.Sprintf("sent %d->%d index %d->%d", before.Sent, after.Sent, before.SIdx, after.SIdx))
								}
							}
						}
						// C07: nothing decreases
						if after.Queued < before.Queued || after.Sent < before.Sent || after.Received < before.Received ||
							after.QIdx < before.QIdx || after.SIdx < before.SIdx || after.RIdx < before.RIdx {
							viol("C07", "L1;decrease;op="+op.Name, "a total or block index decreased")
						}
						// C11: pause flags
						checkPauseFlags(viol, op, before, after, applied)
						// C19: views + append-only logs
						for _, p := range views.Check(st) {
							viol("C19", p.Sig, p.Msg)
						}
						for _, e := range evs {
							for _, p := range views.Check(e.St) {
								viol("C19", p.Sig, "(subscriber snapshot) "+p.Msg)
							}
						}
						if !views.IsPrefix(prevV, st.Vouchers()) || !views.IsPrefix(prevR, st.VoucherResults()) {
							viol("C19", "logs-not-append-only;op="+op.Name, "voucher / voucher-result log is not an extension of the previous one")
						}
						// each applied voucher / voucher result is recorded exactly once (also when it equals the previous entry)
						wantV, wantR := len(prevV), len(prevR)
						if applied && op.Name == "NewVoucher" {
							wantV++
						}
						if applied && op.Name == "NewVoucherResult" {
							wantR++
						}
						if len(st.Vouchers()) != wantV || len(st.VoucherResults()) != wantR {
							viol("C19", fmt.Sprintf("log-length;op=%s;applied=%v;vouchers=%d->%d;results=%d->%d", op.Name, applied, len(prevV), len(st.Vouchers()), len(prevR), len(st.VoucherResults())),
								"an applied NewVoucher / NewVoucherResult adds exactly one entry to its log, every other operation none")
						}
					}
				next:
					prevV, prevR = st.Vouchers(), st.VoucherResults()
					cur = after
				}
				key = Key(cur, o.fullKey) + " " + sp.String()
			})
			if pv != nil {
				if _, ok := pv.(mc.ErrDiverged); ok {
					panic(pv)
				}
				x.Violate(x.Prop, "harness-panic;"+o.name, fmt.Sprintf("panic in execution %v: %v\n%s", histNames(hist, opName), pv, stack), mc.BFSReplay(o.name, hist, opName))
				return "panic", false
			}
			return key, enabled
		})
}

func histNames(h []int, f func(int) string) []string {
	out := make([]string, len(h))
	for i, v := range h {
		out[i] = f(v)
	}
	return out
}

// checkPauseFlags is the C11 transition oracle at L1.
func checkPauseFlags(viol func(prop, sig, msg string), op Op, b, a views.Vec, applied bool) {
	type act struct {
		initiator bool
		val       bool
	}
	acts := map[string]act{
		"PauseInitiator": {true, true}, "ResumeInitiator": {true, false},
		"PauseResponder": {false, true}, "ResumeResponder": {false, false},
	}
	ac, isPause := acts[op.Name]
	fin := b.Status == datatransfer.Finalizing || a.Status == datatransfer.Finalizing
	if !isPause {
		// no other (non data-limit) operation may flip a pause flag
		if a.IPaused != b.IPaused {
			viol("C11", "L1;flag-changed-by="+op.Name+";flag=initiator", "initiator pause flag changed by a non-pause event")
		}
		if !fin && a.RPaused != b.RPaused && !(op.Name[:4] == "Data") {
			viol("C11", "L1;flag-changed-by="+op.Name+";flag=responder", "responder pause flag changed by a non-pause event")
		}
		return
	}
	// its own flag: either set to the stated value, or unchanged
	own := func(v views.Vec) bool {
		if ac.initiator {
			return v.IPaused
		}
		return v.RPaused
	}
	other := func(v views.Vec) bool {
		if ac.initiator {
			return v.RPaused
		}
		return v.IPaused
	}
	if !(ac.initiator) && fin {
		// the responder view includes Finalizing; only the release is specified (C03 R4)
	} else if own(a) != ac.val && own(a) != own(b) {
		viol("C11", "L1;own-flag;op="+op.Name, "pause/resume flipped its own flag to the wrong value")
	}
	if ac.initiator || !fin {
		if other(a) != other(b) && !(ac.initiator && fin) {
			viol("C11", "L1;other-flag;op="+op.Name+";from="+datatransfer.Statuses[b.Status], "pause/resume of one party changed the other party's flag")
		}
	}
	if liveForPause(b.Status) && own(a) != ac.val {
		viol("C11", "L1;must-apply;op="+op.Name+";status="+datatransfer.Statuses[b.Status], "pause/resume not applied in a live status")
	}
	// a resume of a party that IS paused is never meaningless while the channel is alive
	if !ac.val && own(b) && own(a) && !(fin && !ac.initiator) && ResumeMeaningful(ac.initiator, b.Status) {
		viol("C11", "L1;resume-of-a-paused-party-ignored;op="+op.Name+";status="+datatransfer.Statuses[b.Status], "the party was paused and resumed, but its flag is still set")
	}
	// nothing else changes
	bb, aa := b, a
	bb.IPaused, bb.RPaused, bb.Both, bb.SelfP = false, false, false, false
	aa.IPaused, aa.RPaused, aa.Both, aa.SelfP = false, false, false, false
	if op.Name == "ResumeResponder" && b.Status == datatransfer.Finalizing {
		bb.Status, aa.Status = 0, 0
	}
	if bb.String() != aa.String() {
		viol("C11", "L1;other-fields;op="+op.Name+";from="+datatransfer.Statuses[b.Status], "pause/resume changed fields other than the pause flags")
	}
}

func init() {
	for _, prop := range []string{"C03", "C11", "C19", "C02", "C07"} {
		for r := InitPush; r <= RespPull; r++ {
			r := r
			prop := prop
			// quick: factored key to closure + full-key coupling guard to depth 3
			mc.Register(prop, fmt.Sprintf("l1-closure-factored/%s", RoleNames[r]), "both", func(x *mc.Cell) {
				runClosure(x, closureOpts{role: r, roleConsist: true, fullKey: false, name: "closure-factored-" + RoleNames[r]})
			})
			mc.Register(prop, fmt.Sprintf("l1-coupling-guard/%s", RoleNames[r]), "quick", func(x *mc.Cell) {
				runClosure(x, closureOpts{role: r, roleConsist: true, fullKey: true, maxDepth: 3, name: "coupling-guard-" + RoleNames[r]})
			})
			// thorough: the full accessor key (counters, indexes, log lengths, limit, message class), to closure,
			// expanded by 8 child processes per role; plus the role-INconsistent alphabet to depth 3 (non-corruption oracles only)
			if prop == "C03" {
				mc.Register(prop, fmt.Sprintf("l1-closure-full-key/%s", RoleNames[r]), "thorough", func(x *mc.Cell) {
					runClosure(x, closureOpts{role: r, roleConsist: true, fullKey: true, parallel: 8, maxStates: 25000, name: "closure-full-" + RoleNames[r]})
				})
			} else {
				mc.Register(prop, fmt.Sprintf("l1-full-key-depth5/%s", RoleNames[r]), "thorough", func(x *mc.Cell) {
					runClosure(x, closureOpts{role: r, roleConsist: true, fullKey: true, parallel: 4, maxDepth: 5, name: "full-key-depth5-" + RoleNames[r]})
				})
			}
			mc.Register(prop, fmt.Sprintf("l1-role-inconsistent/%s", RoleNames[r]), "thorough", func(x *mc.Cell) {
				runClosure(x, closureOpts{role: r, roleConsist: false, fullKey: false, maxDepth: 5, name: "role-inconsistent-" + RoleNames[r]})
			})
		}
	}
}

// ResumeMeaningful: a resume by a party is meaningful (must clear its flag) for as long as that party may still be
// moving data: the initiator until its own transport finished, the responder until it sent its Complete.
func ResumeMeaningful(initiator bool, s datatransfer.Status) bool {
	switch s {
	case datatransfer.Requested, datatransfer.Queued, datatransfer.AwaitingAcceptance, datatransfer.Ongoing:
		return true
	case datatransfer.ResponderCompleted, datatransfer.ResponderFinalizing:
		return initiator
	case datatransfer.TransferFinished:
		return !initiator
	}
	return false
}
