package l2transport

import (
	"context"
	"fmt"
	"sync"

	datatransfer "github.com/filecoin-project/go-data-transfer/v2"

	"verif/doubles"
	"verif/mc"
)

// c16ControlDuringRestart: a restart arrives as a second graphsync request (R2) for a channel whose current
// request is still R1; while the events handler is busy validating it (held by the harness), the application
// pauses / resumes / closes the channel from another goroutine. Oracle (C16: "pause, resume and cancel act on the
// channel's current request"): once both calls have returned, the graphsync pause / unpause / cancel that the
// control call issued names R2 - the request that is current after the restart was accepted - never the
// superseded R1, and a control call that reported success did issue one.
func c16ControlDuringRestart(x *mc.Cell) {
	for _, control := range []string{"pause", "close", "resume"} {
		for _, pre := range []string{"none", "requestor-cancelled(R1)"} {
			control, pre := control, pre
			rep := map[string]any{"control": control, "before": pre}
			x.Executions++
			pv, stack := mc.Bubble(x.T, func() {
				w := NewWorld()
				defer w.Close()
				ctx := context.Background()
				chid := w.Chans[1]
				w.GS.IncomingRequestHook(doubles.PeerB, reqData(40, extOf(reqMsg(chid.ID, false, true))), &doubles.Actions{})
				mc.Wait()
				if control == "resume" {
					_ = w.T.PauseChannel(ctx, chid)
					mc.Wait()
				}
				if pre == "requestor-cancelled(R1)" {
					if h := w.GS.RequestorCancelled; h != nil {
						h(doubles.PeerB, reqData(40, nil))
					}
					mc.Wait()
				}
				gate := make(chan struct{})
				released := false
				release := func() {
					if !released {
						released = true
						close(gate)
					}
				}
				defer release()
				w.H.Answer = func(c doubles.HCall) (datatransfer.Message, error) {
					if rq, ok := c.Msg.(datatransfer.Request); ok && c.Method == "OnRequestReceived" && rq.IsRestart() {
						<-gate
					}
					return nil, nil
				}
				hook := mc.Go(func() {
					w.GS.IncomingRequestHook(doubles.PeerB, reqData(41, extOf(reqMsg(chid.ID, true, true))), &doubles.Actions{})
				})
				mc.Wait()
				mark := w.GS.NumCalls()
				var cerr error
				ctl := mc.Go(func() {
					switch control {
					case "pause":
						cerr = w.T.PauseChannel(ctx, chid)
					case "close":
						cerr = w.T.CloseChannel(ctx, chid)
					case "resume":
						cerr = w.T.ResumeChannel(ctx, respMsg(chid.ID), chid)
					}
				})
				mc.Wait()
				release()
				mc.Wait()
				if !hook.Returned() || !ctl.Returned() {
					n := mc.Unblock()
					x.Violate("C20", fmt.Sprintf("control-during-restart;did-not-return;control=%s", control), fmt.Sprintf("hook returned=%v control returned=%v (%d parked)", hook.Returned(), ctl.Returned(), n), rep)
					x.Fatal = true
					return
				}
				x.Premise++
				want := map[string]string{"pause": "pause", "close": "cancel", "resume": "unpause"}[control]
				var named []int
				for _, c := range w.GS.CallsFrom(mark) {
					if c.Op == want {
						named = append(named, c.Req)
					}
				}
				x.Outcome(fmt.Sprintf("%s|%s|%v|%v", control, pre, named, cerr))
				ctxs := fmt.Sprintf("control=%s before=%s returned=%v graphsync %s calls name requests %v (R1=40 superseded, R2=41 current); all graphsync calls: %v", control, pre, cerr, want, named, w.GS.CallsFrom(mark))
				for _, r := range named {
					if r != 41 {
						x.Violate("C16", fmt.Sprintf("control-during-restart;acted-on-superseded-request;control=%s;before=%s", control, pre), ctxs, rep)
					}
				}
				if cerr == nil && len(named) == 0 {
					x.Violate("C16", fmt.Sprintf("control-during-restart;reported-success-without-acting;control=%s;before=%s", control, pre), ctxs, rep)
				}
			})
			if pv != nil {
				x.Violate("C16", "panic;control-during-restart", fmt.Sprintf("%v\n%s", pv, stack), rep)
			}
		}
	}
}

// c16ReceiveErrorVsCleanup: the graphsync receiver-network-error listener reports an error for every tracked
// request of a peer. Two (or three) channels with peer B are tracked; the events handler is held inside the first
// OnReceiveDataError, and meanwhile another goroutine cleans up a channel of that peer that has not been reported
// yet. Oracle (C16: a callback for a channel after its cleanup produces no channel event): no events-handler call
// for the cleaned-up channel is recorded after its CleanupChannel returned. (A cleanup that waits for the
// listener to finish - the code's read-locked iteration - satisfies this: all reports precede the return.)
func c16ReceiveErrorVsCleanup(x *mc.Cell) {
	for _, nch := range []int{2, 3} {
		nch := nch
		rep := map[string]any{"channels-with-peer": nch, "cell": "receive-error-vs-cleanup"}
		x.Executions++
		pv, stack := mc.Bubble(x.T, func() {
			w := NewWorld()
			defer w.Close()
			var chids []datatransfer.ChannelID
			for i := 0; i < nch; i++ {
				chid := datatransfer.ChannelID{Initiator: doubles.PeerB, Responder: doubles.PeerA, ID: datatransfer.TransferID(20 + i)}
				chids = append(chids, chid)
				w.GS.IncomingRequestHook(doubles.PeerB, reqData(50+i, extOf(reqMsg(chid.ID, false, true))), &doubles.Actions{})
			}
			mc.Wait()
			gate := make(chan struct{})
			released := false
			release := func() {
				if !released {
					released = true
					close(gate)
				}
			}
			defer release()
			first := make(chan datatransfer.ChannelID, 1)
			w.H.Answer = func(c doubles.HCall) (datatransfer.Message, error) {
				if c.Method == "OnReceiveDataError" {
					select {
					case first <- c.Chid:
						<-gate
					default:
					}
				}
				return nil, nil
			}
			if w.GS.ReceiverNetworkError == nil {
				x.Note("no_receiver_network_error_listener", 1)
				return
			}
			lst := mc.Go(func() { w.GS.ReceiverNetworkError(doubles.PeerB, fmt.Errorf("connection reset")) })
			mc.Wait()
			var held datatransfer.ChannelID
			select {
			case held = <-first:
			default:
				x.Violate("C16", "receive-error-vs-cleanup;no-report-for-tracked-channels", "the receiver network error was reported for no tracked channel of the peer", rep)
				return
			}
			// clean up every channel the listener has not reported yet
			after := map[datatransfer.ChannelID]int{}
			var cl []*mc.CallResult
			var amu sync.Mutex
			for _, chid := range chids {
				if chid == held {
					continue
				}
				chid := chid
				c := mc.Go(func() {
					w.T.CleanupChannel(chid)
					n := w.H.NumCalls()
					amu.Lock()
					after[chid] = n
					amu.Unlock()
				})
				cl = append(cl, c)
			}
			mc.Wait()
			early := 0
			for _, c := range cl {
				if c.Returned() {
					early++
				}
			}
			release()
			mc.Wait()
			ret := lst.Returned()
			for _, c := range cl {
				ret = ret && c.Returned()
			}
			if !ret {
				n := mc.Unblock()
				x.Violate("C20", "receive-error-vs-cleanup;did-not-return", fmt.Sprintf("listener returned=%v (%d parked)", lst.Returned(), n), rep)
				x.Fatal = true
				return
			}
			x.Premise++
			late := 0
			amu.Lock()
			marks := map[datatransfer.ChannelID]int{}
			for k, v := range after {
				marks[k] = v
			}
			amu.Unlock()
			for chid, m := range marks {
				for _, c := range w.H.CallsFrom(m) {
					if c.Chid == chid {
						late++
						x.Violate("C16", "receive-error-vs-cleanup;event-after-cleanup-returned;method="+c.Method, fmt.Sprintf("%d channels of peer B tracked; the handler was busy with OnReceiveDataError for one of them when CleanupChannel of another ran (returned before the handler was released: %d of %d); afterwards the handler got %s for the cleaned-up channel", nch, early, len(cl), c), rep)
					}
				}
			}
			x.Outcome(fmt.Sprintf("n=%d|cleanups-returned-while-held=%d|late=%d", nch, early, late))
		})
		if pv != nil {
			x.Violate("C16", "panic;receive-error-vs-cleanup", fmt.Sprintf("%v\n%s", pv, stack), rep)
		}
	}
}

// c16ControlWhileOpening: our own graphsync request for a channel has been handed to graphsync, which has not yet
// called back that it was opened (held by the harness); meanwhile the application closes or pauses the channel
// from another goroutine; then graphsync gets round to the request. Oracle (C16: "pause, resume and cancel act on
// the channel's current request"): once everything has returned, a control call that reported success has acted on
// that request - a successful close leaves no live graphsync request of the channel behind, a successful pause
// has paused it.
func c16ControlWhileOpening(x *mc.Cell) {
	for _, control := range []string{"close", "pause"} {
		for _, restart := range []bool{false, true} {
			control, restart := control, restart
			rep := map[string]any{"control": control, "opening-is-a-restart": restart, "cell": "control-while-opening"}
			x.Executions++
			pv, stack := mc.Bubble(x.T, func() {
				w := NewWorld()
				defer w.Close()
				ctx := context.Background()
				chid := w.Chans[0]
				if restart {
					_ = w.T.OpenChannel(ctx, doubles.PeerB, chid, root(), doubles.AllSelector(), nil, reqMsg(chid.ID, false, true))
					mc.Wait()
				}
				hold := make(chan struct{})
				released := false
				release := func() {
					if !released {
						released = true
						close(hold)
					}
				}
				defer release()
				w.GS.HoldHook = hold
				var oerr, cerr error
				opn := mc.Go(func() {
					oerr = w.T.OpenChannel(ctx, doubles.PeerB, chid, root(), doubles.AllSelector(), nil, reqMsg(chid.ID, restart, true))
				})
				mc.Wait()
				w.GS.HoldHook = nil
				var newReq *doubles.FakeReq
				if len(w.GS.Reqs) > 0 {
					newReq = w.GS.Reqs[len(w.GS.Reqs)-1]
				}
				if opn.Returned() || newReq == nil {
					x.Note("open_did_not_wait_for_the_opened_callback", 1)
					return
				}
				mark := w.GS.NumCalls()
				ctl := mc.Go(func() {
					if control == "close" {
						cerr = w.T.CloseChannel(ctx, chid)
					} else {
						cerr = w.T.PauseChannel(ctx, chid)
					}
				})
				mc.Wait()
				early := ctl.Returned()
				release()
				mc.Wait()
				if !opn.Returned() || !ctl.Returned() {
					n := mc.Unblock()
					x.Violate("C20", "control-while-opening;did-not-return;control="+control, fmt.Sprintf("open returned=%v control returned=%v (%d parked)", opn.Returned(), ctl.Returned(), n), rep)
					x.Fatal = true
					return
				}
				x.Premise++
				want := map[string]string{"close": "cancel", "pause": "pause"}[control]
				acted := false
				for _, c := range w.GS.CallsFrom(mark) {
					if c.Op == want && c.Req == newReq.Num {
						acted = true
					}
				}
				live := false
				for _, num := range w.GS.LiveRequests() {
					if num == newReq.Num {
						live = true
					}
				}
				x.Outcome(fmt.Sprintf("%s|restart=%v|returned-before-opened=%v|acted=%v|open-err=%v|ctl-err=%v", control, restart, early, acted, oerr != nil, cerr != nil))
				ctxs := fmt.Sprintf("control=%s (returned %v, before the request was opened: %v), open returned %v; graphsync calls since: %v", control, cerr, early, oerr, w.GS.CallsFrom(mark))
				if cerr == nil && oerr == nil && !acted {
					x.Violate("C16", fmt.Sprintf("control-while-opening;reported-success-without-acting-on-the-request;control=%s;restart=%v", control, restart), ctxs, rep)
				}
				if control == "close" && cerr == nil && oerr == nil && live {
					x.Violate("C16", fmt.Sprintf("control-while-opening;closed-channel-keeps-a-live-request;restart=%v", restart), ctxs, rep)
				}
			})
			if pv != nil {
				x.Violate("C16", "panic;control-while-opening", fmt.Sprintf("%v\n%s", pv, stack), rep)
			}
		}
	}
}

func init() {
	mc.Register("C16", "control-calls-while-the-request-is-being-opened", "both", c16ControlWhileOpening)
	mc.Register("C16", "control-calls-during-a-restart-request", "both", c16ControlDuringRestart)
	mc.Register("C16", "receive-error-listener-vs-cleanup", "both", c16ReceiveErrorVsCleanup)
}
