package l2transport

import (
	"context"
	"fmt"

	"github.com/ipfs/go-graphsync"
	"github.com/ipld/go-ipld-prime/datamodel"
	"github.com/libp2p/go-libp2p/core/peer"

	datatransfer "github.com/filecoin-project/go-data-transfer/v2"
	dtimpl "github.com/filecoin-project/go-data-transfer/v2/impl"
	"github.com/filecoin-project/go-data-transfer/v2/message"
	dtgs "github.com/filecoin-project/go-data-transfer/v2/transport/graphsync"
	"github.com/filecoin-project/go-data-transfer/v2/transport/graphsync/extension"

	"verif/doubles"
	"verif/mc"
)

// RealWorld = real manager + real graphsync transport over the fake graph exchange.
type RealWorld struct {
	GS      *doubles.FakeGS
	T       *dtgs.Transport
	Net     *doubles.RecNet
	DS      *doubles.RecDS
	Mgr     datatransfer.Manager
	Val     *doubles.RecValidator
	stopped bool
}

// MarkStopped tells Close that the manager was already stopped by the test body.
func (w *RealWorld) MarkStopped() { w.stopped = true }

func NewRealWorld() *RealWorld {
	w := &RealWorld{GS: doubles.NewFakeGS(), Net: &doubles.RecNet{Self: doubles.PeerA}, DS: doubles.NewRecDS(), Val: &doubles.RecValidator{}}
	w.T = dtgs.NewTransport(doubles.PeerA, w.GS)
	m, err := dtimpl.NewDataTransfer(w.DS, w.Net, w.T)
	if err != nil {
		panic(err)
	}
	w.Mgr = m
	if err := m.RegisterVoucherType("T", w.Val); err != nil {
		panic(err)
	}
	if err := m.Start(context.Background()); err != nil {
		panic(err)
	}
	w.GS.OnCancel = func(num int) { w.GS.Finish(num, graphsync.RequestClientCancelledErr{}) }
	mc.Wait()
	return w
}

// StopVia stops the manager as an operation under test; Close will not stop it a second time.
func (w *RealWorld) StopVia(ctx context.Context) error {
	w.stopped = true
	return w.Mgr.Stop(ctx)
}

func (w *RealWorld) Close() {
	if !w.stopped {
		w.stopped = true
		_ = w.Mgr.Stop(context.Background())
	}
	for _, r := range w.GS.Reqs {
		w.GS.Finish(r.Num, nil)
	}
	mc.Wait()
}

// allMessages builds every message kind with transfer id tid.
func allMessages(tid datatransfer.TransferID) map[string]datatransfer.Message {
	v := doubles.Voucher("T", "v")
	r := doubles.Voucher("R", "r")
	out := map[string]datatransfer.Message{}
	out["req-new-pull"] = reqMsg(tid, false, true)
	out["req-new-push"] = reqMsg(tid, false, false)
	out["req-restart-pull"] = reqMsg(tid, true, true)
	out["req-update-pause"] = message.UpdateRequest(tid, true)
	out["req-update-resume"] = message.UpdateRequest(tid, false)
	vr, _ := message.VoucherRequest(tid, &v)
	out["req-voucher"] = vr
	out["req-cancel"] = message.CancelRequest(tid)
	out["req-restart-existing"] = message.RestartExistingChannelRequest(datatransfer.ChannelID{Initiator: doubles.PeerA, Responder: doubles.PeerB, ID: tid})
	nr, _ := message.NewResponse(tid, true, false, &r)
	out["resp-new-accepted"] = nr
	nrr, _ := message.NewResponse(tid, false, false, nil)
	out["resp-new-rejected"] = nrr
	rr, _ := message.RestartResponse(tid, true, false, nil)
	out["resp-restart"] = rr
	vrr, _ := message.VoucherResultResponse(tid, true, false, &r)
	out["resp-voucher-result"] = vrr
	cr, _ := message.CompleteResponse(tid, true, false, nil)
	out["resp-complete"] = cr
	crp, _ := message.CompleteResponse(tid, true, true, nil)
	out["resp-complete-paused"] = crp
	out["resp-update-pause"] = message.UpdateResponse(tid, true)
	out["resp-update-resume"] = message.UpdateResponse(tid, false)
	out["resp-cancel"] = message.CancelResponse(tid)
	return out
}

func sortedMsgNames(m map[string]datatransfer.Message) []string {
	ks := make([]string, 0, len(m))
	for k := range m {
		ks = append(ks, k)
	}
	for i := range ks {
		for j := i + 1; j < len(ks); j++ {
			if ks[j] < ks[i] {
				ks[i], ks[j] = ks[j], ks[i]
			}
		}
	}
	return ks
}

// c20Callbacks: every message-carrying graphsync callback x every message kind x channel situation must return.
func c20Callbacks(x *mc.Cell) {
	situations := []string{"unknown-channel", "received-pull-open", "created-pull-open", "created-push-requested"}
	hooks := []string{"incoming-request", "request-updated", "incoming-response", "incoming-block+ext"}
	for _, sit := range situations {
		for _, hook := range hooks {
			probe := allMessages(1)
			for _, mn := range sortedMsgNames(probe) {
				for _, from := range []peer.ID{doubles.PeerB, doubles.PeerC} {
					sit, hook, mn, from := sit, hook, mn, from
					rep := map[string]any{"situation": sit, "hook": hook, "message": mn, "from": doubles.PeerName(from)}
					x.Executions++
					pv, stack := mc.Bubble(x.T, func() {
						w := NewRealWorld()
						defer w.Close()
						ctx := context.Background()
						var tid datatransfer.TransferID = 9
						reqNum := 1
						switch sit {
						case "received-pull-open":
							acts := &doubles.Actions{}
							w.GS.IncomingRequestHook(doubles.PeerB, reqData(1, extOf(reqMsg(9, false, true))), acts)
							mc.Wait()
							reqNum = 1
						case "created-pull-open":
							chid, err := w.Mgr.OpenPullDataChannel(ctx, doubles.PeerB, doubles.Voucher("T", "v"), doubles.Cid("root"), doubles.AllSelector())
							if err != nil {
								panic(err)
							}
							mc.Wait()
							tid = chid.ID
							reqNum = w.GS.Reqs[len(w.GS.Reqs)-1].Num
						case "created-push-requested":
							chid, err := w.Mgr.OpenPushDataChannel(ctx, doubles.PeerB, doubles.Voucher("T", "v"), doubles.Cid("root"), doubles.AllSelector())
							if err != nil {
								panic(err)
							}
							mc.Wait()
							tid = chid.ID
							reqNum = 2
						}
						m := allMessages(tid)[mn]
						exts := extOf(m)
						acts := &doubles.Actions{}
						newNum := 50
						hang, cr := mc.Call(func() {
							switch hook {
							case "incoming-request":
								w.GS.IncomingRequestHook(from, reqData(newNum, exts), acts)
							case "request-updated":
								w.GS.RequestUpdatedHook(from, reqData(reqNum, nil), reqData(reqNum, exts), acts)
							case "incoming-response":
								w.GS.IncomingResponseHook(from, &doubles.FakeResponseData{Num: reqNum, Exts: extOf(m, extension.ExtensionIncomingRequest1_1)}, acts)
							case "incoming-block+ext":
								w.GS.IncomingResponseHook(from, &doubles.FakeResponseData{Num: reqNum, Exts: extOf(m, extension.ExtensionOutgoingBlock1_1)}, acts)
							}
						})
						x.Premise++
						x.Outcome(fmt.Sprintf("%s|%s|%s|%v", sit, hook, mn, hang))
						if hang {
							parked := mc.Unblock()
							x.Violate("C20", fmt.Sprintf("callback-did-not-return;hook=%s;message=%s;situation=%s", hook, mn, sit),
								fmt.Sprintf("the graphsync %s callback carrying a %s message from %s (%s) never returned; %d goroutine(s) were parked in library locks", hook, mn, doubles.PeerName(from), sit, parked), rep)
							return
						}
						if cr.Panic != nil {
							x.Violate("C20", fmt.Sprintf("callback-panicked;hook=%s;message=%s;situation=%s", hook, mn, sit), fmt.Sprintf("%v\n%s", cr.Panic, cr.Stack), rep)
							return
						}
						// later use of the library must still work: query + stop happen in Close; also a status query now
						hang2, _ := mc.Call(func() { _, _ = w.Mgr.InProgressChannels(ctx) })
						if hang2 || mc.Parked() != 0 {
							n := mc.Unblock()
							x.Violate("C20", fmt.Sprintf("goroutines-left-blocked;hook=%s;message=%s;situation=%s", hook, mn, sit), fmt.Sprintf("%d goroutine(s) left blocked in library locks after the callback", n), rep)
						}
					})
					if pv != nil {
						x.Violate("C20", fmt.Sprintf("panic;hook=%s;message=%s;situation=%s", hook, mn, sit), fmt.Sprintf("%v\n%s", pv, stack), rep)
					}
				}
			}
		}
	}
}

func init() {
	mc.Register("C20", "callbacks-x-message-kinds", "both", c20Callbacks)
}

var _ datamodel.Node
