package l2transport

import (
	"testing"

	"verif/mc"
)

func TestCheck(t *testing.T) { mc.Main(t, "l2transport") }
