package l2transport

import (
	"context"
	"fmt"

	"github.com/ipfs/go-graphsync"

	"verif/doubles"
	"verif/mc"
)

// c09CancelInFlight: a channel is being closed and graphsync has not finished cancelling its request yet (the
// cancel call is held by the harness, as when graphsync's loop is busy). Everything else that can happen to the
// channel meanwhile must return without waiting for that cancel: a second close (user / monitor / rejected
// response), pause, resume, cleanup, the graphsync callbacks of that request (they run on the loop that serves
// the cancel), a restart request. Then the cancel is released and the first close must return too.
// Oracle: C09 "closing returns promptly whatever the state of the underlying transport request - already
// cancelled, or cancelled by the remote" and C20 "every transport callback returns".
func c09CancelInFlight(x *mc.Cell) {
	kinds := []string{"outgoing-request(ch0)", "incoming-request(ch1)"}
	during := []string{"close-again", "pause", "resume", "cleanup", "requestor-cancelled", "block-hook", "completed", "restart-request", "channels-for-peer"}
	for _, kind := range kinds {
		for _, op := range during {
			kind, op := kind, op
			rep := map[string]any{"channel": kind, "during-cancel": op}
			x.Executions++
			pv, stack := mc.Bubble(x.T, func() {
				w := NewWorld()
				defer w.Close()
				ctx := context.Background()
				var ci, req int
				peer := doubles.PeerB
				if kind == "outgoing-request(ch0)" {
					ci = 0
					if err := w.T.OpenChannel(ctx, doubles.PeerB, w.Chans[0], root(), doubles.AllSelector(), nil, reqMsg(w.Chans[0].ID, false, true)); err != nil {
						panic(err)
					}
					mc.Wait()
					req = w.GS.Reqs[len(w.GS.Reqs)-1].Num
				} else {
					ci = 1
					req = 40
					w.GS.IncomingRequestHook(doubles.PeerB, reqData(req, extOf(reqMsg(w.Chans[1].ID, false, true))), &doubles.Actions{})
					mc.Wait()
				}
				chid := w.Chans[ci]
				gate := make(chan struct{})
				w.GS.CancelGate = gate
				released := false
				release := func() {
					if !released {
						released = true
						close(gate)
					}
				}
				defer release()
				first := mc.Go(func() { _ = w.T.CloseChannel(ctx, chid) })
				mc.Wait()
				if first.Returned() {
					// the close did not need graphsync (nothing to cancel for this channel kind): nothing to observe
					x.Outcome(kind + "|" + op + "|no-cancel")
					return
				}
				x.Premise++
				hang, cr := mc.Call(func() {
					switch op {
					case "close-again":
						_ = w.T.CloseChannel(ctx, chid)
					case "pause":
						_ = w.T.PauseChannel(ctx, chid)
					case "resume":
						_ = w.T.ResumeChannel(ctx, respMsg(chid.ID), chid)
					case "cleanup":
						w.T.CleanupChannel(chid)
					case "requestor-cancelled":
						if h := w.GS.RequestorCancelled; h != nil {
							h(peer, reqData(req, nil))
						}
					case "block-hook":
						if ci == 0 {
							if h := w.GS.IncomingBlockHook; h != nil {
								h(peer, &doubles.FakeResponseData{Num: req}, &doubles.FakeBlock{L: root(), Size: 5, OnWire: 5, Idx: 1}, &doubles.Actions{})
							}
						} else if h := w.GS.OutgoingBlockHook; h != nil {
							h(peer, reqData(req, nil), &doubles.FakeBlock{L: root(), Size: 5, OnWire: 5, Idx: 1}, &doubles.Actions{})
						}
					case "completed":
						if h := w.GS.CompletedResponse; h != nil {
							h(peer, reqData(req, nil), graphsync.RequestCancelled)
						}
					case "restart-request":
						if ci == 1 {
							w.GS.IncomingRequestHook(peer, reqData(41, extOf(reqMsg(chid.ID, true, true))), &doubles.Actions{})
						}
					case "channels-for-peer":
						_ = w.T.ChannelsForPeer(peer)
					}
				})
				x.Outcome(fmt.Sprintf("%s|%s|%v", kind, op, hang))
				if hang {
					stacks := mc.BlockedStacks(4)
					n := mc.Unblock()
					for _, p := range []string{"C09", "C20"} {
						x.Violate(p, fmt.Sprintf("cancel-in-flight;did-not-return;op=%s;channel=%s", op, kind), fmt.Sprintf("while the close of %s is waiting for graphsync to cancel its request, %s did not return (%d goroutines parked in library locks)\n%s", kind, op, n, stacks), rep)
					}
					x.Fatal = true
					return
				}
				if cr.Panic != nil {
					x.Violate("C20", fmt.Sprintf("cancel-in-flight;panic;op=%s", op), fmt.Sprintf("%v\n%s", cr.Panic, cr.Stack), rep)
				}
				release()
				mc.Wait()
				if !first.Returned() {
					n := mc.Unblock()
					x.Violate("C09", fmt.Sprintf("cancel-in-flight;first-close-never-returned;op=%s;channel=%s", op, kind), fmt.Sprintf("the close did not return after graphsync finished the cancel (%d parked)", n), rep)
				}
			})
			if pv != nil {
				x.Violate("C09", "panic;cancel-in-flight", fmt.Sprintf("%v\n%s", pv, stack), rep)
			}
		}
	}
}

func init() {
	mc.Register("C09", "close-with-the-graphsync-cancel-in-flight", "both", c09CancelInFlight)
	mc.Register("C20", "close-with-the-graphsync-cancel-in-flight", "both", c09CancelInFlight)
}
