package l2transport

import (
	"context"
	"errors"
	"fmt"

	"github.com/ipfs/go-graphsync"
	"github.com/ipld/go-ipld-prime"
	"github.com/ipld/go-ipld-prime/datamodel"
	"github.com/ipld/go-ipld-prime/node/basicnode"
	"github.com/libp2p/go-libp2p/core/peer"

	datatransfer "github.com/filecoin-project/go-data-transfer/v2"
	"github.com/filecoin-project/go-data-transfer/v2/message"
	"github.com/filecoin-project/go-data-transfer/v2/transport/graphsync/extension"

	"verif/doubles"
	"verif/mc"
)

type stubState struct {
	datatransfer.ChannelState
	received int64
}

func (s stubState) ReceivedCidsTotal() int64 { return s.received }

// want describes what one operation may/must produce.
type want struct {
	// exact handler calls expected, as "Method@chanIdx"; nil = checked by custom func only
	handler []string
	// atMost: handler calls that may additionally appear
	optional []string
	custom   func(d Delta) string // returns a problem description or ""
	hangOK   bool
}

type op struct {
	name    string
	enabled func(w *World) bool
	do      func(w *World) want
}

var errNet = errors.New("network broke")

func hname(m string, ci int) string { return fmt.Sprintf("%s@%d", m, ci) }

func reqData(num int, exts map[graphsync.ExtensionName]datamodel.Node) *doubles.FakeRequestData {
	return &doubles.FakeRequestData{Num: num, RootCid: doubles.Cid("root"), Sel: doubles.AllSelector(), Exts: exts}
}

func anyReqOf(w *World, ci int) int {
	best := -1
	for r, o := range w.Owner {
		if o == ci && r > best {
			best = r
		}
	}
	return best
}

func buildOps(nch int) []op {
	var ops []op
	add := func(o op) { ops = append(ops, o) }
	notShut := func(w *World) bool { return !w.Shutdown }

	// ---- outgoing request for ch0 (open / restart)
	add(op{"open(ch0)", notShut, func(w *World) want {
		restart := w.Current[0] >= 0 || anyReqOf(w, 0) >= 0
		old := w.Current[0]
		var st datatransfer.ChannelState
		if restart {
			st = stubState{received: 3}
		}
		nBefore := len(w.GS.Reqs)
		var oerr error
		hang, _ := mc.Call(func() {
			oerr = w.T.OpenChannel(context.Background(), doubles.PeerB, w.Chans[0], root(), doubles.AllSelector(), st, reqMsg(2, restart, true))
		})
		if hang {
			return want{custom: func(Delta) string { return "OpenChannel did not return" }}
		}
		var num = -1
		if len(w.GS.Reqs) > nBefore {
			num = w.GS.Reqs[len(w.GS.Reqs)-1].Num
			w.Owner[num] = 0
			w.Current[0] = num
			w.Cleaned[0] = false
		}
		storeWas := w.Store[0]
		return want{handler: []string{hname("OnChannelOpened", 0)}, optional: []string{hname("OnRequestCancelled", 0)}, custom: func(d Delta) string {
			if oerr != nil {
				return "OpenChannel failed: " + oerr.Error()
			}
			if num < 0 {
				return "no graphsync request was made"
			}
			var cancelSeq, reqSeq int64 = -1, -1
			for _, c := range d.G {
				if c.Op == "cancel" {
					if c.Req != old {
						return fmt.Sprintf("cancelled request r%d, the channel's current request is r%d", c.Req, old)
					}
					cancelSeq = c.Seq
				}
				if c.Op == "request" {
					reqSeq = c.Seq
				}
			}
			if old >= 0 && !w.ReqCancelled[0] && cancelSeq < 0 {
				return "the previous request was not cancelled before re-opening"
			}
			if cancelSeq >= 0 && cancelSeq > reqSeq {
				return "the new request was made before the previous one was cancelled"
			}
			fr := w.GS.Req(num)
			var dtExt, skip datamodel.Node
			for _, e := range fr.Exts {
				if e.Name == extension.ExtensionDataTransfer1_1 {
					dtExt = e.Data
				}
				if e.Name == graphsync.ExtensionsDoNotSendFirstBlocks {
					skip = e.Data
				}
			}
			if dtExt == nil {
				return "the graphsync request carries no data-transfer extension"
			}
			m, err := message.FromIPLD(dtExt)
			if err != nil || !m.IsRequest() || m.TransferID() != 2 || m.IsRestart() != restart {
				return "the data-transfer extension does not carry the request message"
			}
			if restart {
				if skip == nil {
					return "restart without do-not-send-first-blocks extension"
				}
				if n, _ := skip.AsInt(); n != 3 {
					return fmt.Sprintf("do-not-send-first-blocks=%d, the channel has received 3", n)
				}
			} else if skip != nil {
				return "first open carries a do-not-send-first-blocks extension"
			}
			<-fr.HookDone
			wantOpt := ""
			if storeWas {
				wantOpt = "data-transfer-" + w.Chans[0].String()
			}
			if fr.Persistence != wantOpt {
				return fmt.Sprintf("request uses persistence option %q, want %q", fr.Persistence, wantOpt)
			}
			return ""
		}}
	}})

	// ---- the events handler refuses the opened request (e.g. the channel terminated meanwhile)
	add(op{"open(ch0,handler-refuses-OnChannelOpened)", notShut, func(w *World) want {
		w.H.Answer = func(c doubles.HCall) (datatransfer.Message, error) {
			if c.Method == "OnChannelOpened" {
				return nil, datatransfer.ErrChannelNotFound
			}
			return nil, nil
		}
		defer func() { w.H.Answer = nil }()
		nBefore := len(w.GS.Reqs)
		hang, _ := mc.Call(func() {
			_ = w.T.OpenChannel(context.Background(), doubles.PeerB, w.Chans[0], root(), doubles.AllSelector(), nil, reqMsg(2, false, true))
		})
		if hang {
			n := mc.Unblock()
			return want{custom: func(Delta) string {
				return fmt.Sprintf("OpenChannel did not return after the events handler refused the opened request (%d goroutines parked in transport locks)", n)
			}}
		}
		if len(w.GS.Reqs) > nBefore {
			// the refused request is not mapped; the channel was cleaned up by the transport
			w.Cleaned[0] = true
			w.Current[0] = -1
			for r, o := range w.Owner {
				if o == 0 {
					delete(w.Owner, r)
					w.Gone[r] = 0
				}
			}
			w.Gone[w.GS.Reqs[len(w.GS.Reqs)-1].Num] = 0
			w.Store[0] = false
		}
		return want{handler: []string{hname("OnChannelOpened", 0)}, optional: []string{hname("OnRequestCancelled", 0), hname("OnChannelCompleted", 0)}}
	}})

	// ---- incoming graphsync requests
	incoming := func(name string, p peer.ID, ci int, exts func() map[graphsync.ExtensionName]datamodel.Node, method string, noCall bool) {
		add(op{name, notShut, func(w *World) want {
			w.nextIn++
			num := w.nextIn
			acts := &doubles.Actions{}
			hang, _ := mc.Call(func() { w.GS.IncomingRequestHook(p, reqData(num, exts()), acts) })
			if hang {
				return want{custom: func(Delta) string { return "incoming-request hook did not return" }}
			}
			if noCall {
				return want{handler: []string{}, custom: func(d Delta) string {
					if acts.Validated {
						return "a request without a (valid) data-transfer extension was validated"
					}
					return ""
				}}
			}
			pend := w.Pending[ci]
			wasCancelled := w.ReqCancelled[ci]
			storeWas := w.Store[ci]
			w.Owner[num] = ci
			w.Current[ci] = num
			w.Cleaned[ci] = false
			w.ReqCancelled[ci] = false
			w.Pending[ci] = 0
			return want{handler: []string{hname(method, ci)}, custom: func(d Delta) string {
				if !acts.Validated {
					return "the recognised request was not validated"
				}
				wantOpt := ""
				if storeWas {
					wantOpt = "data-transfer-" + w.Chans[ci].String()
				}
				if acts.Persistence != wantOpt {
					return fmt.Sprintf("incoming request uses persistence option %q, want %q", acts.Persistence, wantOpt)
				}
				wantSent := 0
				if wasCancelled {
					wantSent = pend
				}
				if len(acts.Sent) != wantSent {
					return fmt.Sprintf("%d queued extension(s) delivered on the request, %d were queued while the requester was away", len(acts.Sent), wantSent)
				}
				return ""
			}}
		}})
	}
	incoming("incoming(ch1,new)", doubles.PeerB, 1, func() map[graphsync.ExtensionName]datamodel.Node { return extOf(reqMsg(2, false, true)) }, "OnRequestReceived", false)
	incoming("incoming(ch1,restart)", doubles.PeerB, 1, func() map[graphsync.ExtensionName]datamodel.Node { return extOf(reqMsg(2, true, true)) }, "OnRequestReceived", false)
	incoming("incoming(no-extension)", doubles.PeerB, -1, func() map[graphsync.ExtensionName]datamodel.Node { return nil }, "", true)
	incoming("incoming(other-protocol-extension)", doubles.PeerB, -1, func() map[graphsync.ExtensionName]datamodel.Node {
		return map[graphsync.ExtensionName]datamodel.Node{"other/protocol": basicnode.NewString("x")}
	}, "", true)
	add(op{"incoming(malformed-extension)", notShut, func(w *World) want {
		w.nextIn++
		acts := &doubles.Actions{}
		mc.Call(func() {
			w.GS.IncomingRequestHook(doubles.PeerB, reqData(w.nextIn, map[graphsync.ExtensionName]datamodel.Node{extension.ExtensionDataTransfer1_1: basicnode.NewString("garbage")}), acts)
		})
		return want{handler: []string{}, custom: func(Delta) string {
			if len(acts.Terminated) == 0 || acts.Validated {
				return "a malformed data-transfer extension must terminate the request"
			}
			return ""
		}}
	}})
	// same numeric transfer id as ch1 but authenticated peer C => channel {C,A,2} (index 3), never ch1
	incoming("incoming(from-C,id-of-ch1)", doubles.PeerC, 3, func() map[graphsync.ExtensionName]datamodel.Node { return extOf(reqMsg(2, false, true)) }, "OnRequestReceived", false)
	if nch >= 3 {
		incoming("incoming(ch2,push-response)", doubles.PeerC, 2, func() map[graphsync.ExtensionName]datamodel.Node { return extOf(respMsg(2)) }, "OnResponseReceived", false)
	}

	// ---- request-scoped callbacks
	type target struct {
		name string
		pick func(w *World) (num int, ci int) // ci<0 => unknown request
	}
	targets := []target{
		{"cur(ch0)", func(w *World) (int, int) { return w.Current[0], 0 }},
		{"cur(ch1)", func(w *World) (int, int) { return w.Current[1], 1 }},
		{"old(ch0)", func(w *World) (int, int) {
			for r, o := range w.Owner {
				if o == 0 && r != w.Current[0] {
					return r, 0
				}
			}
			return -1, 0
		}},
		{"unknown", func(w *World) (int, int) { return 999, -1 }},
		{"cleaned-up(ch0)", func(w *World) (int, int) {
			for r, o := range w.Gone {
				if o == 0 {
					return r, -1
				}
			}
			return -1, -1
		}},
		{"cleaned-up(ch1)", func(w *World) (int, int) {
			for r, o := range w.Gone {
				if o == 1 {
					return r, -1
				}
			}
			return -1, -1
		}},
	}
	for _, tg := range targets {
		tg := tg
		en := func(w *World) bool { n, _ := tg.pick(w); return n >= 0 }
		expect := func(w *World, ci int, method string) []string {
			if ci < 0 {
				return []string{}
			}
			return []string{hname(method, ci)}
		}
		add(op{"processing(" + tg.name + ")", en, func(w *World) want {
			num, ci := tg.pick(w)
			mc.Call(func() {
				if ci == 1 {
					w.GS.IncomingProcessing(doubles.PeerB, reqData(num, nil), 1)
				} else {
					w.GS.OutgoingProcessing(doubles.PeerB, reqData(num, nil), 1)
				}
			})
			return want{handler: expect(w, ci, "OnTransferInitiated")}
		}})
		for _, onWire := range []uint64{5, 0} {
			onWire := onWire
			add(op{fmt.Sprintf("incoming-block(%s,onwire=%d)", tg.name, onWire), en, func(w *World) want {
				num, ci := tg.pick(w)
				acts := &doubles.Actions{}
				mc.Call(func() {
					w.GS.IncomingBlockHook(doubles.PeerB, &doubles.FakeResponseData{Num: num}, &doubles.FakeBlock{L: root(), Size: 5, OnWire: onWire, Idx: 4}, acts)
				})
				return want{handler: expect(w, ci, "OnDataReceived"), custom: func(d Delta) string {
					for _, c := range d.H {
						if c.Method == "OnDataReceived" && (c.Unique != (onWire != 0) || c.Size != 5 || c.Index != 4) {
							return fmt.Sprintf("OnDataReceived(size=%d index=%d unique=%v) for a block of size 5 at index 4 with %d bytes on the wire", c.Size, c.Index, c.Unique, onWire)
						}
					}
					return ""
				}}
			}})
			add(op{fmt.Sprintf("outgoing-block(%s,onwire=%d)", tg.name, onWire), en, func(w *World) want {
				num, ci := tg.pick(w)
				acts := &doubles.Actions{}
				mc.Call(func() {
					w.GS.OutgoingBlockHook(doubles.PeerB, reqData(num, nil), &doubles.FakeBlock{L: root(), Size: 5, OnWire: onWire, Idx: 4}, acts)
				})
				if onWire == 0 {
					return want{handler: []string{}}
				}
				return want{handler: expect(w, ci, "OnDataQueued")}
			}})
			add(op{fmt.Sprintf("block-sent(%s,onwire=%d)", tg.name, onWire), en, func(w *World) want {
				num, ci := tg.pick(w)
				mc.Call(func() {
					w.GS.BlockSent(doubles.PeerB, reqData(num, nil), &doubles.FakeBlock{L: root(), Size: 5, OnWire: onWire, Idx: 4})
				})
				if onWire == 0 {
					return want{handler: []string{}}
				}
				return want{handler: expect(w, ci, "OnDataSent")}
			}})
		}
		add(op{"send-error(" + tg.name + ")", en, func(w *World) want {
			num, ci := tg.pick(w)
			mc.Call(func() { w.GS.NetworkError(doubles.PeerB, reqData(num, nil), errNet) })
			return want{handler: expect(w, ci, "OnSendDataError")}
		}})
		for _, st := range []graphsync.ResponseStatusCode{graphsync.RequestCompletedFull, graphsync.RequestCompletedPartial, graphsync.RequestRejected, graphsync.RequestCancelled, graphsync.RequestFailedUnknown} {
			st := st
			add(op{fmt.Sprintf("completed-response(%s,%d)", tg.name, st), en, func(w *World) want {
				num, ci := tg.pick(w)
				mc.Call(func() { w.GS.CompletedResponse(doubles.PeerB, reqData(num, nil), st) })
				if st == graphsync.RequestCancelled {
					return want{handler: []string{}}
				}
				return want{handler: expect(w, ci, "OnChannelCompleted"), custom: func(d Delta) string {
					for _, c := range d.H {
						if c.Method == "OnChannelCompleted" && (c.Err == nil) != (st == graphsync.RequestCompletedFull) {
							return fmt.Sprintf("response status %d reported with error=%v", st, c.Err)
						}
					}
					return ""
				}}
			}})
		}
		add(op{"requestor-cancelled(" + tg.name + ")", en, func(w *World) want {
			num, ci := tg.pick(w)
			mc.Call(func() { w.GS.RequestorCancelled(doubles.PeerB, reqData(num, nil)) })
			if ci >= 0 && !w.Cleaned[ci] {
				w.ReqCancelled[ci] = true
			}
			return want{handler: []string{}}
		}})
		// extensions on responses / updates
		type ev struct {
			name string
			p    peer.ID
			m    func(ci int) datatransfer.Message
			ok   func(ci int) bool
		}
		tidOf := func(ci int) datatransfer.TransferID { return 2 } // every channel of the world carries transfer id 2
		evs := []ev{
			{"own-kind,from-B", doubles.PeerB, func(ci int) datatransfer.Message {
				if ci == 1 {
					v := doubles.Voucher("T", "v2")
					r, _ := message.VoucherRequest(tidOf(ci), &v)
					return r
				}
				return respMsg(tidOf(ci))
			}, func(ci int) bool { return true }},
			{"role-confused-kind,from-B", doubles.PeerB, func(ci int) datatransfer.Message {
				if ci == 1 {
					return respMsg(tidOf(ci))
				}
				return message.UpdateRequest(tidOf(ci), true)
			}, func(ci int) bool { return false }},
			{"own-kind,from-C", doubles.PeerC, func(ci int) datatransfer.Message {
				if ci == 1 {
					return message.UpdateRequest(tidOf(ci), true)
				}
				return respMsg(tidOf(ci))
			}, func(ci int) bool { return false }},
			{"own-kind,other-transfer-id", doubles.PeerB, func(ci int) datatransfer.Message {
				if ci == 1 {
					return message.UpdateRequest(77, true)
				}
				return respMsg(77)
			}, func(ci int) bool { return false }},
		}
		for _, e := range evs {
			e := e
			if tg.name == "cur(ch1)" || tg.name == "cleaned-up(ch1)" {
				goto updates
			}
			// the message travels in the default data-transfer extension or in the one that accompanies outgoing blocks
			for _, extName := range []graphsync.ExtensionName{extension.ExtensionDataTransfer1_1, extension.ExtensionOutgoingBlock1_1} {
				extName := extName
				suffix := ""
				if extName != extension.ExtensionDataTransfer1_1 {
					suffix = ",in-outgoing-block-extension"
				}
				add(op{fmt.Sprintf("incoming-response(%s,%s%s)", tg.name, e.name, suffix), en, func(w *World) want {
					num, ci := tg.pick(w)
					acts := &doubles.Actions{}
					mci := ci
					if mci < 0 {
						mci = 0
					}
					mc.Call(func() {
						w.GS.IncomingResponseHook(e.p, &doubles.FakeResponseData{Num: num, Exts: extOf(e.m(mci), extName)}, acts)
					})
					if ci < 0 {
						return want{handler: []string{}}
					}
					// a response on a request we made (ch0) carries responses; on ch1 (we respond) this hook never fires legitimately
					legit := e.ok(ci) && ci == 0
					if ci == 1 {
						// the message kinds are built for the responder role; as an incoming *response* hook they are all role-confused unless they are responses from B with id 2 — which do not match channel {B,A,2}
						return want{handler: []string{}}
					}
					if legit {
						return want{handler: []string{hname("OnResponseReceived", ci)}}
					}
					return want{handler: []string{}, custom: func(Delta) string {
						if len(acts.Terminated) == 0 {
							return "a role-confused / foreign extension on a response must terminate the request"
						}
						return ""
					}}
				}})
			}
		updates:
			if tg.name == "cur(ch0)" || tg.name == "old(ch0)" || tg.name == "cleaned-up(ch0)" {
				continue
			}
			add(op{fmt.Sprintf("request-updated(%s,%s)", tg.name, e.name), en, func(w *World) want {
				num, ci := tg.pick(w)
				acts := &doubles.Actions{}
				mci := ci
				if mci < 0 {
					mci = 1
				}
				mc.Call(func() {
					w.GS.RequestUpdatedHook(e.p, reqData(num, nil), reqData(num, extOf(e.m(mci))), acts)
				})
				if ci < 0 {
					return want{handler: []string{}}
				}
				if ci == 0 {
					// we are the requester on ch0: updates to "our" request never come from the peer; any data-transfer extension here is role-confused
					return want{handler: []string{}}
				}
				if e.ok(ci) {
					return want{handler: []string{hname("OnRequestReceived", ci)}}
				}
				return want{handler: []string{}, custom: func(Delta) string {
					if len(acts.Terminated) == 0 {
						return "a role-confused / foreign extension on a request update must terminate the request"
					}
					return ""
				}}
			}})
		}
	}
	// ---- peer-scoped receive error
	for _, p := range []peer.ID{doubles.PeerB, doubles.PeerC} {
		p := p
		add(op{"receive-error(" + doubles.PeerName(p) + ")", notShut, func(w *World) want {
			mc.Call(func() { w.GS.ReceiverNetworkError(p, errNet) })
			return want{custom: func(d Delta) string {
				seen := map[int]int{}
				for _, c := range d.H {
					ci := w.ChanIdx(c.Chid)
					if c.Method != "OnReceiveDataError" || ci < 0 {
						return "unexpected handler call " + c.String()
					}
					if w.Chans[ci].Initiator != p && w.Chans[ci].Responder != p {
						return fmt.Sprintf("receive error from %s reported on channel %s", doubles.PeerName(p), doubles.ChidName(c.Chid))
					}
					seen[ci]++
				}
				for ci := range w.Chans {
					has := false
					for _, o := range w.Owner {
						if o == ci {
							has = true
						}
					}
					involves := w.Chans[ci].Initiator == p || w.Chans[ci].Responder == p
					if has && involves && seen[ci] == 0 {
						return fmt.Sprintf("channel %s has a live request with %s but got no receive-error notice", doubles.ChidName(w.Chans[ci]), doubles.PeerName(p))
					}
					if !has && seen[ci] > 0 {
						return fmt.Sprintf("channel %s has no live request mapping but got a receive-error notice", doubles.ChidName(w.Chans[ci]))
					}
				}
				return ""
			}}
		}})
	}
	// ---- requester stream ends
	for _, le := range []struct {
		name string
		err  error
	}{{"ok", nil}, {"client-cancelled", graphsync.RequestClientCancelledErr{}}, {"responder-cancelled", graphsync.RequestCancelledErr{}}, {"other-error", errNet}} {
		le := le
		add(op{"finish(cur(ch0)," + le.name + ")", func(w *World) bool {
			r := w.GS.Req(w.Current[0])
			return r != nil && !r.Closed && !w.Cleaned[0]
		}, func(w *World) want {
			num := w.Current[0]
			w.GS.Finish(num, le.err)
			mc.Wait()
			switch le.name {
			case "ok":
				return want{handler: []string{hname("OnChannelCompleted", 0)}, custom: func(d Delta) string {
					if len(d.H) == 1 && d.H[0].Err != nil {
						return "a request that ended without error was reported with an error"
					}
					return ""
				}}
			case "client-cancelled":
				return want{handler: []string{hname("OnRequestCancelled", 0)}}
			case "responder-cancelled":
				return want{handler: []string{}}
			}
			return want{handler: []string{hname("OnChannelCompleted", 0)}, custom: func(d Delta) string {
				if len(d.H) == 1 && d.H[0].Err == nil {
					return "a request that ended with an error was reported as complete without error"
				}
				return ""
			}}
		}})
	}
	// ---- transport API per channel
	for ci := 0; ci < 2; ci++ {
		ci := ci
		gsOnly := func(opName string, w *World, require bool) func(d Delta) string {
			cur := w.Current[ci]
			rc := w.ReqCancelled[ci]
			return func(d Delta) string {
				n := 0
				for _, c := range d.G {
					if c.Op == opName {
						n++
						if c.Req != cur {
							return fmt.Sprintf("%s acted on request r%d, the channel's current request is r%d", opName, c.Req, cur)
						}
					} else if c.Op == "pause" || c.Op == "unpause" || c.Op == "cancel" || c.Op == "request" {
						return "unexpected graphsync call " + c.String()
					}
				}
				if require && cur >= 0 && !rc && n != 1 {
					return fmt.Sprintf("%d %s call(s) on the channel's current request r%d, want 1", n, opName, cur)
				}
				if (cur < 0 || rc) && n != 0 {
					return fmt.Sprintf("%s reached graphsync although the channel has no live request", opName)
				}
				return ""
			}
		}
		tracked := func(w *World) bool {
			return !w.Shutdown && !w.Cleaned[ci] && (w.Current[ci] >= 0 || anyReqOf(w, ci) >= 0 || w.Store[ci])
		}
		add(op{fmt.Sprintf("pause(ch%d)", ci), tracked, func(w *World) want {
			chk := gsOnly("pause", w, true)
			var err error
			hang, _ := mc.Call(func() { err = w.T.PauseChannel(context.Background(), w.Chans[ci]) })
			if hang {
				return want{custom: func(Delta) string { return "PauseChannel did not return" }}
			}
			_ = err
			return want{handler: []string{}, custom: chk}
		}})
		add(op{fmt.Sprintf("resume(ch%d)", ci), tracked, func(w *World) want {
			chk := gsOnly("unpause", w, true)
			rc := w.ReqCancelled[ci]
			cur := w.Current[ci]
			var m datatransfer.Message = message.UpdateResponse(w.Chans[ci].ID, false)
			if ci == 0 {
				m = message.UpdateRequest(w.Chans[ci].ID, false)
			}
			hang, _ := mc.Call(func() { _ = w.T.ResumeChannel(context.Background(), m, w.Chans[ci]) })
			if hang {
				return want{custom: func(Delta) string { return "ResumeChannel did not return" }}
			}
			if rc && cur >= 0 {
				w.Pending[ci]++
				w.EverQueued[ci]++
			}
			return want{handler: []string{}, custom: func(d Delta) string {
				if s := chk(d); s != "" {
					return s
				}
				for _, c := range d.G {
					if c.Op == "unpause" && len(c.Exts) == 0 {
						return "the resume message was not attached to the unpause"
					}
				}
				return ""
			}}
		}})
		add(op{fmt.Sprintf("close(ch%d)", ci), tracked, func(w *World) want {
			chk := gsOnly("cancel", w, true)
			hang, _ := mc.Call(func() { _ = w.T.CloseChannel(context.Background(), w.Chans[ci]) })
			if hang {
				return want{custom: func(Delta) string { return "CloseChannel did not return (no deadline on the context)" }, hangOK: false}
			}
			if !w.ReqCancelled[ci] {
				w.Current[ci] = -1
			}
			opt := []string{}
			if ci == 0 {
				opt = append(opt, hname("OnRequestCancelled", 0))
			}
			return want{handler: []string{}, optional: opt, custom: chk}
		}})
		add(op{fmt.Sprintf("cleanup(ch%d)", ci), func(w *World) bool { return !w.Shutdown }, func(w *World) want {
			hadStore := w.Store[ci] && !w.Cleaned[ci]
			hang, _ := mc.Call(func() { w.T.CleanupChannel(w.Chans[ci]) })
			if hang {
				return want{custom: func(Delta) string { return "CleanupChannel did not return" }}
			}
			w.Cleaned[ci] = true
			w.Current[ci] = -1
			w.Store[ci] = false
			w.ReqCancelled[ci] = false
			w.Pending[ci] = 0
			w.EverQueued[ci] = 0
			w.StoreCalls[ci] = 0
			for r, o := range w.Owner {
				if o == ci {
					delete(w.Owner, r)
					w.Gone[r] = ci
				}
			}
			name := "data-transfer-" + w.Chans[ci].String()
			return want{handler: []string{}, custom: func(d Delta) string {
				un := 0
				for _, c := range d.G {
					if c.Op == "unregister" && c.Name == name {
						un++
					}
				}
				if hadStore && un != 1 {
					return "the per-channel store was not unregistered at cleanup"
				}
				if w.GS.HasOption(name) {
					return "the per-channel store is still registered after cleanup"
				}
				return ""
			}}
		}})
		add(op{fmt.Sprintf("use-store(ch%d)", ci), func(w *World) bool { return !w.Shutdown }, func(w *World) want {
			var err error
			again := w.Store[ci] // the manager re-applies the transport options on every restart
			mc.Call(func() { err = w.T.UseStore(w.Chans[ci], ipld.LinkSystem{}) })
			w.Store[ci] = true
			w.StoreCalls[ci]++
			w.Cleaned[ci] = false
			name := "data-transfer-" + w.Chans[ci].String()
			return want{handler: []string{}, custom: func(d Delta) string {
				if err != nil && !again {
					return "UseStore failed: " + err.Error()
				}
				if !w.GS.HasOption(name) {
					return "the per-channel store was not registered"
				}
				return ""
			}}
		}})
	}
	add(op{"shutdown", notShut, func(w *World) want {
		hang, _ := mc.Call(func() { _ = w.T.Shutdown(context.Background()) })
		w.Shutdown = true
		if hang {
			return want{custom: func(Delta) string { return "Shutdown did not return" }}
		}
		return want{optional: []string{hname("OnRequestCancelled", 0)}, handler: []string{}}
	}})
	return ops
}

// phantom channel {C,A,2}
func init4(w *World) {
	w.Chans = append(w.Chans, datatransfer.ChannelID{Initiator: doubles.PeerC, Responder: doubles.PeerA, ID: 2})
	w.Current[3] = -1
}

// propOf maps a problem description to the property whose clause it breaks (besides C16).
func propOf(s string) string {
	switch {
	case containsStr(s, "do-not-send-first-blocks"), containsStr(s, "before re-opening"), containsStr(s, "before the previous one was cancelled"), containsStr(s, "queued extension"):
		return "C10"
	case containsStr(s, "bytes on the wire"):
		return "C07"
	}
	return ""
}

// focusRestartCycles is the sub-alphabet around requester-cancel / re-request cycles.
var focusRestartCycles = []string{"open(ch0)", "finish(cur(ch0),client-cancelled)", "finish(cur(ch0),ok)", "close(ch0)", "incoming(ch1,new)", "incoming(ch1,restart)",
	"requestor-cancelled(cur(ch1))", "resume(ch1)", "pause(ch1)", "close(ch1)", "cleanup(ch1)", "use-store(ch1)", "use-store(ch0)", "cleanup(ch0)", "completed-response(cur(ch1),20)"}

func c16(x *mc.Cell, nch, depth, maxStates int, focus ...string) {
	ops := buildOps(nch)
	if len(focus) > 0 {
		var sel []op
		for _, o := range ops {
			for _, f := range focus {
				if o.name == f {
					sel = append(sel, o)
				}
			}
		}
		ops = sel
	}
	opName := func(i int) string { return ops[i].name }
	name := fmt.Sprintf("c16-routing-%dch", nch)
	if len(focus) > 0 {
		name += "-focused"
	}
	x.BFS(name, mc.BFSOpts{NumOps: len(ops), MaxDepth: depth, MaxStates: maxStates, OpName: opName}, func(hist []int) (string, bool) {
		key, enabled := "", true
		rep := mc.BFSReplay(name, hist, opName)
		pv, stack := mc.Bubble(x.T, func() {
			w := NewWorld()
			init4(w)
			defer w.Close()
			for hi, oi := range hist {
				last := hi == len(hist)-1
				o := ops[oi]
				if w.Shutdown || (o.enabled != nil && !o.enabled(w)) { // after Shutdown graphsync fires no more callbacks; the state is final
					if last {
						enabled = false
					}
					return
				}
				mk := w.Mark()
				wt := o.do(w)
				mc.Wait()
				d := w.Since(mk)
				if !last {
					continue
				}
				x.Premise++
				viol := func(sig, msg string) {
					x.Violate("C16", fmt.Sprintf("%s;op=%s", sig, o.name), fmt.Sprintf("history=%v: %s\n  %s", rep.(map[string]any)["ops"], msg, d), rep)
					// a message of the wrong kind for its sender's role, from a peer that is not the channel's other party, or
					// naming another transfer, that has any effect: also C05
					if containsStr(o.name, "role-confused-kind") || containsStr(o.name, ",from-C") || containsStr(o.name, "other-transfer-id") || containsStr(o.name, "(from-C,") {
						x.Violate("C05", fmt.Sprintf("transport;%s;op=%s", sig, o.name), fmt.Sprintf("history=%v: %s\n  %s", rep.(map[string]any)["ops"], msg, d), rep)
					}
				}
				if wt.custom != nil {
					if s := wt.custom(d); s != "" {
						if containsStr(s, "did not return") {
							// termination is C20's clause (and C09's for closing); C16 only routes
							msg := fmt.Sprintf("history=%v: %s\n  %s", rep.(map[string]any)["ops"], s, d)
							x.Violate("C20", "call-did-not-return;op="+o.name, msg, rep)
							if len(o.name) >= 5 && o.name[:5] == "close" {
								x.Violate("C09", "transport-close-did-not-return;op="+o.name, msg, rep)
							}
							// the blocked call cannot be released: this worker ends here
							if x.Prop == "C20" || (x.Prop == "C09" && len(o.name) >= 5 && o.name[:5] == "close") {
								x.Die()
							}
							x.Abandon("a transport call did not return (reported by the C20 / C09 checks); exploration of this cell stops")
						} else {
							viol("callback-effect", s)
							if p := propOf(s); p != "" {
								x.Violate(p, "transport;"+o.name, fmt.Sprintf("history=%v: %s\n  %s", rep.(map[string]any)["ops"], s, d), rep)
							}
						}
					}
				}
				if wt.handler != nil || wt.optional != nil {
					got := map[string]int{}
					for _, c := range d.H {
						ci := w.ChanIdx(c.Chid)
						got[hname(c.Method, ci)]++
						if ci < 0 {
							viol("handler-call-for-unknown-channel", "handler call names "+doubles.ChidName(c.Chid))
						}
					}
					wantm := map[string]int{}
					for _, h := range wt.handler {
						wantm[h]++
					}
					opt := map[string]bool{}
					for _, h := range wt.optional {
						opt[h] = true
					}
					for k, n := range got {
						if n > wantm[k] && !opt[k] {
							viol("unexpected-handler-call;"+k, fmt.Sprintf("%d x %s, expected %d", n, k, wantm[k]))
							if containsStr(o.name, "onwire=0") {
								x.Violate("C07", "transport;block-not-on-the-wire-accounted;"+k, fmt.Sprintf("history=%v: a block that was not put on the wire produced %s\n  %s", rep.(map[string]any)["ops"], k, d), rep)
							}
						}
					}
					for k, n := range wantm {
						if got[k] != n && wt.handler != nil {
							viol("missing-handler-call;"+k, fmt.Sprintf("%d x %s, expected %d", got[k], k, n))
						}
					}
				}
			}
			key = w.Key()
		})
		if pv != nil {
			if _, ok := pv.(mc.ErrDiverged); ok {
				panic(pv)
			}
			x.Violate("C16", "panic;op="+opName(hist[len(hist)-1]), fmt.Sprintf("%v\n%s", pv, stack), rep)
			return "panic", false
		}
		return key, enabled
	})
}

func containsStr(s, sub string) bool {
	for i := 0; i+len(sub) <= len(s); i++ {
		if s[i:i+len(sub)] == sub {
			return true
		}
	}
	return false
}

func init() {
	mc.Register("C16", "routing-2-channels", "quick", func(x *mc.Cell) { c16(x, 2, 4, 0) })
	mc.Register("C16", "routing-3-channels", "thorough", func(x *mc.Cell) { c16(x, 3, 5, 60000) })
	for _, p := range []string{"C10", "C16"} {
		mc.Register(p, "transport-restart-cycles", "quick", func(x *mc.Cell) { c16(x, 2, 6, 0, focusRestartCycles...) })
		mc.Register(p, "transport-restart-cycles", "thorough", func(x *mc.Cell) { c16(x, 2, 8, 80000, focusRestartCycles...) })
	}
	for _, p := range []string{"C20", "C09", "C10", "C07", "C05"} {
		mc.Register(p, "transport-routing-2-channels", "quick", func(x *mc.Cell) { c16(x, 2, 3, 0) })
		mc.Register(p, "transport-routing-3-channels", "thorough", func(x *mc.Cell) { c16(x, 3, 4, 60000) })
	}
}
