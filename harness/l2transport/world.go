// Package l2transport drives the real graphsync Transport over a fake graph
// exchange whose callbacks the harness fires, with a recording EventsHandler
// (or a real manager) behind it.
package l2transport

import (
	"context"
	"fmt"
	"sort"
	"strings"

	"github.com/ipfs/go-graphsync"
	"github.com/ipfs/go-graphsync/donotsendfirstblocks"
	"github.com/ipld/go-ipld-prime"
	"github.com/ipld/go-ipld-prime/datamodel"
	cidlink "github.com/ipld/go-ipld-prime/linking/cid"
	"github.com/ipld/go-ipld-prime/node/basicnode"
	"github.com/libp2p/go-libp2p/core/peer"

	datatransfer "github.com/filecoin-project/go-data-transfer/v2"
	"github.com/filecoin-project/go-data-transfer/v2/message"
	dtgs "github.com/filecoin-project/go-data-transfer/v2/transport/graphsync"
	"github.com/filecoin-project/go-data-transfer/v2/transport/graphsync/extension"

	"verif/doubles"
	"verif/mc"
)

// World is the transport under test plus its doubles and the harness's ground truth.
type World struct {
	GS *doubles.FakeGS
	T  *dtgs.Transport
	H  *doubles.RecHandler

	Chans []datatransfer.ChannelID
	// ground truth
	Owner        map[int]int  // request number -> channel index (requests whose mapping must exist)
	Current      map[int]int  // channel index -> current request number (-1 none)
	Store        map[int]bool // channel index -> per-channel store registered
	Cleaned      map[int]bool
	ReqCancelled map[int]bool // requester cancelled flag per channel
	Pending      map[int]int  // queued extensions per channel
	Gone         map[int]int  // request number -> channel index, for requests whose channel was cleaned up
	EverQueued   map[int]int  // extensions ever queued on the channel since its last cleanup (residue-sensitive part of the key)
	StoreCalls   map[int]int  // UseStore calls on the channel since its last cleanup (residue-sensitive part of the key)
	nextIn       int
	Shutdown     bool
}

func root() ipld.Link { return cidlink.Link{Cid: doubles.Cid("root")} }

// RootLink is the link of the fixed root (for other harness packages).
func RootLink() ipld.Link { return root() }

// NewWorld builds transport + doubles; ch0: self requests from B ({A,B,2}); ch1: B requests from self ({B,A,2});
// ch2: C responds to self's push, i.e. C requests data from self with a response extension ({A,C,2}).
// All channels (and the phantom {C,A,2}) carry the same transfer id on purpose: peers number their transfers
// independently, so only the whole (initiator, responder, id) triple identifies a channel.
func NewWorld() *World {
	w := &World{GS: doubles.NewFakeGS(), H: &doubles.RecHandler{}, Owner: map[int]int{}, Current: map[int]int{}, Store: map[int]bool{}, Cleaned: map[int]bool{},
		ReqCancelled: map[int]bool{}, Pending: map[int]int{}, Gone: map[int]int{}, EverQueued: map[int]int{}, StoreCalls: map[int]int{}}
	w.T = dtgs.NewTransport(doubles.PeerA, w.GS)
	if err := w.T.SetEventHandler(w.H); err != nil {
		panic(err)
	}
	w.Chans = []datatransfer.ChannelID{
		{Initiator: doubles.PeerA, Responder: doubles.PeerB, ID: 2},
		{Initiator: doubles.PeerB, Responder: doubles.PeerA, ID: 2},
		{Initiator: doubles.PeerA, Responder: doubles.PeerC, ID: 2},
	}
	for i := range w.Chans {
		w.Current[i] = -1
	}
	// a cancelled outgoing request completes with the client-cancelled error, like real graphsync
	w.GS.OnCancel = func(num int) { w.GS.Finish(num, graphsync.RequestClientCancelledErr{}) }
	return w
}

// Close shuts the transport down and finishes all outgoing requests so no goroutine stays behind.
func (w *World) Close() {
	if !w.Shutdown {
		_ = w.T.Shutdown(context.Background())
		w.Shutdown = true
	}
	for _, r := range w.GS.Reqs {
		w.GS.Finish(r.Num, nil)
	}
	mc.Wait()
}

func reqMsg(tid datatransfer.TransferID, restart, pull bool) datatransfer.Request {
	v := doubles.Voucher("T", "v")
	r, err := message.NewRequest(tid, restart, pull, &v, doubles.Cid("root"), doubles.AllSelector())
	if err != nil {
		panic(err)
	}
	return r
}

func respMsg(tid datatransfer.TransferID) datatransfer.Response {
	r, err := message.NewResponse(tid, true, false, nil)
	if err != nil {
		panic(err)
	}
	return r
}

func extOf(m datatransfer.Message, names ...graphsync.ExtensionName) map[graphsync.ExtensionName]datamodel.Node {
	if len(names) == 0 {
		names = []graphsync.ExtensionName{extension.ExtensionDataTransfer1_1}
	}
	out := map[graphsync.ExtensionName]datamodel.Node{}
	for _, n := range names {
		out[n] = m.ToIPLD()
	}
	return out
}

// Mark / Delta over all recorders
type Mark struct{ h, g int }

func (w *World) Mark() Mark { return Mark{w.H.NumCalls(), w.GS.NumCalls()} }

type Delta struct {
	H []doubles.HCall
	G []doubles.GSCall
}

func (w *World) Since(m Mark) Delta { return Delta{w.H.CallsFrom(m.h), w.GS.CallsFrom(m.g)} }

func (d Delta) String() string {
	var hs, gs []string
	for _, c := range d.H {
		hs = append(hs, c.String())
	}
	for _, c := range d.G {
		gs = append(gs, c.String())
	}
	return fmt.Sprintf("handler=[%s] graphsync=[%s]", strings.Join(hs, " "), strings.Join(gs, " "))
}

// ChanIdx finds the index of a channel id (-1 for phantom ids).
func (w *World) ChanIdx(c datatransfer.ChannelID) int {
	for i, x := range w.Chans {
		if x == c {
			return i
		}
	}
	return -1
}

// Key is the canonical ground-truth key.
func (w *World) Key() string {
	var parts []string
	for i := range w.Chans {
		var reqs []int
		for r, o := range w.Owner {
			if o == i {
				reqs = append(reqs, r)
			}
		}
		sort.Ints(reqs)
		fin := ""
		for _, r := range reqs {
			if fr := w.GS.Req(r); fr != nil && fr.Closed {
				fin += "f"
			} else {
				fin += "o"
			}
		}
		parts = append(parts, fmt.Sprintf("c%d[cur=%v n=%d %s st=%v cl=%v rc=%v pe=%d eq=%d us=%d]", i, w.Current[i] >= 0, len(reqs), fin, w.Store[i], w.Cleaned[i], w.ReqCancelled[i], w.Pending[i], min(w.EverQueued[i], 2), min(w.StoreCalls[i], 2)))
	}
	g := [4]int{}
	for _, ci := range w.Gone {
		if ci >= 0 && ci < 4 {
			g[ci] = 1
		}
	}
	return strings.Join(parts, " ") + fmt.Sprintf(" sd=%v gone=%v", w.Shutdown, g)
}

func skipExt(n int64) graphsync.ExtensionData {
	return graphsync.ExtensionData{Name: graphsync.ExtensionsDoNotSendFirstBlocks, Data: donotsendfirstblocks.EncodeDoNotSendFirstBlocks(n)}
}

var _ = basicnode.NewInt
var _ peer.ID

// exported helpers for the thread-level harnesses
func ReqData(num int, exts map[graphsync.ExtensionName]datamodel.Node) *doubles.FakeRequestData {
	return reqData(num, exts)
}
func ReqMsg(tid datatransfer.TransferID, restart, pull bool) datatransfer.Request {
	return reqMsg(tid, restart, pull)
}
func ExtOf(m datatransfer.Message, names ...graphsync.ExtensionName) map[graphsync.ExtensionName]datamodel.Node {
	return extOf(m, names...)
}

func RespMsg(tid datatransfer.TransferID) datatransfer.Response { return respMsg(tid) }
