// Package schedh holds the harness bodies that run under the cooperative scheduler.
package schedh

import (
	"context"
	"fmt"
	"sort"
	"strings"
	"time"

	datatransfer "github.com/filecoin-project/go-data-transfer/v2"

	"verif/doubles"
	"verif/l2node"
	"verif/mc"
	"verif/sched"
)

func stmtIn(file string) sched.Filter {
	return func(kind string, obj any) bool {
		if kind == "atomic" {
			return true
		}
		if kind == "stmt" {
			s, _ := obj.(string)
			return strings.HasPrefix(s, file)
		}
		return false
	}
}

// c18Concurrent: nThreads threads each open nOpens channels on one manager; scheduling points are the
// statements and atomics of the transfer-id generator.
func c18Concurrent(x *mc.Cell, nThreads, nOpens, bound int) {
	name := fmt.Sprintf("c18-ids-%dx%d", nThreads, nOpens)
	x.Enumerate(name, mc.EnumOpts{MaxDeviations: bound, DeviationCost: sched.Cost}, func(c *mc.Chooser) mc.Exec {
		var ex mc.Exec
		pv, stack := mc.Bubble(x.T, func() {
			n, err := l2node.NewNode(l2node.Opts{Types: []string{"T"}})
			if err != nil {
				panic(err)
			}
			defer n.Stop()
			s := sched.New(stmtIn("impl/timecounter.go"))
			defer s.Close() // also on a diverged replay: parked library goroutines must be released before the world is torn down
			ids := make([][]uint64, nThreads)
			var calls []*mc.CallResult
			for t := 0; t < nThreads; t++ {
				t := t
				calls = append(calls, s.Go(fmt.Sprintf("opener%d", t), func() {
					for k := 0; k < nOpens; k++ {
						var chid datatransfer.ChannelID
						var err error
						if (t+k)%2 == 0 {
							chid, err = n.Mgr.OpenPushDataChannel(context.Background(), doubles.PeerB, doubles.Voucher("T", "v"), doubles.Cid("root"), doubles.AllSelector())
						} else {
							chid, err = n.Mgr.OpenPullDataChannel(context.Background(), doubles.PeerB, doubles.Voucher("T", "v"), doubles.Cid("root"), doubles.AllSelector())
						}
						if err != nil {
							ids[t] = append(ids[t], 0)
							continue
						}
						ids[t] = append(ids[t], uint64(chid.ID))
					}
				}))
			}
			stuck, capped := s.Run(c, 5000, 0, 0)
			s.Close()
			mc.Wait()
			rep := mc.EnumReplay(name, c)
			if capped {
				x.Cap(name + ": step cap")
			}
			if len(stuck) > 0 {
				x.Violate("C20", "ids;threads-stuck", fmt.Sprintf("threads %v never finished; schedule %v", stuck, s.Trace), rep)
				return
			}
			var all []uint64
			for t := range ids {
				for k, id := range ids[t] {
					if id == 0 {
						x.Violate("C18", "open-failed-under-concurrency", fmt.Sprintf("ids=%v schedule=%v", ids, s.Trace), rep)
					}
					if k > 0 && id <= ids[t][k-1] {
						x.Violate("C18", "ids-not-increasing-per-caller", fmt.Sprintf("ids=%v schedule=%v", ids, s.Trace), rep)
					}
					all = append(all, id)
				}
			}
			sort.Slice(all, func(i, j int) bool { return all[i] < all[j] })
			for i := 1; i < len(all); i++ {
				if all[i] == all[i-1] {
					x.Violate("C18", "duplicate-transfer-id", fmt.Sprintf("two opens returned the same transfer ID %d: ids=%v schedule=%v", all[i], ids, s.Trace), rep)
				}
			}
			if len(all) > 0 && all[len(all)-1]-all[0] != uint64(len(all)-1) {
				x.Violate("C18", "ids-not-contiguous", fmt.Sprintf("ids=%v schedule=%v", ids, s.Trace), rep)
			}
			chans, _ := n.Mgr.InProgressChannels(context.Background())
			if len(chans) != nThreads*nOpens {
				x.Violate("C18", "channels-lost", fmt.Sprintf("%d channels listed after %d opens: ids=%v", len(chans), nThreads*nOpens, ids), rep)
			}
			ex.Premise = true
			// outcome: the order in which threads obtained ids
			ex.Outcome = fmt.Sprint(rank(ids))
		})
		if pv != nil {
			x.Violate("C18", "panic;ids", fmt.Sprintf("%v\n%s", pv, stack), mc.EnumReplay(name, c))
		}
		return ex
	})
}

func rank(ids [][]uint64) [][]int {
	var all []uint64
	for _, l := range ids {
		all = append(all, l...)
	}
	sort.Slice(all, func(i, j int) bool { return all[i] < all[j] })
	out := make([][]int, len(ids))
	for t, l := range ids {
		for _, id := range l {
			for r, a := range all {
				if a == id {
					out[t] = append(out[t], r)
					break
				}
			}
		}
	}
	return out
}

// c18Lifetimes: successive managers on one node; the later one starts above the earlier one's ids.
func c18Lifetimes(x *mc.Cell) {
	for k := 1; k <= 3; k++ {
		for _, d := range []time.Duration{time.Duration(k), time.Duration(k + 1), time.Hour} {
			for k2 := 1; k2 <= 2; k2++ {
				k, d, k2 := k, d, k2
				x.Executions++
				rep := map[string]any{"opens": k, "advance_ns": int64(d), "later_opens": k2}
				pv, stack := mc.Bubble(x.T, func() {
					later := false
					open := func(n *l2node.Node, cnt int) []uint64 {
						var out []uint64
						for i := 0; i < cnt; i++ {
							c, err := n.Mgr.OpenPushDataChannel(context.Background(), doubles.PeerB, doubles.Voucher("T", "v"), doubles.Cid("root"), doubles.AllSelector())
							if err != nil && later {
								x.Violate("C18", "later-manager-cannot-open", fmt.Sprintf("open #%d of the later manager (clock advanced by %v after %d opens of the earlier one) failed: %v", i, d, k, err), rep)
								continue
							}
							if err != nil {
								panic(err)
							}
							out = append(out, uint64(c.ID))
						}
						mc.Wait()
						return out
					}
					n1, err := l2node.NewNode(l2node.Opts{Types: []string{"T"}})
					if err != nil {
						panic(err)
					}
					a := open(n1, k)
					img := n1.DS.Image()
					n1.Stop()
					time.Sleep(d)
					n2, err := l2node.NewNode(l2node.Opts{DS: doubles.NewRecDSFrom(img), Types: []string{"T"}})
					if err != nil {
						panic(err)
					}
					defer n2.Stop()
					later = true
					b := open(n2, k2)
					x.Premise++
					x.Outcome(fmt.Sprintf("%d|%d|%d", k, d, k2))
					for _, ib := range b {
						for _, ia := range a {
							if ib <= ia {
								x.Violate("C18", "later-manager-reuses-id-range", fmt.Sprintf("first manager issued %v, after %v the next manager issued %v", a, d, b), rep)
							}
						}
					}
					chans, _ := n2.Mgr.InProgressChannels(context.Background())
					if len(chans) != k+len(b) {
						x.Violate("C18", "lifetimes;channels-lost", fmt.Sprintf("%d channels after %d+%d opens", len(chans), k, k2), rep)
					}
				})
				if pv != nil {
					x.Violate("C18", "panic;lifetimes", fmt.Sprintf("%v\n%s", pv, stack), rep)
				}
			}
		}
	}
}

func init() {
	mc.Register("C18", "concurrent-opens/2x2", "quick", func(x *mc.Cell) { c18Concurrent(x, 2, 2, 2) })
	mc.Register("C18", "concurrent-opens/3x1", "quick", func(x *mc.Cell) { c18Concurrent(x, 3, 1, 2) })
	mc.Register("C18", "concurrent-opens/2x2", "thorough", func(x *mc.Cell) { c18Concurrent(x, 2, 2, 3) })
	mc.Register("C18", "concurrent-opens/3x2", "thorough", func(x *mc.Cell) { c18Concurrent(x, 3, 2, 3) })
	mc.Register("C18", "manager-lifetimes", "both", c18Lifetimes)
}
