package schedh

import (
	"context"
	"fmt"
	"strings"

	"verif/l2node"
	"verif/mc"
	"verif/sched"
)

// c20ReportEndingStop: on a real manager (recording transport) a first block report of channel A (cold index
// cache: it has to read the channel through its state machine), the ending of A (close / failure: the state machine
// is busy in its cleanup handler, which parks inside the transport's cleanup) and Manager.Stop run concurrently,
// interleaved at lock granularity plus the transport's cleanup / resume points. Afterwards the transport delivers
// late callbacks for another live channel B and for A. Oracle (C20): every call returns, nothing stays parked in a
// library lock, and the late callbacks return as well (a lock leaked on an error path would hold them for ever).
func c20ReportEndingStop(x *mc.Cell, ending string, bound int) {
	name := fmt.Sprintf("c20-report-ending-stop/%s/b%d", ending, bound)
	filter := func(kind string, obj any) bool {
		if kind == "stmt" {
			s, _ := obj.(string)
			return strings.HasPrefix(s, "transport:")
		}
		return lockPoints(kind, obj)
	}
	x.Enumerate(name, mc.EnumOpts{MaxDeviations: bound, DeviationCost: sched.Cost, MaxExecutions: 6000}, func(c *mc.Chooser) mc.Exec {
		var ex mc.Exec
		pv, stack := mc.Bubble(x.T, func() {
			n, err := l2node.NewNode(l2node.Opts{Types: []string{"T"}})
			if err != nil {
				panic(err)
			}
			defer n.Stop()
			chA := l2node.Setup(n, l2node.ReceivedPush, "ongoing")
			chB := l2node.Setup(n, l2node.CreatedPull, "ongoing")
			// restart the process view of the caches: a fresh manager on the same store would be the realistic way to
			// get cold caches; here the channels simply have not reported a block yet
			ctx := context.Background()
			s := sched.New(filter)
			defer s.Close()
			s.Go("first-block-report(A)", func() { _ = n.H().OnDataReceived(chA, l2node.Root(), 5, 1, true) })
			s.Go("ending(A)", func() {
				if ending == "close" {
					_ = n.Mgr.CloseDataTransferChannel(ctx, chA)
				} else {
					_ = n.H().OnChannelCompleted(chA, fmt.Errorf("transfer broke"))
				}
			})
			s.Go("stop", func() { n.MarkStopped(); _ = n.Mgr.Stop(ctx) })
			stuck, capped := s.Run(c, 6000, 0, 0)
			if len(stuck) > 0 {
				stuck, _ = s.Run(c, 9000, 500e6, 60)
			}
			s.Close()
			mc.Wait()
			rep := mc.EnumReplay(name, c)
			if capped {
				x.Cap(name + ": step cap")
			}
			if len(stuck) > 0 {
				stacks := mc.BlockedStacks(6)
				n2 := mc.Unblock()
				x.Violate("C20", fmt.Sprintf("report-ending-stop;call-did-not-return;blocked-in=%s", strings.Join(mc.BlockedSites(), "+")), fmt.Sprintf("%v never returned (%d parked); schedule %v\n%s", stuck, n2, s.Trace, stacks), rep)
				return
			}
			if p := mc.Parked(); p != 0 {
				n2 := mc.Unblock()
				x.Violate("C20", "report-ending-stop;goroutines-left-in-locks", fmt.Sprintf("%d goroutine(s) left parked in library locks; schedule %v", n2, s.Trace), rep)
				return
			}
			ex.Premise = true
			for _, late := range []struct {
				what string
				do   func()
			}{
				{"block-received(B)", func() { _ = n.H().OnDataReceived(chB, l2node.Root(), 5, 1, true) }},
				{"block-received(A)", func() { _ = n.H().OnDataReceived(chA, l2node.Root(), 5, 2, true) }},
				{"block-queued(B)", func() { _, _ = n.H().OnDataQueued(chB, l2node.Root(), 5, 1, true) }},
			} {
				hang, cr := mc.Call(late.do)
				if hang {
					stacks := mc.BlockedStacks(6)
					n2 := mc.Unblock()
					x.Violate("C20", fmt.Sprintf("report-ending-stop;late-callback-did-not-return;callback=%s", late.what), fmt.Sprintf("after the three operations returned, the transport callback %s never returns (%d goroutine(s) parked in library locks); schedule %v\n%s", late.what, n2, s.Trace, stacks), rep)
					return
				}
				if cr.Panic != nil {
					x.Violate("C20", "report-ending-stop;late-callback-panicked;callback="+late.what, fmt.Sprintf("%v\n%s", cr.Panic, cr.Stack), rep)
				}
			}
			ex.Outcome = "ok"
		})
		if pv != nil {
			x.Violate("C20", "panic;report-ending-stop", fmt.Sprintf("%v\n%s", pv, stack), mc.EnumReplay(name, c))
		}
		return ex
	})
}

func init() {
	for _, ending := range []string{"close", "fail"} {
		ending := ending
		mc.Register("C20", "first-block-report+ending+stop/"+ending, "quick", func(x *mc.Cell) { c20ReportEndingStop(x, ending, 1) })
		mc.Register("C20", "first-block-report+ending+stop/"+ending, "thorough", func(x *mc.Cell) { c20ReportEndingStop(x, ending, 2) })
	}
}
