package schedh

import (
	"fmt"
	"os"
	"testing"

	"verif/mc"
)

// TestDeterminism replays the same choice vectors several times and prints the traces.
func TestDeterminism(t *testing.T) {
	if os.Getenv("VERIF_DEBUG") == "" {
		t.Skip()
	}
	x := mc.NewCellForDebug(t)
	for _, ops := range [][]int{{0, 12}, {1, 12}} {
		var ref []string
		for rep := 0; rep < 6; rep++ {
			tr := traceOnce(x, ops, []int{1})
			if rep == 0 {
				ref = tr
				fmt.Println(ops, len(tr), tr)
			} else if fmt.Sprint(tr) != fmt.Sprint(ref) {
				fmt.Println("DIVERGED", ops, rep, tr)
			}
		}
	}
}
