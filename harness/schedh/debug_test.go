package schedh

import (
	"context"
	"fmt"
	datatransfer "github.com/filecoin-project/go-data-transfer/v2"
	"os"
	"sync"
	"testing"
	"verif/doubles"
	"verif/l2transport"
	"verif/sched"

	"verif/mc"
)

// TestDeterminism replays the same choice vectors several times and prints the traces.
func TestDeterminism(t *testing.T) {
	if os.Getenv("VERIF_DEBUG") == "" {
		t.Skip()
	}
	x := mc.NewCellForDebug(t)
	for _, ops := range [][]int{{0, 12}, {1, 12}} {
		var ref []string
		for rep := 0; rep < 6; rep++ {
			tr := traceOnce(x, ops, []int{1})
			if rep == 0 {
				ref = tr
				fmt.Println(ops, len(tr), tr)
			} else if fmt.Sprint(tr) != fmt.Sprint(ref) {
				fmt.Println("DIVERGED", ops, rep, tr)
			}
		}
	}
}

// TestFindBlockedHook (debug aid): free-running triples; prints the triples after which a goroutine stays
// blocked inside the library.
func TestFindBlockedHook(t *testing.T) {
	if os.Getenv("VERIF_DEBUG") == "" {
		t.Skip()
	}
	found := map[string]int{}
	n := len(conOps)
	for round := 0; round < 3000; round++ {
		for a := 0; a < n-1; a++ {
			for b := a; b < n-1; b++ {
				for c := b; c < n-1; c++ {
					key := conOps[a].name + "+" + conOps[b].name + "+" + conOps[c].name
					if key != "restart+restart+peer-cancels" && key != "restart+block-received+request-completes" && key != "restart+peer-accepts+request-completes" && key != "restart+restart+request-completes" {
						continue
					}
					mc.Bubble(t, func() {
						w := l2transport.NewRealWorld()
						chid, err := w.Mgr.OpenPullDataChannel(context.Background(), doubles.PeerB, doubles.Voucher("T", "v"), doubles.Cid("root"), doubles.AllSelector())
						if err != nil {
							panic(err)
						}
						mc.Wait()
						reqNum := w.GS.Reqs[len(w.GS.Reqs)-1].Num
						w.Mgr.SubscribeToEvents(func(e datatransfer.Event, st datatransfer.ChannelState) { _ = st.Status() })
						var wg sync.WaitGroup
						for _, o := range []int{a, b, c} {
							o := o
							wg.Add(1)
							go func() {
								defer wg.Done()
								defer func() { _ = recover() }()
								conOps[o].do(w, chid, reqNum)
							}()
						}
						wg.Wait()
						mc.Wait()
						w.Close()
						mc.Wait()
						if sites := mc.BlockedSites(); len(sites) > 0 {
							if found[key] == 0 {
								fmt.Println("BLOCKED", key, sites)
								fmt.Println(mc.BlockedStacks(4))
								for _, c := range w.GS.CallsFrom(0) {
									fmt.Printf("  gs %d %s req=%d %v\n", c.Seq, c.Op, c.Req, c.Err)
								}
							}
							found[key]++
							mc.Unblock()
							t.Fatalf("blocked: %v", found)
						}
					})
				}
			}
		}
	}
	fmt.Println("found:", found)
}

// TestEnumTriple (debug aid): scheduler enumeration of one triple with a large cap.
func TestEnumTriple(t *testing.T) {
	if os.Getenv("VERIF_DEBUG") == "" {
		t.Skip()
	}
	x := mc.NewCellForDebug(t)
	idx := func(name string) int {
		for i, o := range conOps {
			if o.name == name {
				return i
			}
		}
		panic(name)
	}
	ops := []int{idx("restart"), idx("restart"), idx("peer-cancels")}
	name := "dbg-triple"
	x.Enumerate(name, mc.EnumOpts{MaxDeviations: 2, DeviationCost: sched.Cost, MaxExecutions: 300000}, c20Body(x, ops, name, "restart+restart+peer-cancels+"))
	fmt.Println("executions", x.Executions, "violations", len(x.Violations))
	for _, v := range x.Violations {
		fmt.Println(v.Signature)
		fmt.Println(v.Message)
	}
}

func TestRespReplay(t *testing.T) {
	if os.Getenv("VERIF_DEBUG") == "" {
		t.Skip()
	}
	x := mc.NewCellForDebug(t)
	ops := []int{respIdx("restart-request-arrives"), respIdx("peer-cancels")}
	c := &mc.Chooser{}
	debugFullStacks = true
	c20RespBody(x, ops, "dbg", "dbg")(c)
	for _, v := range x.Violations {
		fmt.Println(v.Signature)
		fmt.Println(v.Message)
	}
}
