package schedh

import (
	"fmt"
	"strings"

	datatransfer "github.com/filecoin-project/go-data-transfer/v2"

	"verif/doubles"
	"verif/l1chan"
	"verif/mc"
	"verif/sched"
)

// c07Concurrent: several reporters on one channel and one direction; scheduling points are the statements,
// atomics and locks of the progress caches.
func c07Concurrent(x *mc.Cell, dir string, reports [][]int, bound int) {
	name := fmt.Sprintf("c07-concurrent-%s-%v", dir, reports)
	filter := func(kind string, obj any) bool {
		if kind == "atomic" {
			return true
		}
		if kind == "stmt" {
			s, _ := obj.(string)
			return len(s) >= 18 && s[:18] == "channels/caches.go"
		}
		return false
	}
	progCode := map[string]datatransfer.EventCode{"received": datatransfer.DataReceivedProgress, "queued": datatransfer.DataQueuedProgress, "sent": datatransfer.DataSentProgress}[dir]
	x.Enumerate(name, mc.EnumOpts{MaxDeviations: bound, DeviationCost: sched.Cost}, func(c *mc.Chooser) mc.Exec {
		var ex mc.Exec
		pv, stack := mc.Bubble(x.T, func() {
			sys, err := l1chan.NewSys(nil)
			if err != nil {
				panic(err)
			}
			defer sys.Stop()
			role := l1chan.InitPull
			if dir != "received" {
				role = l1chan.InitPush
			}
			chid, _ := sys.Create(role, 1, doubles.Voucher("T", "v"))
			_ = sys.Ch.Accept(chid)
			_ = sys.Ch.TransferInitiated(chid)
			mc.Wait()
			s := sched.New(filter)
			defer s.Close() // also on a diverged replay: parked library goroutines must be released before the world is torn down
			for t, poss := range reports {
				t, poss := t, poss
				s.Go(fmt.Sprintf("reporter%d", t), func() {
					for _, pos := range poss {
						size := uint64(1) << uint(pos-1) // size tied to the position
						switch dir {
						case "received":
							_ = sys.Ch.DataReceived(chid, doubles.Cid("b"), size, int64(pos), true)
						case "queued":
							_ = sys.Ch.DataQueued(chid, doubles.Cid("b"), size, int64(pos), true)
						default:
							_ = sys.Ch.DataSent(chid, doubles.Cid("b"), size, int64(pos), true)
						}
					}
				})
			}
			stuck, capped := s.Run(c, 5000, 0, 0)
			s.Close()
			mc.Wait()
			rep := mc.EnumReplay(name, c)
			if capped {
				x.Cap(name + ": step cap")
			}
			if len(stuck) > 0 {
				x.Violate("C20", "caches;threads-stuck", fmt.Sprintf("threads %v never finished; schedule %v", stuck, s.Trace), rep)
				return
			}
			v, err := sys.Vec(chid)
			if err != nil {
				panic(err)
			}
			// each progress event carries the delta = size of its position (sizes are distinct powers of two)
			var sum uint64
			deltas := []uint64{}
			prev := uint64(0)
			for _, e := range sys.EventsFrom(0) {
				if e.Code == progCode {
					var cur uint64
					switch dir {
					case "received":
						cur = e.Vec.Received
					case "queued":
						cur = e.Vec.Queued
					default:
						cur = e.Vec.Sent
					}
					deltas = append(deltas, cur-prev)
					sum += cur - prev
					prev = cur
				}
			}
			seen := map[uint64]int{}
			for _, d := range deltas {
				seen[d]++
			}
			var gotB uint64
			var gotI int64
			switch dir {
			case "received":
				gotB, gotI = v.Received, v.RIdx
			case "queued":
				gotB, gotI = v.Queued, v.QIdx
			default:
				gotB, gotI = v.Sent, v.SIdx
			}
			maxPos := 0
			for _, poss := range reports {
				for _, p := range poss {
					if p > maxPos {
						maxPos = p
					}
				}
			}
			ctx := fmt.Sprintf("reports=%v progress-deltas=%v bytes=%d index=%d schedule=%v", reports, deltas, gotB, gotI, s.Trace)
			for d, k := range seen {
				if k > 1 {
					x.Violate("C07", "concurrent;position-counted-twice;dir="+dir, fmt.Sprintf("the block of size %d was counted %d times: %s", d, k, ctx), rep)
				}
			}
			if gotB != sum {
				x.Violate("C07", "concurrent;total!=sum-of-counted-reports;dir="+dir, ctx, rep)
			}
			if gotI != int64(maxPos) {
				x.Violate("C07", "concurrent;index!=highest-position;dir="+dir, ctx, rep)
			}
			// the report that carried the highest position always advances the mark
			if seen[uint64(1)<<uint(maxPos-1)] != 1 {
				x.Violate("C07", "concurrent;highest-position-not-counted;dir="+dir, ctx, rep)
			}
			ex.Premise = true
			ex.Outcome = fmt.Sprint(deltas)
		})
		if pv != nil {
			x.Violate("C07", "panic;concurrent", fmt.Sprintf("%v\n%s", pv, stack), mc.EnumReplay(name, c))
		}
		return ex
	})
}

func init() {
	for _, dir := range []string{"received", "queued", "sent"} {
		dir := dir
		mc.Register("C07", "concurrent-reporters/"+dir, "quick", func(x *mc.Cell) {
			c07Concurrent(x, dir, [][]int{{1}, {1}}, 2)
			c07Concurrent(x, dir, [][]int{{1, 2}, {2, 1}}, 1)
			c07Concurrent(x, dir, [][]int{{2}, {1}, {2}}, 1)
		})
		mc.Register("C07", "concurrent-reporters/"+dir, "thorough", func(x *mc.Cell) {
			c07Concurrent(x, dir, [][]int{{1}, {1}}, 4)
			c07Concurrent(x, dir, [][]int{{1, 2}, {2, 1}}, 3)
			c07Concurrent(x, dir, [][]int{{2}, {1}, {2}}, 3)
			c07Concurrent(x, dir, [][]int{{1, 2, 3}, {3, 2, 1}}, 3)
			c07Concurrent(x, dir, [][]int{{1}, {2}, {3}}, 3)
		})
	}
}

// c07ConcurrentAfterReopen: positions 1..2 are reported and persisted, the datastore is reopened (fresh caches,
// as after a process restart or a migration), then two reporters replay positions concurrently - the first
// touch of the index cache races with itself. Nothing may be counted again, whatever the interleaving.
func c07ConcurrentAfterReopen(x *mc.Cell, dir string, bound int) {
	name := fmt.Sprintf("c07-concurrent-after-reopen-%s", dir)
	filter := func(kind string, obj any) bool {
		if kind == "atomic" {
			return true
		}
		if kind == "stmt" {
			s, _ := obj.(string)
			return strings.HasPrefix(s, "channels/caches.go") || strings.HasPrefix(s, "ds:")
		}
		return false
	}
	progCode := map[string]datatransfer.EventCode{"received": datatransfer.DataReceivedProgress, "queued": datatransfer.DataQueuedProgress, "sent": datatransfer.DataSentProgress}[dir]
	x.Enumerate(name, mc.EnumOpts{MaxDeviations: bound, DeviationCost: sched.Cost, MaxExecutions: 6000}, func(c *mc.Chooser) mc.Exec {
		var ex mc.Exec
		pv, stack := mc.Bubble(x.T, func() {
			sys, err := l1chan.NewSys(nil)
			if err != nil {
				panic(err)
			}
			role := l1chan.InitPull
			if dir != "received" {
				role = l1chan.InitPush
			}
			chid, _ := sys.Create(role, 1, doubles.Voucher("T", "v"))
			_ = sys.Ch.Accept(chid)
			_ = sys.Ch.TransferInitiated(chid)
			report := func(s *l1chan.Sys, pos int) {
				size := uint64(1) << uint(pos-1)
				switch dir {
				case "received":
					_ = s.Ch.DataReceived(chid, doubles.Cid("b"), size, int64(pos), true)
				case "queued":
					_ = s.Ch.DataQueued(chid, doubles.Cid("b"), size, int64(pos), true)
				default:
					_ = s.Ch.DataSent(chid, doubles.Cid("b"), size, int64(pos), true)
				}
			}
			report(sys, 1)
			mc.Wait()
			report(sys, 2)
			mc.Wait()
			before, _ := sys.Vec(chid)
			img := sys.DS.Image()
			sys.Stop()
			sys2, err := l1chan.NewSys(doubles.NewRecDSFrom(img))
			if err != nil {
				panic(err)
			}
			defer sys2.Stop()
			mc.Wait()
			s := sched.New(filter)
			defer s.Close() // also on a diverged replay: parked library goroutines must be released before the world is torn down
			s.Go("replayer0", func() { report(sys2, 2) })
			s.Go("replayer1", func() { report(sys2, 1); report(sys2, 2) })
			stuck, capped := s.Run(c, 5000, 0, 0)
			s.Close()
			mc.Wait()
			rep := mc.EnumReplay(name, c)
			if capped {
				x.Cap(name + ": step cap")
			}
			if len(stuck) > 0 {
				x.Violate("C20", "caches;threads-stuck;after-reopen", fmt.Sprintf("threads %v never finished; schedule %v", stuck, s.Trace), rep)
				return
			}
			after, err := sys2.Vec(chid)
			if err != nil {
				panic(err)
			}
			progress := 0
			for _, e := range sys2.EventsFrom(0) {
				if e.Code == progCode {
					progress++
				}
			}
			ex.Premise = true
			ex.Outcome = fmt.Sprintf("progress=%d", progress)
			if progress != 0 || after.String() != before.String() {
				x.Violate("C07", fmt.Sprintf("concurrent;replay-after-reopen-counted;dir=%s;progress-events=%d", dir, progress),
					fmt.Sprintf("positions already persisted were replayed concurrently after a reopen:\n before: %s\n after:  %s\n schedule %v", before, after, s.Trace), rep)
			}
		})
		if pv != nil {
			x.Violate("C07", "panic;concurrent-after-reopen", fmt.Sprintf("%v\n%s", pv, stack), mc.EnumReplay(name, c))
		}
		return ex
	})
}

func init() {
	for _, dir := range []string{"received", "queued", "sent"} {
		dir := dir
		mc.Register("C07", "concurrent-replay-after-reopen/"+dir, "quick", func(x *mc.Cell) { c07ConcurrentAfterReopen(x, dir, 1) })
		mc.Register("C07", "concurrent-replay-after-reopen/"+dir, "thorough", func(x *mc.Cell) { c07ConcurrentAfterReopen(x, dir, 2) })
	}
}

// c07ReportVsRestart: a block report of a new position races with a restart of the channel and with the replay
// of that same position by the restarted transport request. Scheduling points: the statements / atomics of the
// index and progress caches and every datastore operation. Whatever the interleaving the position is counted
// once: one progress event, byte total = sum of the distinct positions.
func c07ReportVsRestart(x *mc.Cell, dir string, bound int) {
	name := fmt.Sprintf("c07-report-vs-restart-%s/b%d", dir, bound)
	filter := func(kind string, obj any) bool {
		if kind == "atomic" {
			return true
		}
		if kind == "stmt" {
			s, _ := obj.(string)
			return strings.HasPrefix(s, "channels/caches.go") || strings.HasPrefix(s, "ds:")
		}
		return false
	}
	progCode := map[string]datatransfer.EventCode{"received": datatransfer.DataReceivedProgress, "queued": datatransfer.DataQueuedProgress, "sent": datatransfer.DataSentProgress}[dir]
	x.Enumerate(name, mc.EnumOpts{MaxDeviations: bound, DeviationCost: sched.Cost, MaxExecutions: 8000}, func(c *mc.Chooser) mc.Exec {
		var ex mc.Exec
		pv, stack := mc.Bubble(x.T, func() {
			sys, err := l1chan.NewSys(nil)
			if err != nil {
				panic(err)
			}
			defer sys.Stop()
			role := l1chan.InitPull
			if dir != "received" {
				role = l1chan.InitPush
			}
			chid, _ := sys.Create(role, 1, doubles.Voucher("T", "v"))
			_ = sys.Ch.Accept(chid)
			_ = sys.Ch.TransferInitiated(chid)
			report := func(pos int) {
				size := uint64(1) << uint(pos-1)
				switch dir {
				case "received":
					_ = sys.Ch.DataReceived(chid, doubles.Cid("b"), size, int64(pos), true)
				case "queued":
					_ = sys.Ch.DataQueued(chid, doubles.Cid("b"), size, int64(pos), true)
				default:
					_ = sys.Ch.DataSent(chid, doubles.Cid("b"), size, int64(pos), true)
				}
			}
			report(1)
			mc.Wait()
			report(2)
			mc.Wait()
			nEv := sys.NumEvents()
			s := sched.New(filter)
			defer s.Close()
			s.Go("reporter", func() { report(3) })
			s.Go("restart", func() { _ = sys.Ch.Restart(chid) })
			s.Go("replay-by-restarted-request", func() { report(3) })
			stuck, capped := s.Run(c, 6000, 0, 0)
			s.Close()
			mc.Wait()
			rep := mc.EnumReplay(name, c)
			if capped {
				x.Cap(name + ": step cap")
			}
			if len(stuck) > 0 {
				x.Violate("C20", "caches;threads-stuck;report-vs-restart", fmt.Sprintf("threads %v never finished; schedule %v", stuck, s.Trace), rep)
				return
			}
			after, err := sys.Vec(chid)
			if err != nil {
				panic(err)
			}
			progress := 0
			for _, e := range sys.EventsFrom(nEv) {
				if e.Code == progCode {
					progress++
				}
			}
			var got uint64
			switch dir {
			case "received":
				got = after.Received
			case "queued":
				got = after.Queued
			default:
				got = after.Sent
			}
			ex.Premise = true
			ex.Outcome = fmt.Sprintf("progress=%d total=%d", progress, got)
			if progress != 1 || got != 1+2+4 {
				x.Violate("C07", fmt.Sprintf("concurrent;position-counted-%d-times-across-restart;dir=%s", progress, dir),
					fmt.Sprintf("position 3 (4 bytes) reported once and replayed once across a restart: %d progress event(s), byte total %d (want 1 and 7); schedule %v", progress, got, s.Trace), rep)
			}
		})
		if pv != nil {
			x.Violate("C07", "panic;report-vs-restart", fmt.Sprintf("%v\n%s", pv, stack), mc.EnumReplay(name, c))
		}
		return ex
	})
}

func init() {
	for _, dir := range []string{"received", "queued", "sent"} {
		dir := dir
		mc.Register("C07", "report-racing-with-restart-and-replay/"+dir, "quick", func(x *mc.Cell) { c07ReportVsRestart(x, dir, 1) })
		mc.Register("C07", "report-racing-with-restart-and-replay/"+dir, "thorough", func(x *mc.Cell) { c07ReportVsRestart(x, dir, 2) })
	}
}
