package schedh

import (
	"context"
	"fmt"
	"strings"
	"sync"
	"time"

	"github.com/ipfs/go-graphsync"
	"github.com/ipld/go-ipld-prime/datamodel"

	datatransfer "github.com/filecoin-project/go-data-transfer/v2"
	"github.com/filecoin-project/go-data-transfer/v2/message"
	"github.com/filecoin-project/go-data-transfer/v2/transport/graphsync/extension"

	"verif/doubles"
	"verif/l2transport"
	"verif/mc"
	"verif/sched"
	"verif/views"
)

// conOp is one concurrent operation on the real manager + real transport world.
// opCtx is the context of the operations of the current execution (one execution at a time per process).
var opCtx = context.Background()

type conOp struct {
	name string
	do   func(w *l2transport.RealWorld, chid datatransfer.ChannelID, reqNum int)
}

func extOfMsg(m datatransfer.Message) map[graphsync.ExtensionName]datamodel.Node {
	return map[graphsync.ExtensionName]datamodel.Node{extension.ExtensionDataTransfer1_1: m.ToIPLD()}
}

var conOps = []conOp{
	{"open-pull", func(w *l2transport.RealWorld, c datatransfer.ChannelID, r int) {
		_, _ = w.Mgr.OpenPullDataChannel(opCtx, doubles.PeerB, doubles.Voucher("T", "v"), doubles.Cid("root"), doubles.AllSelector())
	}},
	{"open-push", func(w *l2transport.RealWorld, c datatransfer.ChannelID, r int) {
		_, _ = w.Mgr.OpenPushDataChannel(opCtx, doubles.PeerB, doubles.Voucher("T", "v"), doubles.Cid("root"), doubles.AllSelector())
	}},
	{"close", func(w *l2transport.RealWorld, c datatransfer.ChannelID, r int) {
		_ = w.Mgr.CloseDataTransferChannel(opCtx, c)
	}},
	{"pause", func(w *l2transport.RealWorld, c datatransfer.ChannelID, r int) {
		_ = w.Mgr.PauseDataTransferChannel(opCtx, c)
	}},
	{"resume", func(w *l2transport.RealWorld, c datatransfer.ChannelID, r int) {
		_ = w.Mgr.ResumeDataTransferChannel(opCtx, c)
	}},
	{"restart", func(w *l2transport.RealWorld, c datatransfer.ChannelID, r int) {
		_ = w.Mgr.RestartDataTransferChannel(opCtx, c)
	}},
	{"block-received", func(w *l2transport.RealWorld, c datatransfer.ChannelID, r int) {
		acts := &doubles.Actions{}
		if h := w.GS.IncomingBlockHook; h != nil {
			h(doubles.PeerB, &doubles.FakeResponseData{Num: r}, &doubles.FakeBlock{L: l2transport.RootLink(), Size: 5, OnWire: 5, Idx: 1}, acts)
		}
	}},
	{"peer-accepts", func(w *l2transport.RealWorld, c datatransfer.ChannelID, r int) {
		rs, _ := message.NewResponse(c.ID, true, false, nil)
		acts := &doubles.Actions{}
		if h := w.GS.IncomingResponseHook; h != nil {
			h(doubles.PeerB, &doubles.FakeResponseData{Num: r, Exts: extOfMsg(rs)}, acts)
		}
	}},
	{"peer-cancels", func(w *l2transport.RealWorld, c datatransfer.ChannelID, r int) {
		w.Net.Receiver.ReceiveResponse(opCtx, doubles.PeerB, doubles.Recode(message.CancelResponse(c.ID)).(datatransfer.Response))
	}},
	{"request-completes", func(w *l2transport.RealWorld, c datatransfer.ChannelID, r int) { w.GS.Finish(r, nil) }},
	{"subscribe-unsubscribe", func(w *l2transport.RealWorld, c datatransfer.ChannelID, r int) {
		u := w.Mgr.SubscribeToEvents(func(datatransfer.Event, datatransfer.ChannelState) {})
		u()
	}},
	{"query", func(w *l2transport.RealWorld, c datatransfer.ChannelID, r int) {
		_, _ = w.Mgr.ChannelState(opCtx, c)
		_, _ = w.Mgr.InProgressChannels(opCtx)
	}},
	{"stop", func(w *l2transport.RealWorld, c datatransfer.ChannelID, r int) { _ = w.StopVia(opCtx) }},
}

func lockPoints(kind string, obj any) bool { return kind == "lock" || kind == "rlock" }

// c20Interleave explores the interleavings (lock-acquisition granularity) of a multiset of operations
// on one open pull channel of the real manager + real graphsync transport.
var lastTrace []string

func traceOnce(x *mc.Cell, ops []int, prefix []int) []string {
	c := &mc.Chooser{Prefix: prefix}
	c20Body(x, ops, "dbg", "dbg")(c)
	out := append([]string(nil), lastTrace...)
	for _, p := range c.Trace {
		out = append(out, p.Label)
	}
	return out
}

func c20Interleave(x *mc.Cell, ops []int, bound int) { c20InterleaveCap(x, ops, bound, 4000) }

func c20InterleaveCap(x *mc.Cell, ops []int, bound int, maxExec int64) {
	names := ""
	for _, o := range ops {
		names += conOps[o].name + "+"
	}
	name := fmt.Sprintf("c20-interleave/%sb%d", names, bound)
	x.Enumerate(name, mc.EnumOpts{MaxDeviations: bound, DeviationCost: sched.Cost, MaxExecutions: maxExec}, c20Body(x, ops, name, names))
}

func opIdx(name string) int {
	for i, o := range conOps {
		if o.name == name {
			return i
		}
	}
	panic("unknown op " + name)
}

func c20Body(x *mc.Cell, ops []int, name, names string) mc.Body {
	return func(c *mc.Chooser) mc.Exec {
		var ex mc.Exec
		pv, stack := mc.Bubble(x.T, func() {
			w := l2transport.NewRealWorld()
			closed := false
			defer func() {
				if !closed {
					w.Close()
				}
			}()
			chid, err := w.Mgr.OpenPullDataChannel(context.Background(), doubles.PeerB, doubles.Voucher("T", "v"), doubles.Cid("root"), doubles.AllSelector())
			if err != nil {
				panic(err)
			}
			mc.Wait()
			reqNum := w.GS.Reqs[len(w.GS.Reqs)-1].Num
			var mu sync.Mutex
			var snaps []datatransfer.ChannelState
			w.Mgr.SubscribeToEvents(func(e datatransfer.Event, st datatransfer.ChannelState) {
				mu.Lock()
				snaps = append(snaps, st)
				mu.Unlock()
			})
			// the operations run with a context that is never cancelled before the verdict; the harness cancels it
			// afterwards so that calls that were found stuck can be torn down and the cell goes on
			ctx, cancelOps := context.WithCancel(context.Background())
			opCtx = ctx
			defer cancelOps()
			s := sched.New(lockPoints)
			sClosed := false
			defer func() {
				if !sClosed {
					s.Close()
				}
			}()
			for i, o := range ops {
				o := o
				s.Go(fmt.Sprintf("t%d:%s", i, conOps[o].name), func() { conOps[o].do(w, chid, reqNum) })
			}
			stuck, capped := s.Run(c, 3000, 0, 0)
			lastTrace = append([]string(nil), s.Trace...)
			rep := mc.EnumReplay(name, c)
			if capped {
				x.Cap(name + ": step cap")
			}
			if len(stuck) > 0 {
				// maybe they wait on a timeout (e.g. the 1 s fail-safe while waiting for a cancelled graphsync request
				// to complete): let the virtual clock run - 30 s in half-second steps, then 24 h in hours
				stuck, _ = s.Run(c, 9000, 500*time.Millisecond, 60)
				if len(stuck) > 0 {
					stuck, _ = s.Run(c, 12000, time.Hour, 24)
				}
			}
			parked := mc.Parked()
			if len(stuck) > 0 {
				stacks := mc.BlockedStacks(6)
				sites := strings.Join(mc.BlockedSites(), "+")
				stopInvolved := strings.Contains(names, "stop")
				n := mc.Unblock()
				x.Violate("C20", fmt.Sprintf("interleaving;call-did-not-return;blocked-in=%s;stop-involved=%v", sites, stopInvolved), fmt.Sprintf("operations %v never returned (%d goroutines parked in library locks); schedule: %v\nblocked goroutines:\n%s", stuck, n, s.Trace, stacks), rep)
				// tear down: cancel the operations' context, release what is parked; if something still cannot be
				// released the worker ends here
				cancelOps()
				s.Close()
				sClosed = true
				mc.Wait()
				_, _ = mc.Call(func() { _ = w.Mgr.Stop(context.Background()) })
				w.MarkStopped()
				for _, r := range w.GS.Reqs {
					w.GS.Finish(r.Num, nil)
				}
				mc.Unblock()
				mc.Wait()
				closed = true
				if mc.BlockedStacks(1) != "" {
					x.Die()
				}
				return
			}
			s.Close()
			sClosed = true
			mc.Wait()
			if parked != 0 || mc.Parked() != 0 {
				n := mc.Unblock()
				x.Violate("C20", "interleaving;goroutines-left-in-locks;ops="+names, fmt.Sprintf("%d goroutine(s) left blocked in library locks; schedule: %v", n, s.Trace), rep)
				return
			}
			// C10: any previous transport request of the channel is cancelled before a new one starts - at the end at
			// most one outgoing graphsync request of the channel is live (executions that open further channels excluded)
			// (a channel cancelled by the peer is cleaned up without cancelling its request - the remote ends it - so
			// executions with a peer cancel are excluded too: the graphsync double does not play the remote's part)
			if !strings.Contains(names, "open-pull") && !strings.Contains(names, "peer-cancels") {
				live := w.GS.LiveRequests()
				if len(live) > 1 {
					x.Violate("C10", fmt.Sprintf("interleaving;live-requests=%d;ops=%s", len(live), names), fmt.Sprintf("after %s the channel has %d live graphsync requests %v (a restart must cancel the previous request before opening a new one); graphsync calls: %v; schedule: %v", names, len(live), live, gsOps(w.GS), s.Trace), rep)
				}
			}
			// end state must be presentable
			if st, err := w.Mgr.ChannelState(context.Background(), chid); err == nil {
				for _, p := range views.Check(st) {
					x.Violate("C19", p.Sig, p.Msg, rep)
				}
				ex.Outcome = datatransfer.Statuses[st.Status()]
			}
			mu.Lock()
			for _, st := range snaps {
				for _, p := range views.Check(st) {
					x.Violate("C19", p.Sig, "(subscriber snapshot) "+p.Msg, rep)
				}
			}
			mu.Unlock()
			ex.Premise = true
			// Stop is the harness's teardown; when Stop was one of the operations under test (and returned) it is not
			// called a second time.
			hang := false
			if !strings.Contains(names, "stop") {
				hang, _ = mc.Call(func() { _ = w.Mgr.Stop(context.Background()) })
			}
			w.MarkStopped()
			if !hang {
				for _, r := range w.GS.Reqs {
					w.GS.Finish(r.Num, nil)
				}
				mc.Wait()
				closed = true
				// a callback that graphsync still delivers after everything (a late block of the request) must return too:
				// a lock leaked by one of the operations would hold it for ever
				lateHang, _ := mc.Call(func() { conOps[opIdx("block-received")].do(w, chid, reqNum) })
				if lateHang {
					stacks := mc.BlockedStacks(6)
					n := mc.Unblock()
					x.Violate("C20", fmt.Sprintf("interleaving;late-callback-did-not-return;ops=%s", names), fmt.Sprintf("after %s (and Stop) a late block callback of the request never returned (%d goroutine(s) parked in library locks); schedule: %v\n%s", names, n, s.Trace, stacks), rep)
					return
				}
				if sites := mc.BlockedSites(); len(sites) > 0 {
					// a goroutine is blocked for good inside this library (e.g. a transport callback that never returns)
					stacks := mc.BlockedStacks(6)
					mc.Unblock()
					x.Violate("C20", fmt.Sprintf("interleaving;goroutine-left-blocked;blocked-in=%s;stop-involved=%v", strings.Join(sites, "+"), strings.Contains(names, "stop")), fmt.Sprintf("after all operations returned and the manager was stopped, goroutine(s) are still blocked inside the library; schedule: %v\n%s", s.Trace, stacks), rep)
					x.Die()
				}
				if left := mc.BlockedStacks(3); left != "" {
					// a goroutine of the state-machine dependency is left behind (an event was sent to a state machine
					// created after the group was stopped: go-statemachine's notifier hand-off has no receiver any
					// more). This is a leak in the dependency, not a goroutine blocked on a lock of this library; the
					// vendored go-statemachine has teardown escapes, so the bubble can still be ended.
					x.Note("dependency_goroutine_leak_after_stop", 1)
					mc.Unblock()
					mc.Wait()
					if still := mc.BlockedStacks(3); still != "" {
						x.Abandon("a goroutine stays blocked after Stop and cannot be torn down: " + still)
					}
				}
			}
			if hang {
				n := mc.Unblock()
				x.Violate("C20", "interleaving;stop-did-not-return;ops="+names, fmt.Sprintf("stopping the manager afterwards did not return (%d goroutines parked)", n), rep)
			}
		})
		if pv != nil {
			x.Violate("C20", "panic;interleaving;ops="+names, fmt.Sprintf("%v\n%s", pv, stack), mc.EnumReplay(name, c))
		}
		return ex
	}
}

func init() {
	// two restarts racing with a remote cancel, two preemptions: the schedule class in which both restarts give up on
	// a cleaned-up channel and their graphsync hooks report afterwards (found by the free-running pass first, see
	// DESIGN 9.3 F7); capped depth-first enumeration, the cap is reported
	mc.Register("C20", "interleave-2-preemptions/restart+restart+peer-cancels", "quick", func(x *mc.Cell) {
		c20InterleaveCap(x, []int{opIdx("restart"), opIdx("restart"), opIdx("peer-cancels")}, 2, 9000)
	})
	mc.Register("C20", "interleave-2-preemptions/restart+restart+peer-cancels", "thorough", func(x *mc.Cell) {
		c20InterleaveCap(x, []int{opIdx("restart"), opIdx("restart"), opIdx("peer-cancels")}, 2, 60000)
	})
	// two operations that read the channel through its state machine, racing with Stop (found by the thorough
	// triples: a query accepted by a state machine that is stopped before answering, see DESIGN 9.3 F10)
	for _, tr := range [][3]string{{"close", "close", "stop"}, {"block-received", "peer-cancels", "stop"}, {"peer-cancels", "request-completes", "stop"}} {
		tr := tr
		mc.Register("C20", fmt.Sprintf("interleave-triples-with-stop/%s+%s", tr[0], tr[1]), "quick", func(x *mc.Cell) {
			c20InterleaveCap(x, []int{opIdx(tr[0]), opIdx(tr[1]), opIdx(tr[2])}, 1, 4000)
		})
	}
	n := len(conOps)
	for a := 0; a < n; a++ {
		for b := a; b < n; b++ {
			a, b := a, b
			if conOps[a].name == "stop" && conOps[b].name == "stop" {
				continue // stopping a manager twice is outside the property (the second Stop panics in go-statemachine: close of closed channel)
			}
			pair := conOps[a].name + "+" + conOps[b].name
			mc.Register("C20", "interleave-pairs/"+pair, "quick", func(x *mc.Cell) { c20Interleave(x, []int{a, b}, 1) })
			mc.Register("C20", "interleave-pairs/"+pair, "thorough", func(x *mc.Cell) { c20Interleave(x, []int{a, b}, 2) })
			if strings.Contains(pair, "restart") && !strings.Contains(pair, "open-pull") && !strings.Contains(pair, "stop") {
				// restarts racing with each other / with other operations also decide C10's "previous request cancelled first"
				mc.Register("C10", "interleave-pairs/"+pair, "quick", func(x *mc.Cell) { c20Interleave(x, []int{a, b}, 1) })
				mc.Register("C10", "interleave-pairs/"+pair, "thorough", func(x *mc.Cell) { c20Interleave(x, []int{a, b}, 2) })
			}
			if (conOps[a].name == "restart" && conOps[b].name == "restart") || (conOps[a].name == "open-pull" && conOps[b].name == "restart") {
				// the triples that exposed the cleaned-up-channel hang in the free-running pass are part of the quick tier
				mc.Register("C20", "interleave-triples/"+pair, "quick", func(x *mc.Cell) {
					for c := b; c < n; c++ {
						if conOps[c].name == "peer-cancels" || conOps[c].name == "close" {
							c20Interleave(x, []int{a, b, c}, 1)
						}
					}
				})
			}
			mc.Register("C20", "interleave-triples/"+pair, "thorough", func(x *mc.Cell) {
				for c := b; c < n; c++ {
					if conOps[c].name == "stop" && conOps[b].name == "stop" {
						continue // at most one Stop per execution
					}
					c20Interleave(x, []int{a, b, c}, 1)
				}
			})
		}
	}
}

func gsOps(g *doubles.FakeGS) []string {
	var out []string
	for _, c := range g.CallsFrom(0) {
		if c.Op == "request" || c.Op == "cancel" {
			out = append(out, fmt.Sprintf("%s(%d)", c.Op, c.Req))
		}
	}
	return out
}
