package schedh

import (
	"context"
	"fmt"

	datatransfer "github.com/filecoin-project/go-data-transfer/v2"
	"github.com/filecoin-project/go-data-transfer/v2/message"

	"verif/doubles"
	"verif/l2node"
	"verif/mc"
	"verif/sched"
)

// c11ResumeVsLocalPause: on a responder whose initiator is paused, the initiator's resume arrives (transport
// callback, or network message for a push) while the application pauses the channel locally from another goroutine;
// interleaved at lock + datastore granularity. Oracle (C11: "when the counterparty resumes while the local side is
// still paused the transport is told to stay paused"): whenever the channel's own history has the local pause
// applied before the counterparty's resume, the handler of the resume answers with the pause signal (callback path)
// resp. pauses the transport once more (network path: two pause calls in all); and in every interleaving the
// flags end as initiator-not-paused / responder-paused and the local pause reached the transport and the peer.
func c11ResumeVsLocalPause(x *mc.Cell, pull bool, via string, bound int) {
	name := fmt.Sprintf("c11-resume-vs-local-pause/pull=%v/%s/b%d", pull, via, bound)
	role := l2node.ReceivedPush
	if pull {
		role = l2node.ReceivedPull
	}
	x.Enumerate(name, mc.EnumOpts{MaxDeviations: bound, DeviationCost: sched.Cost, MaxExecutions: 8000}, func(c *mc.Chooser) mc.Exec {
		var ex mc.Exec
		pv, stack := mc.Bubble(x.T, func() {
			n, err := l2node.NewNode(l2node.Opts{Types: []string{"T"}})
			if err != nil {
				panic(err)
			}
			defer n.Stop()
			chid := l2node.Setup(n, role, "other-paused")
			before, _ := n.Vec(chid)
			if !before.IPaused || before.RPaused {
				panic("setup: initiator not paused / responder paused")
			}
			mk := n.Mark()
			s := sched.New(dsAndLockPoints)
			defer s.Close()
			var rerr, perr error
			s.Go("peer-resumes", func() {
				rq := message.UpdateRequest(chid.ID, false)
				if via == "callback" {
					_, rerr = n.H().OnRequestReceived(chid, doubles.Recode(rq).(datatransfer.Request))
				} else {
					n.RecvRequestNoWait(doubles.PeerB, rq)
				}
			})
			s.Go("local-pause", func() { perr = n.Mgr.PauseDataTransferChannel(context.Background(), chid) })
			stuck, capped := s.Run(c, 4000, 0, 0)
			s.Close()
			mc.Wait()
			rep := mc.EnumReplay(name, c)
			if capped {
				x.Cap(name + ": step cap")
			}
			if len(stuck) > 0 {
				n2 := mc.Unblock()
				x.Violate("C20", "resume-vs-local-pause;threads-stuck", fmt.Sprintf("threads %v never finished (%d parked); schedule %v", stuck, n2, s.Trace), rep)
				return
			}
			after, err := n.Vec(chid)
			if err != nil {
				panic(err)
			}
			d := n.Since(mk)
			var pr, ri int64 = -1, -1
			for _, e := range d.Events {
				if e.Chid != chid {
					continue
				}
				switch e.Code {
				case datatransfer.PauseResponder:
					pr = e.Seq
				case datatransfer.ResumeInitiator:
					ri = e.Seq
				}
			}
			var pauses []int64
			for _, tc := range d.TCalls {
				if tc.Op == "pause" && tc.Chid == chid {
					pauses = append(pauses, tc.Seq)
				}
			}
			ex.Premise = true
			pauseFirst := pr >= 0 && ri >= 0 && pr < ri
			ex.Outcome = fmt.Sprintf("pause-first=%v resume-answer=%v transport-pauses=%d", pauseFirst, rerr, len(pauses))
			ctx := fmt.Sprintf("pull=%v via=%s: local pause returned %v, the resume handler returned %v; PauseResponder@%d ResumeInitiator@%d transport pauses@%v\n  state: %s\n  %s\n  schedule %v", pull, via, perr, rerr, pr, ri, pauses, after, d, s.Trace)
			if perr != nil || pr < 0 || ri < 0 {
				x.Violate("C11", fmt.Sprintf("resume-vs-local-pause;not-both-applied;pause-err=%v;via=%s", perr != nil, via), ctx, rep)
				return
			}
			if after.IPaused || !after.RPaused {
				x.Violate("C11", fmt.Sprintf("resume-vs-local-pause;flags;ipaused=%v;rpaused=%v;via=%s", after.IPaused, after.RPaused, via), ctx, rep)
			}
			if len(pauses) == 0 {
				x.Violate("C11", "resume-vs-local-pause;local-pause-not-applied-to-transport;via="+via, ctx, rep)
			}
			if pauseFirst {
				if via == "callback" && rerr != datatransfer.ErrPause {
					x.Violate("C11", "resume-vs-local-pause;resume-after-local-pause-not-answered-with-pause-signal", "the local pause was applied before the counterparty's resume, yet the transport was not told to stay paused: "+ctx, rep)
				}
				if via == "network" && len(pauses) < 2 {
					x.Violate("C11", "resume-after-local-pause;transport-not-told-to-stay-paused;via=network", "the local pause was applied before the counterparty's resume, yet the transport was paused only by the local pause, not again when the resume was handled: "+ctx, rep)
				}
			}
		})
		if pv != nil {
			x.Violate("C11", "panic;resume-vs-local-pause", fmt.Sprintf("%v\n%s", pv, stack), mc.EnumReplay(name, c))
		}
		return ex
	})
}

func init() {
	for _, pull := range []bool{false, true} {
		for _, via := range []string{"callback", "network"} {
			pull, via := pull, via
			if pull && via == "network" {
				continue // a pull's initiator talks to the responder through its graphsync request
			}
			nm := fmt.Sprintf("counterparty-resume-racing-with-local-pause/pull=%v/%s", pull, via)
			mc.Register("C11", nm, "quick", func(x *mc.Cell) { c11ResumeVsLocalPause(x, pull, via, 1) })
			mc.Register("C11", nm, "thorough", func(x *mc.Cell) { c11ResumeVsLocalPause(x, pull, via, 2) })
		}
	}
}
