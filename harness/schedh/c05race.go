package schedh

import (
	"context"
	"fmt"
	"strings"

	datatransfer "github.com/filecoin-project/go-data-transfer/v2"
	"github.com/filecoin-project/go-data-transfer/v2/channels"
	"github.com/filecoin-project/go-data-transfer/v2/message"

	"verif/doubles"
	"verif/l2node"
	"verif/mc"
	"verif/sched"
)

func validatorAndLockPoints(kind string, obj any) bool {
	if kind == "stmt" {
		s, _ := obj.(string)
		return strings.HasPrefix(s, "validator:")
	}
	return lockPoints(kind, obj)
}

// c05RestartVsEnding: on a responder, a restart request for a live channel (the application's validator is a
// scheduling point: the library calls it holding none of its locks) races with something that ends the channel -
// the peer's cancel message, a local close, a rejecting validation update. Oracle (C05 / C04 / C02 / C09): when the
// channel ends in a terminal status, nothing of the restart may have taken effect after that: the transport
// channel is not opened again after its close / cleanup, and the peer connection is not left protected.
func c05RestartVsEnding(x *mc.Cell, role l2node.Role, ending string, bound int) {
	name := fmt.Sprintf("c05-restart-vs-ending/%s/%s/b%d", l2node.RoleNames[role], ending, bound)
	x.Enumerate(name, mc.EnumOpts{MaxDeviations: bound, DeviationCost: sched.Cost, MaxExecutions: 6000}, func(c *mc.Chooser) mc.Exec {
		var ex mc.Exec
		pv, stack := mc.Bubble(x.T, func() {
			n, err := l2node.NewNode(l2node.Opts{Types: []string{"T"}})
			if err != nil {
				panic(err)
			}
			defer n.Stop()
			chid := l2node.Setup(n, role, "ongoing")
			ctx := context.Background()
			var terminalSeq int64 = -1
			n.Mgr.SubscribeToEvents(func(e datatransfer.Event, st datatransfer.ChannelState) {
				if st.ChannelID() == chid && channels.IsChannelTerminated(st.Status()) && terminalSeq < 0 {
					terminalSeq = doubles.NextSeq()
				}
			})
			mc.Wait()
			mk := n.Mark()
			s := sched.New(validatorAndLockPoints)
			defer s.Close()
			v := doubles.Voucher("T", "v")
			rq := l2node.NewReq(uint64(chid.ID), true, role.Pull(), &v)
			s.Go("restart-request", func() {
				if role.Pull() {
					_, _ = n.H().OnRequestReceived(chid, doubles.Recode(rq).(datatransfer.Request))
				} else {
					n.Net.Receiver.ReceiveRequest(ctx, doubles.PeerB, doubles.Recode(rq).(datatransfer.Request))
				}
			})
			s.Go("ender", func() {
				switch ending {
				case "peer-cancels":
					n.Net.Receiver.ReceiveRequest(ctx, doubles.PeerB, doubles.Recode(message.CancelRequest(chid.ID)).(datatransfer.Request))
				case "close":
					_ = n.Mgr.CloseDataTransferChannel(ctx, chid)
				case "reject-update":
					_ = n.Mgr.UpdateValidationStatus(ctx, chid, datatransfer.ValidationResult{Accepted: false})
				case "transfer-fails":
					_ = n.H().OnChannelCompleted(chid, fmt.Errorf("transfer broke"))
				}
			})
			stuck, capped := s.Run(c, 6000, 0, 0)
			s.Close()
			mc.Wait()
			rep := mc.EnumReplay(name, c)
			if capped {
				x.Cap(name + ": step cap")
			}
			if len(stuck) > 0 {
				n2 := mc.Unblock()
				x.Violate("C20", "restart-vs-ending;threads-stuck", fmt.Sprintf("threads %v never finished (%d parked); schedule %v", stuck, n2, s.Trace), rep)
				return
			}
			vec, err := n.Vec(chid)
			if err != nil {
				panic(err)
			}
			term := vec.Status == datatransfer.Cancelled || vec.Status == datatransfer.Failed || vec.Status == datatransfer.Completed
			ex.Premise = term
			ex.Outcome = datatransfer.Statuses[vec.Status]
			if !term {
				return
			}
			d := n.Since(mk)
			ctxs := fmt.Sprintf("role=%s ending=%s final=%s schedule=%v\n  %s", l2node.RoleNames[role], ending, datatransfer.Statuses[vec.Status], s.Trace, d)
			var closedSeq int64 = -1
			for _, tc := range d.TCalls {
				if tc.Chid == chid && (tc.Op == "close" || tc.Op == "cleanup") && closedSeq < 0 {
					closedSeq = tc.Seq
				}
			}
			effect := ""
			for _, tc := range d.TCalls {
				if tc.Chid == chid && tc.Op == "open" && closedSeq >= 0 && tc.Seq > closedSeq {
					effect = "transport-opened-after-close"
				}
			}
			if n.Net.ProtectedAtEnd(chid.String()) {
				if effect != "" {
					effect += "+"
				}
				effect += "connection-left-protected"
			}
			// was the restart recorded by the state machine (i.e. was the channel still non-terminal at that moment)?
			restartRecorded := false
			for _, e := range d.Events {
				if e.Chid == chid && e.Code == datatransfer.Restart {
					restartRecorded = true
				}
			}
			// was the application's restart validator consulted on a channel that was already cleaning up?
			validatedInCleanup := ""
			for _, vc := range d.VCalls["T"] {
				if vc.Kind == "restart" && vc.State != nil && channels.IsChannelCleaningUp(vc.State.Status()) {
					validatedInCleanup = datatransfer.Statuses[vc.State.Status()]
				}
			}
			if effect != "" && !restartRecorded {
				// the state machine refused to record the restart (the channel had terminated) and the restart was
				// honoured all the same
				for _, p := range []string{"C05", "C04", "C02"} {
					x.Violate(p, fmt.Sprintf("restart-vs-ending;honoured-on-terminated-channel;%s;ending=%s;role=%s", effect, ending, l2node.RoleNames[role]), "a restart request took effect on a channel that had already terminated when the restart was to be recorded: "+ctxs, rep)
				}
			}
			if validatedInCleanup != "" {
				for _, p := range []string{"C05", "C10"} {
					x.Violate(p, fmt.Sprintf("restart-vs-ending;restart-request-processed-while-cleaning-up;status=%s;effect=%s;ending=%s;role=%s", validatedInCleanup, effect, ending, l2node.RoleNames[role]), "a restart request for a channel that is cleaning up was passed to the validator (and honoured) instead of being refused: "+ctxs, rep)
				}
			}
			// (a restart recorded while the channel was still live, followed by the ending, is a plain race between two
			// legitimate operations; its leftovers - DESIGN 9.3 observation f - are outside the properties)
		})
		if pv != nil {
			x.Violate("C05", "panic;restart-vs-ending", fmt.Sprintf("%v\n%s", pv, stack), mc.EnumReplay(name, c))
		}
		return ex
	})
}

func init() {
	for _, role := range []l2node.Role{l2node.ReceivedPush, l2node.ReceivedPull} {
		for _, ending := range []string{"peer-cancels", "close", "reject-update", "transfer-fails"} {
			role, ending := role, ending
			nm := fmt.Sprintf("restart-request-vs-ending/%s/%s", l2node.RoleNames[role], ending)
			for _, p := range []string{"C05", "C04", "C02"} {
				mc.Register(p, nm, "quick", func(x *mc.Cell) { c05RestartVsEnding(x, role, ending, 1) })
				mc.Register(p, nm, "thorough", func(x *mc.Cell) { c05RestartVsEnding(x, role, ending, 2) })
			}
		}
	}
}
