package schedh

import (
	"context"
	"errors"
	"fmt"
	"sync"

	datatransfer "github.com/filecoin-project/go-data-transfer/v2"
	"github.com/filecoin-project/go-data-transfer/v2/channels"
	"github.com/filecoin-project/go-data-transfer/v2/message"

	"verif/doubles"
	"verif/l2node"
	"verif/mc"
	"verif/sched"
)

func dsAndLockPoints(kind string, obj any) bool { return lockPoints(kind, obj) || dsPoints(kind, obj) }

// c02TerminalAnnounced: a channel is ended (closed, failed, completed) while a subscriber, the moment it is
// told a terminal status, queries the channel and restarts it from inside the callback, and a second thread
// delivers a restart-existing-channel request. Scheduling points: library locks and every datastore operation,
// so the state-machine goroutine can be parked inside the write that persists the terminal status while the
// announcement is already out. Oracle (C02, C06): a query made after a terminal status was announced returns
// that status; the restart is a successful no-op; no request is re-issued and no transport channel re-opened
// for the channel after the announcement.
func c02TerminalAnnounced(x *mc.Cell, role l2node.Role, ending string, bound int) {
	name := fmt.Sprintf("c02-terminal-announced/%s/%s/b%d", l2node.RoleNames[role], ending, bound)
	x.Enumerate(name, mc.EnumOpts{MaxDeviations: bound, DeviationCost: sched.Cost, MaxExecutions: 6000}, func(c *mc.Chooser) mc.Exec {
		var ex mc.Exec
		pv, stack := mc.Bubble(x.T, func() {
			n, err := l2node.NewNode(l2node.Opts{Types: []string{"T"}})
			if err != nil {
				panic(err)
			}
			defer n.Stop()
			state := "ongoing"
			if ending == "complete" && role.Created() {
				state = "responder-completed"
			}
			chid := l2node.Setup(n, role, state)
			ctx := context.Background()
			type obs struct {
				announced datatransfer.Status
				queried   datatransfer.Status
				qerr      error
				rerr      error
			}
			var mu sync.Mutex
			var seen []obs
			var reissued []string
			n.Mgr.SubscribeToEvents(func(e datatransfer.Event, st datatransfer.ChannelState) {
				if st.ChannelID() != chid || !channels.IsChannelTerminated(st.Status()) {
					return
				}
				// everything below starts after the terminal status was announced
				o := obs{announced: st.Status()}
				q, err := n.Mgr.ChannelState(ctx, chid)
				o.qerr = err
				if err == nil {
					o.queried = q.Status()
				}
				m := n.Mark()
				o.rerr = n.Mgr.RestartDataTransferChannel(ctx, chid)
				if role.Created() {
					n.Net.Receiver.ReceiveRestartExistingChannelRequest(ctx, doubles.PeerB, doubles.Recode(message.RestartExistingChannelRequest(chid)).(datatransfer.Request))
				}
				d := n.Since(m)
				mu.Lock()
				for _, snd := range d.Sends {
					if r, ok := snd.Msg.(datatransfer.Request); ok && r.TransferID() == chid.ID && (r.IsRestart() || r.IsNew() || r.IsRestartExistingChannelRequest()) {
						reissued = append(reissued, "sent "+doubles.MsgSummary(snd.Msg))
					}
				}
				for _, tc := range d.TCalls {
					if tc.Op == "open" && tc.Chid == chid {
						reissued = append(reissued, "transport channel opened again")
					}
				}
				seen = append(seen, o)
				mu.Unlock()
			})
			mc.Wait()
			mk := n.Mark()
			s := sched.New(dsAndLockPoints)
			closed := false
			defer func() {
				if !closed {
					s.Close()
				}
			}()
			s.Go("ender", func() {
				switch ending {
				case "close":
					_ = n.Mgr.CloseDataTransferChannel(ctx, chid)
				case "fail":
					_ = n.H().OnChannelCompleted(chid, errors.New("transfer broke"))
				case "complete":
					_ = n.H().OnChannelCompleted(chid, nil)
				}
			})
			stuck, capped := s.Run(c, 6000, 0, 0)
			s.Close()
			closed = true
			mc.Wait()
			rep := mc.EnumReplay(name, c)
			if capped {
				x.Cap(name + ": step cap")
			}
			if len(stuck) > 0 {
				n2 := mc.Unblock()
				x.Violate("C20", "terminal-announced;threads-stuck", fmt.Sprintf("threads %v never finished (%d parked); schedule %v", stuck, n2, s.Trace), rep)
				x.Die()
			}
			mu.Lock()
			defer mu.Unlock()
			_ = mk
			for _, r := range reissued {
				x.Violate("C02", "terminal-announced;restart-honoured;ending="+ending, fmt.Sprintf("a restart issued after the terminal status was announced had an effect: %s; schedule %v", r, s.Trace), rep)
			}
			ex.Premise = len(seen) > 0
			ex.Outcome = fmt.Sprintf("%d", len(seen))
			for _, o := range seen {
				if o.qerr != nil || o.queried != o.announced {
					x.Violate("C02", fmt.Sprintf("terminal-announced;query-disagrees;announced=%s;queried=%s;ending=%s", datatransfer.Statuses[o.announced], datatransfer.Statuses[o.queried], ending),
						fmt.Sprintf("a subscriber was told %s and queried the channel from inside the callback: ChannelState returned %s (err %v); schedule %v", datatransfer.Statuses[o.announced], datatransfer.Statuses[o.queried], o.qerr, s.Trace), rep)
				}
				if o.rerr != nil {
					x.Violate("C02", fmt.Sprintf("terminal-announced;restart-not-a-successful-no-op;announced=%s;ending=%s", datatransfer.Statuses[o.announced], ending),
						fmt.Sprintf("RestartDataTransferChannel on a channel announced %s returned %v; schedule %v", datatransfer.Statuses[o.announced], o.rerr, s.Trace), rep)
				}
			}
		})
		if pv != nil {
			x.Violate("C02", "panic;terminal-announced", fmt.Sprintf("%v\n%s", pv, stack), mc.EnumReplay(name, c))
		}
		return ex
	})
}

func init() {
	for _, role := range []l2node.Role{l2node.CreatedPush, l2node.CreatedPull, l2node.ReceivedPull} {
		for _, ending := range []string{"close", "fail", "complete"} {
			role, ending := role, ending
			nm := fmt.Sprintf("terminal-announced-then-used/%s/%s", l2node.RoleNames[role], ending)
			mc.Register("C02", nm, "quick", func(x *mc.Cell) { c02TerminalAnnounced(x, role, ending, 1) })
			mc.Register("C02", nm, "thorough", func(x *mc.Cell) { c02TerminalAnnounced(x, role, ending, 2) })
		}
	}
}
