package schedh

import (
	"context"
	"fmt"
	"strings"

	datatransfer "github.com/filecoin-project/go-data-transfer/v2"

	"verif/l2node"
	"verif/mc"
	"verif/sched"
)

// c08UpdateVsReport: a responder channel is paused at its limit; the application raises the limit
// (UpdateValidationStatus) and the transport, the moment it is resumed, reports the next block, which takes the
// total to (or past) the NEW limit. The updating goroutine and the reporting goroutine are interleaved at lock
// granularity plus the point where the transport has been resumed. Oracle (C08): the report that reaches the new
// limit returns the pause signal and the channel ends up recorded as paused (with DataLimitExceeded announced) -
// no interleaving may leave a channel that is at its limit recorded as not paused.
func c08UpdateVsReport(x *mc.Cell, pull bool, bound int) {
	name := fmt.Sprintf("c08-update-vs-report/pull=%v/b%d", pull, bound)
	filter := func(kind string, obj any) bool {
		if kind == "stmt" {
			s, _ := obj.(string)
			return strings.HasPrefix(s, "transport:")
		}
		return lockPoints(kind, obj)
	}
	role := l2node.ReceivedPush
	if pull {
		role = l2node.ReceivedPull
	}
	x.Enumerate(name, mc.EnumOpts{MaxDeviations: bound, DeviationCost: sched.Cost, MaxExecutions: 6000}, func(c *mc.Chooser) mc.Exec {
		var ex mc.Exec
		pv, stack := mc.Bubble(x.T, func() {
			n, err := l2node.NewNode(l2node.Opts{Types: []string{"T"}})
			if err != nil {
				panic(err)
			}
			defer n.Stop()
			chid := l2node.Setup(n, role, "limit-paused") // limit 100, progress 120, paused
			before, _ := n.Vec(chid)
			if !before.RPaused {
				panic("setup: channel not paused at its limit")
			}
			resumed := make(chan struct{})
			once := false
			n.Tr.OnResume = func(c datatransfer.ChannelID) {
				if c == chid && !once {
					once = true
					close(resumed)
				}
			}
			mk := n.Mark()
			s := sched.New(filter)
			defer s.Close()
			var sig error
			s.Go("update", func() {
				_ = n.Mgr.UpdateValidationStatus(context.Background(), chid, datatransfer.ValidationResult{Accepted: true, DataLimit: 150})
			})
			s.Go("transport-reports-next-block", func() {
				<-resumed
				if pull {
					_, sig = n.H().OnDataQueued(chid, l2node.Root(), 40, 3, true)
				} else {
					sig = n.H().OnDataReceived(chid, l2node.Root(), 40, 3, true)
				}
			})
			stuck, capped := s.Run(c, 4000, 0, 0)
			s.Close()
			mc.Wait()
			rep := mc.EnumReplay(name, c)
			if capped {
				x.Cap(name + ": step cap")
			}
			if len(stuck) > 0 {
				n2 := mc.Unblock()
				x.Violate("C20", "update-vs-report;threads-stuck", fmt.Sprintf("threads %v never finished (%d parked); schedule %v", stuck, n2, s.Trace), rep)
				return
			}
			after, err := n.Vec(chid)
			if err != nil {
				panic(err)
			}
			d := n.Since(mk)
			progress := after.Received
			if pull {
				progress = after.Queued
			}
			ex.Premise = true
			ex.Outcome = fmt.Sprintf("paused=%v sig=%v", after.RPaused, sig)
			ctx := fmt.Sprintf("pull=%v limit=%d progress=%d paused=%v report-signal=%v schedule=%v\n  %s", pull, after.Limit, progress, after.RPaused, sig, s.Trace, d)
			if after.Limit != 150 || progress != 160 {
				x.Violate("C08", "update-vs-report;limit-or-progress", ctx, rep)
			}
			if sig != datatransfer.ErrPause {
				x.Violate("C08", "update-vs-report;crossing-report-without-pause-signal", ctx, rep)
			}
			if !after.RPaused {
				x.Violate("C08", "update-vs-report;at-limit-but-recorded-not-paused", "the channel is at its (new) limit and the transport was told to pause, but the channel is recorded as not paused: the next sufficient update will not resume it: "+ctx, rep)
			}
		})
		if pv != nil {
			x.Violate("C08", "panic;update-vs-report", fmt.Sprintf("%v\n%s", pv, stack), mc.EnumReplay(name, c))
		}
		return ex
	})
}

func init() {
	for _, pull := range []bool{false, true} {
		pull := pull
		mc.Register("C08", fmt.Sprintf("update-racing-with-the-resumed-transport/pull=%v", pull), "quick", func(x *mc.Cell) { c08UpdateVsReport(x, pull, 1) })
		mc.Register("C08", fmt.Sprintf("update-racing-with-the-resumed-transport/pull=%v", pull), "thorough", func(x *mc.Cell) { c08UpdateVsReport(x, pull, 3) })
	}
}
