package schedh

import (
	"context"
	"fmt"
	"strings"

	datatransfer "github.com/filecoin-project/go-data-transfer/v2"

	"verif/doubles"
	"verif/l2node"
	"verif/mc"
	"verif/sched"
)

// dsPoints schedules at datastore granularity: every Get/Has/Put/Delete of the recording datastore is a
// scheduling point, for every goroutine (API callers and the state-machine goroutines alike).
func dsPoints(kind string, obj any) bool {
	if kind != "stmt" {
		return false
	}
	s, _ := obj.(string)
	return strings.HasPrefix(s, "ds:")
}

// c18ConcurrentDuplicates: the same new request (same initiator, same transfer ID) is delivered twice at the
// same time - a resend racing with the original - over the network path (push) or over network + transport
// (pull). Whatever the interleaving at datastore + lock granularity: at most one delivery is accepted, and the channel
// ends exactly as after a single delivery (accessor vector), i.e. the refused duplicate left it as it was.
func c18ConcurrentDuplicates(x *mc.Cell, pull bool, bound int, maxExec int64) {
	name := fmt.Sprintf("c18-concurrent-duplicates/pull=%v/b%d", pull, bound)
	chid := datatransfer.ChannelID{Initiator: doubles.PeerB, Responder: doubles.PeerA, ID: 7}
	// reference: one delivery, no scheduler
	var ref string
	mc.Bubble(x.T, func() {
		n, err := l2node.NewNode(l2node.Opts{Types: []string{"T"}})
		if err != nil {
			panic(err)
		}
		defer n.Stop()
		v := doubles.Voucher("T", "v")
		n.Val["T"].Answer = func(int, doubles.VCall) (datatransfer.ValidationResult, error) {
			return datatransfer.ValidationResult{Accepted: true, DataLimit: 1000}, nil
		}
		n.RecvRequest(doubles.PeerB, l2node.NewReq(7, false, pull, &v))
		vec, err := n.Vec(chid)
		if err != nil {
			panic(err)
		}
		ref = vec.String()
	})
	x.Enumerate(name, mc.EnumOpts{MaxDeviations: bound, DeviationCost: sched.Cost, MaxExecutions: maxExec}, func(c *mc.Chooser) mc.Exec {
		var ex mc.Exec
		pv, stack := mc.Bubble(x.T, func() {
			n, err := l2node.NewNode(l2node.Opts{Types: []string{"T"}})
			if err != nil {
				panic(err)
			}
			defer n.Stop()
			v := doubles.Voucher("T", "v")
			rq := l2node.NewReq(7, false, pull, &v)
			n.Val["T"].Answer = func(int, doubles.VCall) (datatransfer.ValidationResult, error) {
				return datatransfer.ValidationResult{Accepted: true, DataLimit: 1000}, nil
			}
			mk := n.Mark()
			s := sched.New(dsAndLockPoints) // datastore operations and library locks
			defer s.Close()                 // also on a diverged replay: parked library goroutines must be released before the world is torn down
			var retErr [2]error
			var returned [2]datatransfer.Response
			for t := 0; t < 2; t++ {
				t := t
				s.Go(fmt.Sprintf("delivery%d", t), func() {
					if pull && t == 1 {
						returned[t], retErr[t] = n.H().OnRequestReceived(chid, doubles.Recode(rq).(datatransfer.Request))
						return
					}
					n.Net.Receiver.ReceiveRequest(context.Background(), doubles.PeerB, doubles.Recode(rq).(datatransfer.Request))
				})
			}
			stuck, capped := s.Run(c, 4000, 0, 0)
			s.Close()
			mc.Wait()
			rep := mc.EnumReplay(name, c)
			if capped {
				x.Cap(name + ": step cap")
			}
			if len(stuck) > 0 {
				x.Violate("C20", "concurrent-duplicates;threads-stuck", fmt.Sprintf("%v never returned; schedule %v", stuck, s.Trace), rep)
				return
			}
			d := n.Since(mk)
			accepted := 0
			for _, snd := range d.Sends {
				if r, ok := snd.Msg.(datatransfer.Response); ok && r.IsNew() && r.Accepted() {
					accepted++
				}
			}
			for _, tc := range d.TCalls {
				if tc.Op == "open" {
					if r, ok := tc.Msg.(datatransfer.Response); ok && r.IsNew() && r.Accepted() {
						accepted++
					}
				}
			}
			for t := 0; t < 2; t++ {
				if returned[t] != nil && returned[t].Accepted() {
					accepted++
				}
			}
			ex.Premise = true
			ex.Outcome = fmt.Sprintf("accepted=%d", accepted)
			ctx := fmt.Sprintf("pull=%v schedule=%v\n  %s", pull, s.Trace, d)
			if accepted > 1 {
				x.Violate("C18", fmt.Sprintf("concurrent-duplicates;accepted=%d;pull=%v", accepted, pull), "the same new request delivered twice concurrently was accepted more than once: "+ctx, rep)
			}
			vec, err := n.Vec(chid)
			if err != nil {
				if accepted > 0 {
					x.Violate("C18", fmt.Sprintf("concurrent-duplicates;accepted-but-no-channel;pull=%v", pull), ctx, rep)
				}
				return
			}
			if accepted == 1 && vec.String() != ref {
				x.Violate("C18", fmt.Sprintf("concurrent-duplicates;channel-differs-from-single-delivery;pull=%v", pull), fmt.Sprintf("single delivery: %s\nconcurrent:      %s\n%s", ref, vec, ctx), rep)
			}
			if accepted == 1 {
				// "exactly as it was" includes what the channel goes on to do: its accounting and its data limit work
				// as after a single delivery (the refused duplicate must not have reset anything the survivor relies on)
				n.H().OnTransferInitiated(chid)
				mc.Wait()
				report := func(idx int64, size uint64) error {
					if pull {
						_, e := n.H().OnDataQueued(chid, l2node.Root(), size, idx, true)
						return e
					}
					return n.H().OnDataReceived(chid, l2node.Root(), size, idx, true)
				}
				e1 := report(1, 400)
				mc.Wait()
				e1b := report(1, 400) // replay
				mc.Wait()
				e2 := report(2, 700) // 1100 >= limit 1000
				mc.Wait()
				after, _ := n.Vec(chid)
				total := after.Received
				if pull {
					total = after.Queued
				}
				if e1 != nil || e1b != nil || total != 1100 || e2 != datatransfer.ErrPause || !after.RPaused || after.Limit != 1000 {
					x.Violate("C18", fmt.Sprintf("concurrent-duplicates;survivor-misbehaves-afterwards;pull=%v", pull),
						fmt.Sprintf("after the refused duplicate the channel does not behave as after a single delivery: reports returned %v / %v / %v (want nil, nil, pause signal), total %d (want 1100), limit %d, responder paused %v; %s", e1, e1b, e2, total, after.Limit, after.RPaused, ctx), rep)
				}
			}
		})
		if pv != nil {
			x.Violate("C18", "panic;concurrent-duplicates", fmt.Sprintf("%v\n%s", pv, stack), mc.EnumReplay(name, c))
		}
		return ex
	})
}

func init() {
	for _, pull := range []bool{false, true} {
		pull := pull
		mc.Register("C18", fmt.Sprintf("concurrent-duplicate-requests/pull=%v", pull), "quick", func(x *mc.Cell) { c18ConcurrentDuplicates(x, pull, 1, 3000) })
		mc.Register("C18", fmt.Sprintf("concurrent-duplicate-requests/pull=%v", pull), "thorough", func(x *mc.Cell) { c18ConcurrentDuplicates(x, pull, 2, 40000) })
	}
}
