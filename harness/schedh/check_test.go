package schedh

import (
	"testing"

	"verif/mc"
)

func TestCheck(t *testing.T) { mc.Main(t, "schedh") }
