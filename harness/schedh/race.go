package schedh

import (
	"context"
	"fmt"
	"sync"

	datatransfer "github.com/filecoin-project/go-data-transfer/v2"

	"verif/doubles"
	"verif/l1chan"
	"verif/l2node"
	"verif/l2transport"
	"verif/mc"
)

// The race pass: the same bodies as the scheduler cells, but free-running (real goroutines, GOMAXPROCS=16,
// built with -race, no cooperative scheduler). It is NOT exhaustive: it is the standard complement that checks
// the data-race-freedom assumption the schedule exploration rests on. A report of the race detector makes the
// worker exit with code 66, which bin/check turns into a violation.

func raceRounds(x *mc.Cell) int {
	if x.Thorough() {
		return 40
	}
	return 8
}

func raceManagerOps(x *mc.Cell) {
	n := len(conOps)
	for round := 0; round < raceRounds(x); round++ {
		for a := 0; a < n; a++ {
			for b := a; b < n; b++ {
				if conOps[a].name == "stop" || conOps[b].name == "stop" {
					continue // operations racing with Stop may never return (known finding); they are not part of the race pass
				}
				x.Executions++
				mc.Bubble(x.T, func() {
					w := l2transport.NewRealWorld()
					defer w.Close()
					chid, err := w.Mgr.OpenPullDataChannel(context.Background(), doubles.PeerB, doubles.Voucher("T", "v"), doubles.Cid("root"), doubles.AllSelector())
					if err != nil {
						panic(err)
					}
					mc.Wait()
					reqNum := w.GS.Reqs[len(w.GS.Reqs)-1].Num
					w.Mgr.SubscribeToEvents(func(e datatransfer.Event, st datatransfer.ChannelState) { _ = st.Status() })
					var wg sync.WaitGroup
					for _, o := range []int{a, b, (a + b + round) % (n - 1)} {
						o := o
						wg.Add(1)
						go func() {
							defer wg.Done()
							defer func() { _ = recover() }()
							conOps[o].do(w, chid, reqNum)
						}()
					}
					wg.Wait()
					mc.Wait()
					x.Premise++
					x.Outcome(fmt.Sprintf("%d-%d", a, b))
				})
			}
		}
	}
}

func raceCaches(x *mc.Cell) {
	for round := 0; round < raceRounds(x)*20; round++ {
		x.Executions++
		mc.Bubble(x.T, func() {
			sys, err := l1chan.NewSys(nil)
			if err != nil {
				panic(err)
			}
			defer sys.Stop()
			chid, _ := sys.Create(l1chan.InitPull, 1, doubles.Voucher("T", "v"))
			_ = sys.Ch.Accept(chid)
			_ = sys.Ch.TransferInitiated(chid)
			var wg sync.WaitGroup
			for t := 0; t < 4; t++ {
				t := t
				wg.Add(1)
				go func() {
					defer wg.Done()
					for i := 1; i <= 3; i++ {
						_ = sys.Ch.DataReceived(chid, doubles.Cid("b"), 5, int64((i+t)%3+1), true)
						_ = sys.Ch.DataQueued(chid, doubles.Cid("b"), 5, int64(i), true)
						if i == 2 && t == 0 {
							_ = sys.Ch.SetDataLimit(chid, 100)
						}
					}
				}()
			}
			wg.Wait()
			mc.Wait()
			x.Premise++
			x.Outcome(fmt.Sprint(round % 7))
		})
	}
}

func raceOpens(x *mc.Cell) {
	for round := 0; round < raceRounds(x); round++ {
		x.Executions++
		mc.Bubble(x.T, func() {
			n, err := l2node.NewNode(l2node.Opts{Types: []string{"T"}})
			if err != nil {
				panic(err)
			}
			defer n.Stop()
			var wg sync.WaitGroup
			for t := 0; t < 8; t++ {
				t := t
				wg.Add(1)
				go func() {
					defer wg.Done()
					for k := 0; k < 12; k++ {
						// per-transfer subscribers, transport options and global (un)subscription are part of the opens' shared state
						sub := datatransfer.WithSubscriber(func(e datatransfer.Event, st datatransfer.ChannelState) { _ = st.Status() })
						var chid datatransfer.ChannelID
						if (t+k)%2 == 0 {
							chid, _ = n.Mgr.OpenPushDataChannel(context.Background(), doubles.PeerB, doubles.Voucher("T", "v"), doubles.Cid("root"), doubles.AllSelector(), sub)
						} else {
							chid, _ = n.Mgr.OpenPullDataChannel(context.Background(), doubles.PeerB, doubles.Voucher("T", "v"), doubles.Cid("root"), doubles.AllSelector(), sub)
						}
						if k%3 == 0 {
							u := n.Mgr.SubscribeToEvents(func(datatransfer.Event, datatransfer.ChannelState) {})
							_ = n.H().OnTransferInitiated
							n.H().OnTransferInitiated(chid)
							u()
						}
						if k%4 == 1 {
							_ = n.Mgr.CloseDataTransferChannel(context.Background(), chid)
						}
					}
				}()
			}
			wg.Wait()
			mc.Wait()
			x.Premise++
			x.Outcome(fmt.Sprint(round % 5))
		})
	}
}

func init() {
	mc.Register("C20", "race-pass/manager+transport-operations", "race", raceManagerOps)
	mc.Register("C20", "race-pass/progress-caches", "race", raceCaches)
	mc.Register("C07", "race-pass/progress-caches", "race", raceCaches)
	mc.Register("C18", "race-pass/concurrent-opens", "race", raceOpens)
	mc.Register("C20", "race-pass/concurrent-opens", "race", raceOpens)
}
