package schedh

import (
	"context"
	"fmt"
	"sync"

	datatransfer "github.com/filecoin-project/go-data-transfer/v2"

	"verif/doubles"
	"verif/l2node"
	"verif/mc"
	"verif/sched"
)

// c17Unsubscribe: one thread fires a burst of events, another unsubscribes a subscriber and then issues one
// more operation; lock-level interleavings (publisher's RWMutex, FSM notifier goroutine) are explored.
func c17Unsubscribe(x *mc.Cell, bound int) {
	name := "c17-unsubscribe-race"
	x.Enumerate(name, mc.EnumOpts{MaxDeviations: bound, DeviationCost: sched.Cost, MaxExecutions: 8000}, func(c *mc.Chooser) mc.Exec {
		var ex mc.Exec
		pv, stack := mc.Bubble(x.T, func() {
			n, err := l2node.NewNode(l2node.Opts{Types: []string{"T"}})
			if err != nil {
				panic(err)
			}
			defer n.Stop()
			chid := l2node.Setup(n, l2node.CreatedPush, "ongoing")
			var mu sync.Mutex
			var g1, g2 []datatransfer.EventCode
			n.Mgr.SubscribeToEvents(func(e datatransfer.Event, st datatransfer.ChannelState) {
				mu.Lock()
				g1 = append(g1, e.Code)
				mu.Unlock()
			})
			unsub := n.Mgr.SubscribeToEvents(func(e datatransfer.Event, st datatransfer.ChannelState) {
				mu.Lock()
				g2 = append(g2, e.Code)
				mu.Unlock()
			})
			mc.Wait()
			s := sched.New(lockPoints)
			closed := false
			defer func() {
				if !closed {
					s.Close()
				}
			}()
			h := n.H()
			s.Go("burst", func() {
				_ = h.OnDataSent(chid, l2node.Root(), 5, 1, true)
				_ = n.Mgr.PauseDataTransferChannel(context.Background(), chid)
			})
			s.Go("unsubscriber", func() {
				unsub()
				// an operation issued after unsubscribe returned: its event must never reach the removed subscriber
				_ = h.OnReceiveDataError(chid, fmt.Errorf("after-unsubscribe"))
			})
			stuck, capped := s.Run(c, 4000, 0, 0)
			s.Close()
			closed = true
			mc.Wait()
			rep := mc.EnumReplay(name, c)
			if capped {
				x.Cap(name + ": step cap")
			}
			if len(stuck) > 0 {
				n2 := mc.Unblock()
				x.Violate("C20", "unsubscribe-race;threads-stuck", fmt.Sprintf("threads %v never finished (%d parked); schedule %v", stuck, n2, s.Trace), rep)
				x.Die()
			}
			mu.Lock()
			defer mu.Unlock()
			ctx := fmt.Sprintf("permanent subscriber saw %v, removed subscriber saw %v; schedule %v", names(g1), names(g2), s.Trace)
			ex.Premise = true
			ex.Outcome = fmt.Sprintf("%d/%d", len(g1), len(g2))
			for _, cde := range g2 {
				if cde == datatransfer.ReceiveDataError {
					x.Violate("C17", "removed-subscriber-called-after-unsubscribe-returned", ctx, rep)
				}
			}
			// the removed subscriber's stream is a prefix-subsequence of the permanent one's: same order, no extras
			j := 0
			for _, cde := range g2 {
				for j < len(g1) && g1[j] != cde {
					j++
				}
				if j == len(g1) {
					x.Violate("C17", "removed-subscriber-saw-event-the-permanent-one-did-not", ctx, rep)
					break
				}
				j++
			}
			want := []datatransfer.EventCode{datatransfer.DataSentProgress, datatransfer.DataSent, datatransfer.PauseInitiator, datatransfer.ReceiveDataError}
			cnt := map[datatransfer.EventCode]int{}
			for _, cde := range g1 {
				cnt[cde]++
			}
			for _, w := range want {
				if cnt[w] != 1 {
					x.Violate("C17", fmt.Sprintf("permanent-subscriber-count;event=%s;count=%d", datatransfer.Events[w], cnt[w]), ctx, rep)
				}
			}
		})
		if pv != nil {
			x.Violate("C17", "panic;unsubscribe-race", fmt.Sprintf("%v\n%s", pv, stack), mc.EnumReplay(name, c))
		}
		return ex
	})
}

func names(cs []datatransfer.EventCode) []string {
	out := make([]string, len(cs))
	for i, c := range cs {
		out[i] = datatransfer.Events[c]
	}
	return out
}

func init() {
	mc.Register("C17", "unsubscribe-racing-with-a-burst", "quick", func(x *mc.Cell) { c17Unsubscribe(x, 1) })
	mc.Register("C17", "unsubscribe-racing-with-a-burst", "thorough", func(x *mc.Cell) { c17Unsubscribe(x, 2) })
}

// c17OpenWithSubscriber: a channel is opened with a per-transfer subscriber (optionally with a transport
// configurer that does work on the caller's goroutine, and followed by a voucher); the caller and the
// state-machine / notification goroutines are interleaved at lock granularity. Whatever the interleaving, the
// per-transfer subscriber is told exactly the events of its channel that the global subscribers are told,
// starting with Open.
func c17OpenWithSubscriber(x *mc.Cell, pull, configurer bool, bound int) {
	name := fmt.Sprintf("c17-open-with-subscriber/pull=%v/configurer=%v/b%d", pull, configurer, bound)
	x.Enumerate(name, mc.EnumOpts{MaxDeviations: bound, DeviationCost: sched.Cost, MaxExecutions: 8000}, func(c *mc.Chooser) mc.Exec {
		var ex mc.Exec
		pv, stack := mc.Bubble(x.T, func() {
			n, err := l2node.NewNode(l2node.Opts{Types: []string{"T"}})
			if err != nil {
				panic(err)
			}
			defer n.Stop()
			type rec struct {
				code datatransfer.EventCode
				chid datatransfer.ChannelID
			}
			var mu sync.Mutex
			var global, per []rec
			n.Mgr.SubscribeToEvents(func(e datatransfer.Event, st datatransfer.ChannelState) {
				mu.Lock()
				global = append(global, rec{e.Code, st.ChannelID()})
				mu.Unlock()
			})
			if configurer {
				_ = n.Mgr.RegisterTransportConfigurer("T", func(chid datatransfer.ChannelID, v datatransfer.TypedVoucher) []datatransfer.TransportOption {
					// work on the caller's goroutine between Open and the rest of the setup: a few lock operations
					_, _ = n.Mgr.InProgressChannels(context.Background())
					return nil
				})
			}
			mc.Wait()
			s := sched.New(lockPoints)
			closed := false
			defer func() {
				if !closed {
					s.Close()
				}
			}()
			var chid datatransfer.ChannelID
			sub := datatransfer.WithSubscriber(func(e datatransfer.Event, st datatransfer.ChannelState) {
				mu.Lock()
				per = append(per, rec{e.Code, st.ChannelID()})
				mu.Unlock()
			})
			s.Go("opener", func() {
				var err error
				if pull {
					chid, err = n.Mgr.OpenPullDataChannel(context.Background(), doubles.PeerB, doubles.Voucher("T", "v"), doubles.Cid("root"), doubles.AllSelector(), sub)
				} else {
					chid, err = n.Mgr.OpenPushDataChannel(context.Background(), doubles.PeerB, doubles.Voucher("T", "v"), doubles.Cid("root"), doubles.AllSelector(), sub)
				}
				if err != nil {
					panic(err)
				}
				_ = n.Mgr.SendVoucher(context.Background(), chid, doubles.Voucher("T", "v2"))
			})
			stuck, capped := s.Run(c, 4000, 0, 0)
			s.Close()
			closed = true
			mc.Wait()
			rep := mc.EnumReplay(name, c)
			if capped {
				x.Cap(name + ": step cap")
			}
			if len(stuck) > 0 {
				n2 := mc.Unblock()
				x.Violate("C20", "open-with-subscriber;threads-stuck", fmt.Sprintf("threads %v never finished (%d parked); schedule %v", stuck, n2, s.Trace), rep)
				x.Die()
			}
			mu.Lock()
			defer mu.Unlock()
			var own []datatransfer.EventCode
			for _, r := range global {
				if r.chid == chid {
					own = append(own, r.code)
				}
			}
			var got []datatransfer.EventCode
			for _, r := range per {
				got = append(got, r.code)
				if r.chid != chid {
					x.Violate("C17", "open-with-subscriber;foreign-event", fmt.Sprintf("per-transfer subscriber saw an event of %s", r.chid), rep)
				}
			}
			ex.Premise = true
			ex.Outcome = fmt.Sprint(names(own))
			if fmt.Sprint(own) != fmt.Sprint(got) {
				x.Violate("C17", fmt.Sprintf("open-with-subscriber;per-transfer-subscriber-differs;pull=%v;first-missing=%s", pull, firstMissing(own, got)),
					fmt.Sprintf("channel events (global subscriber): %v\nper-transfer subscriber:           %v\nschedule %v", names(own), names(got), s.Trace), rep)
			}
		})
		if pv != nil {
			x.Violate("C17", "panic;open-with-subscriber", fmt.Sprintf("%v\n%s", pv, stack), mc.EnumReplay(name, c))
		}
		return ex
	})
}

func firstMissing(want, got []datatransfer.EventCode) string {
	for i, w := range want {
		if i >= len(got) || got[i] != w {
			return datatransfer.Events[w]
		}
	}
	return "none"
}

func init() {
	for _, pull := range []bool{false, true} {
		for _, cfg := range []bool{false, true} {
			pull, cfg := pull, cfg
			nm := fmt.Sprintf("open-with-subscriber/pull=%v/configurer=%v", pull, cfg)
			mc.Register("C17", nm, "quick", func(x *mc.Cell) { c17OpenWithSubscriber(x, pull, cfg, 1) })
			mc.Register("C17", nm, "thorough", func(x *mc.Cell) { c17OpenWithSubscriber(x, pull, cfg, 3) })
		}
	}
}
