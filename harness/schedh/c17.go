package schedh

import (
	"context"
	"fmt"
	"sync"

	datatransfer "github.com/filecoin-project/go-data-transfer/v2"

	"verif/l2node"
	"verif/mc"
	"verif/sched"
)

// c17Unsubscribe: one thread fires a burst of events, another unsubscribes a subscriber and then issues one
// more operation; lock-level interleavings (publisher's RWMutex, FSM notifier goroutine) are explored.
func c17Unsubscribe(x *mc.Cell, bound int) {
	name := "c17-unsubscribe-race"
	x.Enumerate(name, mc.EnumOpts{MaxDeviations: bound, DeviationCost: sched.Cost, MaxExecutions: 8000}, func(c *mc.Chooser) mc.Exec {
		var ex mc.Exec
		pv, stack := mc.Bubble(x.T, func() {
			n, err := l2node.NewNode(l2node.Opts{Types: []string{"T"}})
			if err != nil {
				panic(err)
			}
			defer n.Stop()
			chid := l2node.Setup(n, l2node.CreatedPush, "ongoing")
			var mu sync.Mutex
			var g1, g2 []datatransfer.EventCode
			n.Mgr.SubscribeToEvents(func(e datatransfer.Event, st datatransfer.ChannelState) {
				mu.Lock()
				g1 = append(g1, e.Code)
				mu.Unlock()
			})
			unsub := n.Mgr.SubscribeToEvents(func(e datatransfer.Event, st datatransfer.ChannelState) {
				mu.Lock()
				g2 = append(g2, e.Code)
				mu.Unlock()
			})
			mc.Wait()
			s := sched.New(lockPoints)
			closed := false
			defer func() {
				if !closed {
					s.Close()
				}
			}()
			h := n.H()
			s.Go("burst", func() {
				_ = h.OnDataSent(chid, l2node.Root(), 5, 1, true)
				_ = n.Mgr.PauseDataTransferChannel(context.Background(), chid)
			})
			s.Go("unsubscriber", func() {
				unsub()
				// an operation issued after unsubscribe returned: its event must never reach the removed subscriber
				_ = h.OnReceiveDataError(chid, fmt.Errorf("after-unsubscribe"))
			})
			stuck, capped := s.Run(c, 4000, 0, 0)
			s.Close()
			closed = true
			mc.Wait()
			rep := mc.EnumReplay(name, c)
			if capped {
				x.Cap(name + ": step cap")
			}
			if len(stuck) > 0 {
				n2 := mc.Unblock()
				x.Violate("C20", "unsubscribe-race;threads-stuck", fmt.Sprintf("threads %v never finished (%d parked); schedule %v", stuck, n2, s.Trace), rep)
				x.Die()
			}
			mu.Lock()
			defer mu.Unlock()
			ctx := fmt.Sprintf("permanent subscriber saw %v, removed subscriber saw %v; schedule %v", names(g1), names(g2), s.Trace)
			ex.Premise = true
			ex.Outcome = fmt.Sprintf("%d/%d", len(g1), len(g2))
			for _, cde := range g2 {
				if cde == datatransfer.ReceiveDataError {
					x.Violate("C17", "removed-subscriber-called-after-unsubscribe-returned", ctx, rep)
				}
			}
			// the removed subscriber's stream is a prefix-subsequence of the permanent one's: same order, no extras
			j := 0
			for _, cde := range g2 {
				for j < len(g1) && g1[j] != cde {
					j++
				}
				if j == len(g1) {
					x.Violate("C17", "removed-subscriber-saw-event-the-permanent-one-did-not", ctx, rep)
					break
				}
				j++
			}
			want := []datatransfer.EventCode{datatransfer.DataSentProgress, datatransfer.DataSent, datatransfer.PauseInitiator, datatransfer.ReceiveDataError}
			cnt := map[datatransfer.EventCode]int{}
			for _, cde := range g1 {
				cnt[cde]++
			}
			for _, w := range want {
				if cnt[w] != 1 {
					x.Violate("C17", fmt.Sprintf("permanent-subscriber-count;event=%s;count=%d", datatransfer.Events[w], cnt[w]), ctx, rep)
				}
			}
		})
		if pv != nil {
			x.Violate("C17", "panic;unsubscribe-race", fmt.Sprintf("%v\n%s", pv, stack), mc.EnumReplay(name, c))
		}
		return ex
	})
}

func names(cs []datatransfer.EventCode) []string {
	out := make([]string, len(cs))
	for i, c := range cs {
		out[i] = datatransfer.Events[c]
	}
	return out
}

func init() {
	mc.Register("C17", "unsubscribe-racing-with-a-burst", "quick", func(x *mc.Cell) { c17Unsubscribe(x, 1) })
	mc.Register("C17", "unsubscribe-racing-with-a-burst", "thorough", func(x *mc.Cell) { c17Unsubscribe(x, 2) })
}
