package schedh

import (
	"fmt"
	"strings"
	"time"

	datatransfer "github.com/filecoin-project/go-data-transfer/v2"
	"github.com/filecoin-project/go-data-transfer/v2/channelmonitor"

	"verif/doubles"
	"verif/l2monitor"
	"verif/mc"
	"verif/sched"
)

var monChid = datatransfer.ChannelID{Initiator: doubles.PeerA, Responder: doubles.PeerB, ID: 1}

// c14Threads explores goroutine-level interleavings inside the monitor: concurrent deliveries of events
// (each from its own thread) while the goroutines the monitor spawns (debounce callback, restart loop,
// shutdown, timers) are scheduled at statement / lock granularity.
func c14Threads(x *mc.Cell, scenario string, max uint32, bound int) {
	name := fmt.Sprintf("c14-threads/%s/max=%d", scenario, max)
	filter := func(kind string, obj any) bool {
		if kind == "stmt" {
			s, _ := obj.(string)
			return strings.HasPrefix(s, "channelmonitor/") || strings.HasPrefix(s, "monapi:")
		}
		return kind == "lock" || kind == "rlock"
	}
	x.Enumerate(name, mc.EnumOpts{MaxDeviations: bound, DeviationCost: sched.Cost, MaxExecutions: 6000}, func(c *mc.Chooser) mc.Exec {
		var ex mc.Exec
		pv, stack := mc.Bubble(x.T, func() {
			api := l2monitor.NewMonAPI()
			api.Yield = true
			mon := channelmonitor.NewMonitor(api, &channelmonitor.Config{MaxConsecutiveRestarts: max})
			if !strings.HasPrefix(scenario, "add+") {
				if mon.AddPushChannel(monChid) == nil {
					panic("add refused")
				}
			}
			mc.Wait()
			s := sched.New(filter)
			closed := false
			defer func() {
				if !closed {
					s.Close()
				}
			}()
			deliver := func(code datatransfer.EventCode, st datatransfer.Status) func() {
				return func() { api.Deliver(code, monChid, st) }
			}
			var evs []func()
			switch scenario {
			case "two-errors":
				evs = []func(){deliver(datatransfer.SendDataError, datatransfer.Ongoing), deliver(datatransfer.ReceiveDataError, datatransfer.Ongoing)}
			case "three-errors":
				evs = []func(){deliver(datatransfer.SendDataError, datatransfer.Ongoing), deliver(datatransfer.ReceiveDataError, datatransfer.Ongoing), deliver(datatransfer.SendDataError, datatransfer.Ongoing)}
			case "error+terminal":
				evs = []func(){deliver(datatransfer.SendDataError, datatransfer.Ongoing), deliver(datatransfer.CleanupComplete, datatransfer.Completed)}
			case "error+data":
				evs = []func(){deliver(datatransfer.SendDataError, datatransfer.Ongoing), deliver(datatransfer.DataSent, datatransfer.Ongoing), deliver(datatransfer.ReceiveDataError, datatransfer.Ongoing)}
			case "add+terminal":
				// the channel is being added to the monitor while an event that ends it is published
				evs = []func(){func() { mon.AddPushChannel(monChid) }, deliver(datatransfer.CleanupComplete, datatransfer.Cancelled)}
			case "add+error+terminal":
				evs = []func(){func() { mon.AddPullChannel(monChid) }, deliver(datatransfer.ReceiveDataError, datatransfer.Ongoing), deliver(datatransfer.CleanupComplete, datatransfer.Failed)}
			}
			for i, f := range evs {
				s.Go(fmt.Sprintf("deliver%d", i), f)
			}
			stuck, capped := s.Run(c, 4000, time.Millisecond, 50)
			s.Close()
			closed = true
			time.Sleep(time.Second)
			mc.Wait()
			rep := mc.EnumReplay(name, c)
			if capped {
				x.Cap(name + ": step cap")
			}
			calls := api.Snapshot()
			log := api.Log()
			nErr := 0
			for _, sc := range []string{"two-errors", "three-errors", "error+terminal", "error+data"} {
				if sc == scenario {
					nErr = map[string]int{"two-errors": 2, "three-errors": 3, "error+terminal": 1, "error+data": 2}[sc]
				}
			}
			connects, restarts, closes := 0, 0, 0
			for _, cl := range calls {
				switch cl.Kind {
				case "connect":
					connects++
				case "restart":
					restarts++
				case "close":
					closes++
				}
				if cl.Overlap {
					x.Violate("C14", "threads;overlapping-restart-attempts;"+scenario, fmt.Sprintf("two restart attempts were in flight at once: %s; schedule %v", log, s.Trace), rep)
				}
				if !cl.Ended {
					x.Violate("C14", "threads;call-never-returned;"+scenario, log, rep)
				}
			}
			ctx := fmt.Sprintf("scenario=%s max=%d api log: %s; schedule %v", scenario, max, log, s.Trace)
			if len(stuck) > 0 {
				x.Violate("C20", "monitor;threads-stuck;"+scenario, ctx, rep)
			}
			if closes > 1 {
				x.Violate("C14", "threads;closed-more-than-once;"+scenario, ctx, rep)
			}
			ex.Premise = true
			ex.Outcome = fmt.Sprintf("c%d r%d x%d", connects, restarts, closes)
			switch scenario {
			case "two-errors", "three-errors", "error+data":
				// k >= 1 triggers: at least one attempt, at most one per trigger; beyond the limit exactly one close
				if connects < 1 {
					x.Violate("C14", "threads;no-restart-after-error;"+scenario, ctx, rep)
				}
				if connects > nErr {
					x.Violate("C14", fmt.Sprintf("threads;more-attempts-than-triggers;connects=%d;%s", connects, scenario), ctx, rep)
				}
				limit := int(max)
				if scenario == "error+data" {
					limit = int(max) * 2
				}
				if connects > limit {
					x.Violate("C14", fmt.Sprintf("threads;consecutive-limit-exceeded;connects=%d;max=%d;%s", connects, max, scenario), ctx, rep)
				}
				if closes == 1 && connects < int(max) {
					x.Violate("C14", "threads;closed-below-the-limit;"+scenario, ctx, rep)
				}
				if closes == 0 && restarts != connects {
					x.Violate("C14", "threads;reconnect-without-restart;"+scenario, ctx, rep)
				}
			case "error+terminal":
				if connects > 1 {
					x.Violate("C14", "threads;more-attempts-than-triggers;"+scenario, ctx, rep)
				}
				if api.Subscribed() != 0 {
					x.Violate("C14", "threads;still-subscribed-after-terminal", ctx, rep)
				}
			}
			mon.Shutdown()
		})
		if pv != nil {
			x.Violate("C14", "panic;threads;"+scenario, fmt.Sprintf("%v\n%s", pv, stack), mc.EnumReplay(name, c))
			x.Violate("C20", "monitor;panic;"+scenario, fmt.Sprintf("%v\n%s", pv, stack), mc.EnumReplay(name, c))
		}
		return ex
	})
}

func init() {
	for _, sc := range []string{"two-errors", "three-errors", "error+terminal", "error+data", "add+terminal", "add+error+terminal"} {
		for _, max := range []uint32{1, 2} {
			if strings.HasPrefix(sc, "add+") && max == 2 {
				continue
			}
			sc, max := sc, max
			mc.Register("C14", fmt.Sprintf("monitor-threads/%s/max=%d", sc, max), "quick", func(x *mc.Cell) { c14Threads(x, sc, max, 1) })
			mc.Register("C14", fmt.Sprintf("monitor-threads/%s/max=%d", sc, max), "thorough", func(x *mc.Cell) { c14Threads(x, sc, max, 2) })
			if strings.HasPrefix(sc, "add+") || sc == "error+terminal" {
				// the monitor is part of C20's surface: adding a channel / ending it from several goroutines
				mc.Register("C20", fmt.Sprintf("monitor-threads/%s/max=%d", sc, max), "quick", func(x *mc.Cell) { c14Threads(x, sc, max, 1) })
				mc.Register("C20", fmt.Sprintf("monitor-threads/%s/max=%d", sc, max), "thorough", func(x *mc.Cell) { c14Threads(x, sc, max, 2) })
			}
		}
	}
}
