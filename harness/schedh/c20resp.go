package schedh

import (
	"context"
	"fmt"
	"runtime"
	"strings"
	"time"

	datatransfer "github.com/filecoin-project/go-data-transfer/v2"
	"github.com/filecoin-project/go-data-transfer/v2/message"
	dtgs "github.com/filecoin-project/go-data-transfer/v2/transport/graphsync"
	"github.com/ipfs/go-graphsync"
	"github.com/ipld/go-ipld-prime"
	cidlink "github.com/ipld/go-ipld-prime/linking/cid"

	"verif/doubles"
	"verif/l2transport"
	"verif/mc"
	"verif/sched"
)

// Responder side: one received pull channel (peer B pulls from us) on the real manager + real graphsync
// transport, with a transport configurer registered for the voucher type (per-channel store + link limit, as
// storage providers configure it), and pairs / triples of the things that can then happen concurrently:
// graphsync callbacks for the channel's request, a restart request arriving as a new graphsync request, data-transfer
// messages from the peer arriving over the network, and local API calls.

var debugFullStacks bool

type respOp struct {
	name string
	do   func(w *l2transport.RealWorld, chid datatransfer.ChannelID, reqNum int)
}

var respOps = []respOp{
	{"restart-request-arrives", func(w *l2transport.RealWorld, c datatransfer.ChannelID, r int) {
		if h := w.GS.IncomingRequestHook; h != nil {
			h(doubles.PeerB, l2transport.ReqData(60, l2transport.ExtOf(l2transport.ReqMsg(c.ID, true, true))), &doubles.Actions{})
		}
	}},
	{"duplicate-new-request-arrives", func(w *l2transport.RealWorld, c datatransfer.ChannelID, r int) {
		if h := w.GS.IncomingRequestHook; h != nil {
			h(doubles.PeerB, l2transport.ReqData(61, l2transport.ExtOf(l2transport.ReqMsg(c.ID, false, true))), &doubles.Actions{})
		}
	}},
	{"second-request-arrives", func(w *l2transport.RealWorld, c datatransfer.ChannelID, r int) {
		// a new pull request for another transfer id of the same peer
		if h := w.GS.IncomingRequestHook; h != nil {
			h(doubles.PeerB, l2transport.ReqData(62, l2transport.ExtOf(l2transport.ReqMsg(c.ID+1, false, true))), &doubles.Actions{})
		}
	}},
	{"peer-cancels-second", func(w *l2transport.RealWorld, c datatransfer.ChannelID, r int) {
		w.Net.Receiver.ReceiveRequest(opCtx, doubles.PeerB, doubles.Recode(message.CancelRequest(c.ID+1)).(datatransfer.Request))
	}},
	{"peer-cancels", func(w *l2transport.RealWorld, c datatransfer.ChannelID, r int) {
		w.Net.Receiver.ReceiveRequest(opCtx, doubles.PeerB, doubles.Recode(message.CancelRequest(c.ID)).(datatransfer.Request))
	}},
	{"peer-pauses", func(w *l2transport.RealWorld, c datatransfer.ChannelID, r int) {
		w.Net.Receiver.ReceiveRequest(opCtx, doubles.PeerB, doubles.Recode(message.UpdateRequest(c.ID, true)).(datatransfer.Request))
	}},
	{"peer-voucher", func(w *l2transport.RealWorld, c datatransfer.ChannelID, r int) {
		v := doubles.Voucher("T", "follow-up")
		m, _ := message.VoucherRequest(c.ID, &v)
		w.Net.Receiver.ReceiveRequest(opCtx, doubles.PeerB, doubles.Recode(m).(datatransfer.Request))
	}},
	{"block-queued", func(w *l2transport.RealWorld, c datatransfer.ChannelID, r int) {
		if h := w.GS.OutgoingBlockHook; h != nil {
			h(doubles.PeerB, l2transport.ReqData(r, nil), &doubles.FakeBlock{L: l2transport.RootLink(), Size: 5, OnWire: 5, Idx: 1}, &doubles.Actions{})
		}
	}},
	{"requestor-cancelled", func(w *l2transport.RealWorld, c datatransfer.ChannelID, r int) {
		if h := w.GS.RequestorCancelled; h != nil {
			h(doubles.PeerB, l2transport.ReqData(r, nil))
		}
	}},
	{"response-completed", func(w *l2transport.RealWorld, c datatransfer.ChannelID, r int) {
		if h := w.GS.CompletedResponse; h != nil {
			h(doubles.PeerB, l2transport.ReqData(r, nil), graphsync.RequestCompletedFull)
		}
	}},
	{"close", func(w *l2transport.RealWorld, c datatransfer.ChannelID, r int) {
		_ = w.Mgr.CloseDataTransferChannel(opCtx, c)
	}},
	{"update-validation", func(w *l2transport.RealWorld, c datatransfer.ChannelID, r int) {
		_ = w.Mgr.UpdateValidationStatus(opCtx, c, datatransfer.ValidationResult{Accepted: true, DataLimit: 100})
	}},
	{"local-restart", func(w *l2transport.RealWorld, c datatransfer.ChannelID, r int) {
		_ = w.Mgr.RestartDataTransferChannel(opCtx, c)
	}},
	{"query", func(w *l2transport.RealWorld, c datatransfer.ChannelID, r int) {
		_, _ = w.Mgr.ChannelState(opCtx, c)
		_ = w.T.ChannelsForPeer(doubles.PeerB)
	}},
}

func respIdx(name string) int {
	for i, o := range respOps {
		if o.name == name {
			return i
		}
	}
	panic("unknown responder op " + name)
}

func c20RespBody(x *mc.Cell, ops []int, name, names string) mc.Body {
	return func(c *mc.Chooser) mc.Exec {
		var ex mc.Exec
		pv, stack := mc.Bubble(x.T, func() {
			w := l2transport.NewRealWorld()
			closed := false
			defer func() {
				if !closed {
					w.Close()
				}
			}()
			lsys := cidlink.DefaultLinkSystem()
			_ = w.Mgr.RegisterTransportConfigurer("T", func(datatransfer.ChannelID, datatransfer.TypedVoucher) []datatransfer.TransportOption {
				return []datatransfer.TransportOption{dtgs.UseStore(lsys), dtgs.MaxLinks(100)}
			})
			var tid datatransfer.TransferID = 9
			chid := datatransfer.ChannelID{Initiator: doubles.PeerB, Responder: doubles.PeerA, ID: tid}
			w.GS.IncomingRequestHook(doubles.PeerB, l2transport.ReqData(1, l2transport.ExtOf(l2transport.ReqMsg(tid, false, true))), &doubles.Actions{})
			mc.Wait()
			if _, err := w.Mgr.ChannelState(context.Background(), chid); err != nil {
				panic(fmt.Sprintf("setup: the pull request was not accepted: %v", err))
			}
			ctx, cancelOps := context.WithCancel(context.Background())
			opCtx = ctx
			defer cancelOps()
			s := sched.New(lockPoints)
			sClosed := false
			defer func() {
				if !sClosed {
					s.Close()
				}
			}()
			for i, o := range ops {
				o := o
				s.Go(fmt.Sprintf("t%d:%s", i, respOps[o].name), func() { respOps[o].do(w, chid, 1) })
			}
			stuck, capped := s.Run(c, 3000, 0, 0)
			rep := mc.EnumReplay(name, c)
			if capped {
				x.Cap(name + ": step cap")
			}
			if len(stuck) > 0 {
				stuck, _ = s.Run(c, 9000, 500*time.Millisecond, 60)
				if len(stuck) > 0 {
					stuck, _ = s.Run(c, 12000, time.Hour, 24)
				}
			}
			parked := mc.Parked()
			if len(stuck) > 0 {
				stacks := mc.BlockedStacks(6)
				if debugFullStacks {
					buf := make([]byte, 1<<20)
					stacks = string(buf[:runtime.Stack(buf, true)])
				}
				sites := strings.Join(mc.BlockedSites(), "+")
				n := mc.Unblock()
				if strings.Contains(names, "close") || strings.Contains(names, "peer-cancels") || strings.Contains(names, "response-completed") {
					// one of the operations ends the channel: its cleanup is part of the cycle, the channel never settles (C09)
					x.Violate("C09", fmt.Sprintf("responder-interleaving;cleanup-never-finishes;blocked-in=%s;ops=%s", sites, names), fmt.Sprintf("the channel's cleanup is blocked for ever, the channel never reaches its terminal status; operations %v never returned; schedule: %v\nblocked goroutines:\n%s", stuck, s.Trace, stacks), rep)
				}
				x.Violate("C20", fmt.Sprintf("responder-interleaving;call-did-not-return;blocked-in=%s;ops=%s", sites, names), fmt.Sprintf("operations %v never returned (%d goroutines parked in library locks); schedule: %v\nblocked goroutines:\n%s", stuck, n, s.Trace, stacks), rep)
				cancelOps()
				s.Close()
				sClosed = true
				mc.Wait()
				_, _ = mc.Call(func() { _ = w.Mgr.Stop(context.Background()) })
				w.MarkStopped()
				for _, r := range w.GS.Reqs {
					w.GS.Finish(r.Num, nil)
				}
				mc.Unblock()
				mc.Wait()
				closed = true
				if mc.BlockedStacks(1) != "" {
					x.Die()
				}
				return
			}
			s.Close()
			sClosed = true
			mc.Wait()
			if parked != 0 || mc.Parked() != 0 {
				n := mc.Unblock()
				x.Violate("C20", "responder-interleaving;goroutines-left-in-locks;ops="+names, fmt.Sprintf("%d goroutine(s) left blocked in library locks; schedule: %v", n, s.Trace), rep)
				return
			}
			if st, err := w.Mgr.ChannelState(context.Background(), chid); err == nil {
				ex.Outcome = datatransfer.Statuses[st.Status()]
			}
			ex.Premise = true
			hang, _ := mc.Call(func() { _ = w.Mgr.Stop(context.Background()) })
			w.MarkStopped()
			if hang {
				n := mc.Unblock()
				x.Violate("C20", "responder-interleaving;stop-did-not-return;ops="+names, fmt.Sprintf("stopping the manager afterwards did not return (%d goroutines parked)", n), rep)
				return
			}
			for _, r := range w.GS.Reqs {
				w.GS.Finish(r.Num, nil)
			}
			mc.Wait()
			closed = true
			if sites := mc.BlockedSites(); len(sites) > 0 {
				stacks := mc.BlockedStacks(6)
				mc.Unblock()
				x.Violate("C20", fmt.Sprintf("responder-interleaving;goroutine-left-blocked;blocked-in=%s", strings.Join(sites, "+")), fmt.Sprintf("goroutine(s) still blocked inside the library after Stop; schedule: %v\n%s", s.Trace, stacks), rep)
				x.Die()
			}
		})
		if pv != nil {
			x.Violate("C20", "panic;responder-interleaving;ops="+names, fmt.Sprintf("%v\n%s", pv, stack), mc.EnumReplay(name, c))
		}
		return ex
	}
}

func c20RespInterleave(x *mc.Cell, ops []int, bound int, maxExec int64) {
	names := ""
	for _, o := range ops {
		names += respOps[o].name + "+"
	}
	name := fmt.Sprintf("c20-responder/%sb%d", names, bound)
	x.Enumerate(name, mc.EnumOpts{MaxDeviations: bound, DeviationCost: sched.Cost, MaxExecutions: maxExec}, c20RespBody(x, ops, name, names))
}

var _ = ipld.LinkSystem{}

func init() {
	n := len(respOps)
	for a := 0; a < n; a++ {
		for b := a; b < n; b++ {
			a, b := a, b
			pair := respOps[a].name + "+" + respOps[b].name
			mc.Register("C20", "responder-pairs/"+pair, "quick", func(x *mc.Cell) { c20RespInterleave(x, []int{a, b}, 1, 3000) })
			mc.Register("C20", "responder-pairs/"+pair, "thorough", func(x *mc.Cell) { c20RespInterleave(x, []int{a, b}, 2, 20000) })
			if strings.Contains(pair, "close") || strings.Contains(pair, "peer-cancels") || strings.Contains(pair, "response-completed") {
				// pairs in which the channel (or the second channel) is ended also decide C09's "settles without further input"
				mc.Register("C09", "responder-pairs/"+pair, "quick", func(x *mc.Cell) { c20RespInterleave(x, []int{a, b}, 1, 3000) })
				mc.Register("C09", "responder-pairs/"+pair, "thorough", func(x *mc.Cell) { c20RespInterleave(x, []int{a, b}, 2, 20000) })
			}
		}
	}
}
