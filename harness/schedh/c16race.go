package schedh

import (
	"context"
	"errors"
	"fmt"

	datatransfer "github.com/filecoin-project/go-data-transfer/v2"
	"github.com/ipfs/go-graphsync"

	"verif/doubles"
	"verif/l2transport"
	"verif/mc"
	"verif/sched"
)

// c16HookVsCleanup: a graphsync callback that registers a request for a channel (incoming request of a pull
// from B, the request of C answering our push, our own outgoing request being opened) runs concurrently with
// the cleanup of that channel, at lock granularity on the real transport behind a recording events handler.
// Afterwards the harness fires the later callbacks of that request (block queued/sent, completed, network
// error) and asks the transport whether it still tracks the channel. Oracle (C16): if the channel is no longer
// tracked - the cleanup took effect after the registration - none of the later callbacks may reach the events
// handler; a tracked channel is allowed to receive them.
func c16HookVsCleanup(x *mc.Cell, kind string, bound int) {
	name := fmt.Sprintf("c16-hook-vs-cleanup/%s/b%d", kind, bound)
	x.Enumerate(name, mc.EnumOpts{MaxDeviations: bound, DeviationCost: sched.Cost, MaxExecutions: 20000}, func(c *mc.Chooser) mc.Exec {
		var ex mc.Exec
		pv, stack := mc.Bubble(x.T, func() {
			w := l2transport.NewWorld()
			defer w.Close()
			ctx := context.Background()
			var chid datatransfer.ChannelID
			reqNum := 70
			s := sched.New(lockPoints)
			defer s.Close() // also on a diverged replay: parked library goroutines must be released before the world is torn down
			switch kind {
			case "incoming-pull-request":
				chid = w.Chans[1] // B pulls from us
				s.Go("hook", func() {
					w.GS.IncomingRequestHook(doubles.PeerB, l2transport.ReqData(reqNum, l2transport.ExtOf(l2transport.ReqMsg(chid.ID, false, true))), &doubles.Actions{})
				})
			case "incoming-push-response-request":
				chid = w.Chans[2] // C answers our push with a graphsync request
				rs := l2transport.RespMsg(chid.ID)
				s.Go("hook", func() {
					w.GS.IncomingRequestHook(doubles.PeerC, l2transport.ReqData(reqNum, l2transport.ExtOf(rs)), &doubles.Actions{})
				})
			case "restart-of-tracked-pull":
				chid = w.Chans[1]
				w.GS.IncomingRequestHook(doubles.PeerB, l2transport.ReqData(69, l2transport.ExtOf(l2transport.ReqMsg(chid.ID, false, true))), &doubles.Actions{})
				mc.Wait()
				s.Go("hook", func() {
					w.GS.IncomingRequestHook(doubles.PeerB, l2transport.ReqData(reqNum, l2transport.ExtOf(l2transport.ReqMsg(chid.ID, true, true))), &doubles.Actions{})
				})
			}
			s.Go("cleanup", func() { w.T.CleanupChannel(chid) })
			stuck, capped := s.Run(c, 3000, 0, 0)
			s.Close()
			mc.Wait()
			rep := mc.EnumReplay(name, c)
			if capped {
				x.Cap(name + ": step cap")
			}
			if len(stuck) > 0 {
				n := mc.Unblock()
				x.Violate("C20", "transport-hook-vs-cleanup;did-not-return;kind="+kind, fmt.Sprintf("%v never returned (%d parked); schedule %v", stuck, n, s.Trace), rep)
				return
			}
			// later callbacks of the request
			before := w.H.NumCalls()
			rd := l2transport.ReqData(reqNum, nil)
			peer := doubles.PeerB
			if kind == "incoming-push-response-request" {
				peer = doubles.PeerC
			}
			if h := w.GS.OutgoingBlockHook; h != nil {
				h(peer, rd, &doubles.FakeBlock{L: l2transport.RootLink(), Size: 5, OnWire: 5, Idx: 1}, &doubles.Actions{})
			}
			if h := w.GS.BlockSent; h != nil {
				h(peer, rd, &doubles.FakeBlock{L: l2transport.RootLink(), Size: 5, OnWire: 5, Idx: 1})
			}
			if h := w.GS.NetworkError; h != nil {
				h(peer, rd, errors.New("network down"))
			}
			if h := w.GS.CompletedResponse; h != nil {
				h(peer, rd, graphsync.RequestCompletedFull)
			}
			mc.Wait()
			late := w.H.CallsFrom(before)
			// is the channel still tracked?
			perr := w.T.PauseChannel(ctx, chid)
			tracked := !errors.Is(perr, datatransfer.ErrChannelNotFound)
			ex.Premise = !tracked
			ex.Outcome = fmt.Sprintf("tracked=%v late=%d", tracked, len(late))
			if !tracked && len(late) > 0 {
				x.Violate("C16", fmt.Sprintf("callbacks-after-cleanup-reach-handler;kind=%s;late=%d", kind, len(late)),
					fmt.Sprintf("the channel %s is not tracked any more (PauseChannel: %v) but later callbacks of its graphsync request were reported to the events handler: %v; schedule %v", doubles.ChidName(chid), perr, late, s.Trace), rep)
			}
		})
		if pv != nil {
			x.Violate("C16", "panic;hook-vs-cleanup;kind="+kind, fmt.Sprintf("%v\n%s", pv, stack), mc.EnumReplay(name, c))
		}
		return ex
	})
}

func init() {
	for _, kind := range []string{"incoming-pull-request", "incoming-push-response-request", "restart-of-tracked-pull"} {
		kind := kind
		mc.Register("C16", "hook-vs-cleanup/"+kind, "quick", func(x *mc.Cell) { c16HookVsCleanup(x, kind, 2) })
		mc.Register("C16", "hook-vs-cleanup/"+kind, "thorough", func(x *mc.Cell) { c16HookVsCleanup(x, kind, 4) })
	}
}
