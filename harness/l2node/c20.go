package l2node

import (
	"context"
	"fmt"
	"sync"

	datatransfer "github.com/filecoin-project/go-data-transfer/v2"

	"verif/doubles"
	"verif/mc"
)

var reentrant = []string{"ChannelState", "InProgressChannels", "SendVoucher", "SendVoucherResult", "UpdateValidationStatus", "Pause", "Resume", "Close", "Restart"}

// c20Reentrancy: a subscriber that, from inside the callback for event code E, calls manager API X; the
// channel is then driven through a complete life. Every driving step and the callback itself must return.
func c20Reentrancy(x *mc.Cell, r Role) {
	finals := []string{"completed", "cancelled", "failed", "limit-paused", "finalizing", "other-paused"}
	for _, api := range reentrant {
		for _, final := range finals {
			if r.Created() && (final == "limit-paused" || final == "finalizing") {
				continue
			}
			// which event codes occur on this path is learned from a dry run; then one execution per code
			var codes []datatransfer.EventCode
			run(x, "C20", Opts{Types: []string{"T"}}, nil, func(n *Node) {
				chid := Setup(n, r, final)
				seen := map[datatransfer.EventCode]bool{}
				for _, e := range n.EventsFrom(0) {
					if e.Chid == chid && !seen[e.Code] {
						seen[e.Code] = true
						codes = append(codes, e.Code)
					}
				}
			})
			for _, code := range codes {
				api, final, code := api, final, code
				rep := map[string]any{"role": RoleNames[r], "path": final, "event": datatransfer.Events[code], "api": api}
				x.Executions++
				pv, stack := mc.Bubble(x.T, func() {
					n, err := NewNode(Opts{Types: []string{"T"}})
					if err != nil {
						panic(err)
					}
					defer n.Stop()
					var mu sync.Mutex
					fired := 0
					returned := 0
					n.Mgr.SubscribeToEvents(func(e datatransfer.Event, st datatransfer.ChannelState) {
						if e.Code != code {
							return
						}
						mu.Lock()
						if fired > 0 {
							mu.Unlock()
							return
						}
						fired++
						mu.Unlock()
						ctx := context.Background()
						c := st.ChannelID()
						switch api {
						case "ChannelState":
							_, _ = n.Mgr.ChannelState(ctx, c)
						case "InProgressChannels":
							_, _ = n.Mgr.InProgressChannels(ctx)
						case "SendVoucher":
							_ = n.Mgr.SendVoucher(ctx, c, doubles.Voucher("T", "cb"))
						case "SendVoucherResult":
							_ = n.Mgr.SendVoucherResult(ctx, c, doubles.Voucher("R", "cb"))
						case "UpdateValidationStatus":
							_ = n.Mgr.UpdateValidationStatus(ctx, c, datatransfer.ValidationResult{Accepted: true, DataLimit: 1000})
						case "Pause":
							_ = n.Mgr.PauseDataTransferChannel(ctx, c)
						case "Resume":
							_ = n.Mgr.ResumeDataTransferChannel(ctx, c)
						case "Close":
							_ = n.Mgr.CloseDataTransferChannel(ctx, c)
						case "Restart":
							_ = n.Mgr.RestartDataTransferChannel(ctx, c)
						}
						mu.Lock()
						returned++
						mu.Unlock()
					})
					var hang bool
					hang, cr := mc.Call(func() { Setup(n, r, final) })
					_ = cr
					mu.Lock()
					f, ret := fired, returned
					mu.Unlock()
					x.Premise++
					x.Outcome(fmt.Sprintf("%s|%s|%s|%s|%d|%d|%v", RoleNames[r], final, datatransfer.Events[code], api, f, ret, hang))
					if hang || f != ret || mc.Parked() != 0 {
						stacks := mc.BlockedStacks(5)
						sites := fmt.Sprint(mc.BlockedSites())
						parked := mc.Unblock()
						x.Violate("C20", fmt.Sprintf("reentrant-subscriber;api=%s;event=%s;blocked-in=%s", api, datatransfer.Events[code], sites),
							fmt.Sprintf("role=%s path=%s: a subscriber calling %s from inside the callback for %s: driver-returned=%v callback fired=%d returned=%d, %d goroutine(s) parked in library locks\n%s",
								RoleNames[r], final, api, datatransfer.Events[code], !hang, f, ret, parked, stacks), rep)
						if hang || f != ret {
							x.Die()
						}
					}
				})
				if pv != nil {
					x.Violate("C20", fmt.Sprintf("panic;reentrant-subscriber;api=%s;event=%s;site=%s", api, datatransfer.Events[code], panicSite(stack)), fmt.Sprintf("%v\n%s", pv, trimStack(stack)), rep)
				}
			}
		}
	}
}

func init() {
	for r := CreatedPush; r <= ReceivedPull; r++ {
		r := r
		mc.Register("C20", "reentrant-subscribers/"+RoleNames[r], "both", func(x *mc.Cell) { c20Reentrancy(x, r) })
	}
}
