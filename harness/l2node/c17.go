package l2node

import (
	"context"
	"fmt"
	"strings"
	"sync"
	"time"

	"github.com/libp2p/go-libp2p/core/peer"

	datatransfer "github.com/filecoin-project/go-data-transfer/v2"
	"github.com/filecoin-project/go-data-transfer/v2/message"

	"verif/doubles"
	"verif/mc"
	"verif/views"
)

type subLog struct {
	mu  sync.Mutex
	evs []Ev
}

func (s *subLog) cb(e datatransfer.Event, st datatransfer.ChannelState) {
	v := views.Of(st)
	s.mu.Lock()
	s.evs = append(s.evs, Ev{doubles.NextSeq(), e.Code, st.ChannelID(), v, st})
	s.mu.Unlock()
}
func (s *subLog) snapshot() []Ev {
	s.mu.Lock()
	defer s.mu.Unlock()
	return append([]Ev(nil), s.evs...)
}

func evKey(e Ev) string {
	return fmt.Sprintf("%s@%s:%s", datatransfer.Events[e.Code], doubles.ChidName(e.Chid), e.Vec.String())
}

func seqKey(es []Ev) string {
	parts := make([]string, len(es))
	for i, e := range es {
		parts[i] = evKey(e)
	}
	return strings.Join(parts, "\n")
}

// allowedDiff reports the first field that changed between two snapshots although the event code does not allow it.
func allowedDiff(code datatransfer.EventCode, b, a views.Vec) string {
	bb, aa := b, a
	allow := func(fs ...string) {
		for _, f := range fs {
			switch f {
			case "status":
				bb.Status, aa.Status = 0, 0
				// the ResponderPaused view depends on the Finalizing status
				if b.Status == datatransfer.Finalizing || a.Status == datatransfer.Finalizing {
					bb.RPaused, aa.RPaused, bb.Both, aa.Both, bb.SelfP, aa.SelfP = false, false, false, false, false, false
				}
			case "message":
				bb.Message, aa.Message = "", ""
			case "ip":
				bb.IPaused, aa.IPaused, bb.Both, aa.Both, bb.SelfP, aa.SelfP = false, false, false, false, false, false
			case "rp":
				bb.RPaused, aa.RPaused, bb.Both, aa.Both, bb.SelfP, aa.SelfP = false, false, false, false, false, false
			case "queued":
				bb.Queued, aa.Queued = 0, 0
			case "sent":
				bb.Sent, aa.Sent = 0, 0
			case "received":
				bb.Received, aa.Received = 0, 0
			case "qidx":
				bb.QIdx, aa.QIdx = 0, 0
			case "sidx":
				bb.SIdx, aa.SIdx = 0, 0
			case "ridx":
				bb.RIdx, aa.RIdx = 0, 0
			case "vouchers":
				bb.Vouchers, aa.Vouchers = "", ""
			case "results":
				bb.Results, aa.Results = "", ""
			case "limit":
				bb.Limit, aa.Limit = 0, 0
			case "fin":
				bb.ReqFin, aa.ReqFin = false, false
			}
		}
	}
	switch code {
	case datatransfer.Open, datatransfer.Accept, datatransfer.TransferInitiated, datatransfer.FinishTransfer, datatransfer.ResponderCompletes,
		datatransfer.ResponderBeginsFinalization, datatransfer.BeginFinalizing, datatransfer.Complete, datatransfer.Cancel, datatransfer.CleanupComplete:
		allow("status")
	case datatransfer.Error:
		allow("status", "message")
	case datatransfer.PauseInitiator, datatransfer.ResumeInitiator:
		allow("ip")
	case datatransfer.PauseResponder, datatransfer.DataLimitExceeded:
		allow("rp")
	case datatransfer.ResumeResponder:
		allow("rp", "status")
	case datatransfer.DataQueuedProgress:
		allow("queued")
	case datatransfer.DataSentProgress:
		allow("sent")
	case datatransfer.DataReceivedProgress:
		allow("received")
	case datatransfer.DataQueued:
		allow("qidx")
	case datatransfer.DataSent:
		allow("sidx")
	case datatransfer.DataReceived:
		allow("ridx")
	case datatransfer.NewVoucher:
		allow("vouchers")
	case datatransfer.NewVoucherResult:
		allow("results")
	case datatransfer.SetDataLimit:
		allow("limit")
	case datatransfer.SetRequiresFinalization:
		allow("fin")
	case datatransfer.Disconnected, datatransfer.SendDataError, datatransfer.ReceiveDataError, datatransfer.RequestCancelled, datatransfer.Opened, datatransfer.Restart:
		allow("message")
	case datatransfer.CompleteCleanupOnRestart:
	}
	if bb.String() != aa.String() {
		return firstDiffWord(bb.String(), aa.String())
	}
	return ""
}

func firstDiffWord(a, b string) string {
	fa, fb := strings.Fields(a), strings.Fields(b)
	for i := range fa {
		if i >= len(fb) || fa[i] != fb[i] {
			if j := strings.Index(fa[i], "="); j > 0 {
				return fa[i][:j]
			}
			return fa[i]
		}
	}
	return "?"
}

type stim struct {
	name string
	// expect: exact event codes expected when applied in status Ongoing with nothing paused (nil = unconstrained)
	do func(n *Node, chid datatransfer.ChannelID, created bool, k int)
}

var stims = []stim{
	{"accept", func(n *Node, c datatransfer.ChannelID, created bool, k int) {
		if created {
			n.RecvResponse(doubles.PeerB, mustResp(message.NewResponse(c.ID, true, false, nil)))
		}
	}},
	{"transfer-initiated", func(n *Node, c datatransfer.ChannelID, created bool, k int) { n.H().OnTransferInitiated(c); mc.Wait() }},
	{"data-received", func(n *Node, c datatransfer.ChannelID, created bool, k int) {
		_ = n.H().OnDataReceived(c, Root(), 3, int64(k+1), true)
		mc.Wait()
	}},
	{"data-queued-sent", func(n *Node, c datatransfer.ChannelID, created bool, k int) {
		_, _ = n.H().OnDataQueued(c, Root(), 3, int64(k+1), true)
		_ = n.H().OnDataSent(c, Root(), 3, int64(k+1), true)
		mc.Wait()
	}},
	{"local-pause", func(n *Node, c datatransfer.ChannelID, created bool, k int) {
		_ = n.Mgr.PauseDataTransferChannel(context.Background(), c)
		mc.Wait()
	}},
	{"peer-pause", func(n *Node, c datatransfer.ChannelID, created bool, k int) {
		if created {
			n.RecvResponse(doubles.PeerB, message.UpdateResponse(c.ID, true))
		} else {
			n.RecvRequest(doubles.PeerB, message.UpdateRequest(c.ID, true))
		}
	}},
	{"send-error", func(n *Node, c datatransfer.ChannelID, created bool, k int) {
		_ = n.H().OnSendDataError(c, errTransfer)
		mc.Wait()
	}},
	{"transport-complete", func(n *Node, c datatransfer.ChannelID, created bool, k int) {
		_ = n.H().OnChannelCompleted(c, nil)
		mc.Wait()
	}},
	{"peer-complete", func(n *Node, c datatransfer.ChannelID, created bool, k int) {
		if created {
			n.RecvResponse(doubles.PeerB, mustResp(message.CompleteResponse(c.ID, true, false, nil)))
		}
	}},
	{"close", func(n *Node, c datatransfer.ChannelID, created bool, k int) {
		_ = n.Mgr.CloseDataTransferChannel(context.Background(), c)
		mc.Wait()
	}},
	{"transport-error", func(n *Node, c datatransfer.ChannelID, created bool, k int) {
		_ = n.H().OnChannelCompleted(c, errTransfer)
		mc.Wait()
	}},
	{"invalid-accept-again", func(n *Node, c datatransfer.ChannelID, created bool, k int) {
		if created {
			n.RecvResponse(doubles.PeerB, mustResp(message.NewResponse(c.ID, true, false, nil)))
		}
	}},
}

// exact event lists for stimuli applied to an Ongoing, un-paused channel (exactly-once + order oracle)
func expectedInOngoing(name string, created bool, recv bool) ([]datatransfer.EventCode, bool) {
	switch name {
	case "data-received":
		return []datatransfer.EventCode{datatransfer.DataReceivedProgress, datatransfer.DataReceived}, true
	case "data-queued-sent":
		return []datatransfer.EventCode{datatransfer.DataQueuedProgress, datatransfer.DataQueued, datatransfer.DataSentProgress, datatransfer.DataSent}, true
	case "local-pause":
		if created {
			return []datatransfer.EventCode{datatransfer.PauseInitiator}, true
		}
		return []datatransfer.EventCode{datatransfer.PauseResponder}, true
	case "peer-pause":
		if created {
			return []datatransfer.EventCode{datatransfer.PauseResponder}, true
		}
		return []datatransfer.EventCode{datatransfer.PauseInitiator}, true
	case "send-error":
		return []datatransfer.EventCode{datatransfer.SendDataError}, true
	case "invalid-accept-again", "accept":
		if created {
			// Accept is not valid in Ongoing and must not be announced; the un-paused response still records the responder as resumed
			return []datatransfer.EventCode{datatransfer.ResumeResponder}, true
		}
	case "transfer-initiated":
		return []datatransfer.EventCode{datatransfer.TransferInitiated}, true
	}
	return nil, false
}

func c17(x *mc.Cell, depth int) {
	// two channels: #0 created push (with a per-transfer subscriber), #1 received pull
	nOps := 2*len(stims) + 2 // + subscribe third / unsubscribe third
	opName := func(i int) string {
		if i < 2*len(stims) {
			return fmt.Sprintf("ch%d:%s", i/len(stims), stims[i%len(stims)].name)
		}
		if i == 2*len(stims) {
			return "subscribe-3rd"
		}
		return "unsubscribe-3rd"
	}
	name := "c17-two-channels"
	x.BFS(name, mc.BFSOpts{NumOps: nOps, MaxDepth: depth, OpName: opName}, func(hist []int) (string, bool) {
		key, enabled := "", true
		rep := mc.BFSReplay(name, hist, opName)
		x.Executions--
		run(x, "C17", Opts{Types: []string{"T"}}, rep, func(n *Node) {
			g1, g2, g3, per := &subLog{}, &subLog{}, &subLog{}, &subLog{}
			n.Mgr.SubscribeToEvents(g1.cb)
			n.Mgr.SubscribeToEvents(g2.cb)
			c0 := Setup(n, CreatedPush, "requested", datatransfer.WithSubscriber(per.cb))
			// the peer numbers its own transfers independently: its pull carries the same transfer id as our push, so
			// the two channel ids differ in the initiator only (a per-transfer subscriber must still tell them apart)
			c1 := mkReceived(n, true, uint64(c0.ID), datatransfer.ValidationResult{Accepted: true})
			mc.Wait()
			chans := []datatransfer.ChannelID{c0, c1}
			var unsub3 datatransfer.Unsubscribe
			g3from, g3to := -1, -1 // indexes into g1's log between which g3 was subscribed
			counts := []int{0, 0}
			var lastBefore [2]views.Vec
			for hi, op := range hist {
				last := hi == len(hist)-1
				for i, c := range chans {
					lastBefore[i], _ = n.Vec(c)
				}
				g1Before := len(g1.snapshot())
				switch {
				case op < 2*len(stims):
					ci := op / len(stims)
					st := stims[op%len(stims)]
					if (st.name == "accept" || st.name == "peer-complete" || st.name == "invalid-accept-again") && ci == 1 {
						if last {
							enabled = false
						}
						return
					}
					st.do(n, chans[ci], ci == 0, counts[ci])
					counts[ci]++
				case op == 2*len(stims):
					if unsub3 != nil || g3to >= 0 {
						if last {
							enabled = false
						}
						return
					}
					unsub3 = n.Mgr.SubscribeToEvents(g3.cb)
					g3from = len(g1.snapshot())
				default:
					if unsub3 == nil {
						if last {
							enabled = false
						}
						return
					}
					unsub3()
					unsub3 = nil
					g3to = len(g1.snapshot())
				}
				mc.Wait()
				if !last {
					continue
				}
				// ---------------- oracles on the complete history
				l1, l2, l3, lp := g1.snapshot(), g2.snapshot(), g3.snapshot(), per.snapshot()
				x.Premise++
				viol := func(sig, msg string) {
					x.Violate("C17", sig, fmt.Sprintf("history=%v: %s", mc.BFSReplay(name, hist, opName).(map[string]any)["ops"], msg), rep)
				}
				if seqKey(l1) != seqKey(l2) {
					viol("global-subscribers-disagree", fmt.Sprintf("subscriber 1 saw %d events, subscriber 2 saw %d (or different content)", len(l1), len(l2)))
				}
				// per-transfer subscriber: exactly channel 0's subsequence
				var sub0 []Ev
				for _, e := range l1 {
					if e.Chid == c0 {
						sub0 = append(sub0, e)
					}
				}
				if seqKey(sub0) != seqKey(lp) {
					viol("per-transfer-subscriber-differs", fmt.Sprintf("the per-transfer subscriber saw %d events, the channel had %d:\n global: %v\n per: %v", len(lp), len(sub0), codes(sub0), codes(lp)))
				}
				for _, e := range lp {
					if e.Chid != c0 {
						viol("per-transfer-subscriber-foreign-event", evKey(e))
					}
				}
				// third subscriber: sees exactly g1's events between its subscribe and unsubscribe
				if g3from >= 0 {
					hi := len(l1)
					if g3to >= 0 {
						hi = g3to
					}
					if seqKey(l1[g3from:hi]) != seqKey(l3) {
						viol(fmt.Sprintf("late-subscriber-window;unsubscribed=%v", g3to >= 0), fmt.Sprintf("subscribed at event %d, unsubscribed at %d of %d: saw %v, expected %v", g3from, g3to, len(l1), codes(l3), codes(l1[g3from:hi])))
					}
				}
				// snapshot chains and final state
				for i, c := range chans {
					var prev *views.Vec
					var lastEv *Ev
					for k := range l1 {
						e := l1[k]
						if e.Chid != c {
							continue
						}
						if prev != nil {
							if f := allowedDiff(e.Code, *prev, e.Vec); f != "" {
								viol(fmt.Sprintf("snapshot-chain;event=%s;field=%s", datatransfer.Events[e.Code], f), fmt.Sprintf("channel %d: consecutive snapshots differ in %s, which event %s does not change:\n  prev: %s\n  this: %s", i, f, datatransfer.Events[e.Code], prev, e.Vec))
							}
						}
						v := e.Vec
						prev = &v
						lastEv = &l1[k]
						for _, p := range views.Check(e.St) {
							x.Violate("C19", p.Sig, "(subscriber snapshot) "+p.Msg, rep)
						}
					}
					now, err := n.Vec(c)
					if err == nil && lastEv != nil && now.String() != lastEv.Vec.String() {
						viol("final-state-differs-from-last-snapshot", fmt.Sprintf("channel %d: state %s\n  last announced: %s (event %s)", i, now, lastEv.Vec, datatransfer.Events[lastEv.Code]))
					}
				}
				// exactly-once + order for stimuli applied to an Ongoing, un-paused channel
				if op < 2*len(stims) {
					ci := op / len(stims)
					b := lastBefore[ci]
					if b.Status == datatransfer.Ongoing && !b.IPaused && !b.RPaused && b.Limit == 0 {
						if want, ok := expectedInOngoing(stims[op%len(stims)].name, ci == 0, false); ok {
							var got []datatransfer.EventCode
							for _, e := range l1[g1Before:] {
								if e.Chid == chans[ci] {
									got = append(got, e.Code)
								}
							}
							if fmt.Sprint(got) != fmt.Sprint(want) {
								viol(fmt.Sprintf("announced-events;stimulus=%s", stims[op%len(stims)].name), fmt.Sprintf("stimulus %s on an ongoing channel announced %v, want exactly %v", stims[op%len(stims)].name, codeNames(got), codeNames(want)))
							}
						}
					}
				}
			}
			v0, _ := n.Vec(c0)
			v1, _ := n.Vec(c1)
			sub := 0
			if unsub3 != nil {
				sub = 1
			} else if g3to >= 0 {
				sub = 2
			}
			key = fmt.Sprintf("%s ip%v rp%v q%d r%d | %s ip%v rp%v q%d r%d | sub%d", datatransfer.Statuses[v0.Status], v0.IPaused, v0.RPaused, v0.QIdx, v0.RIdx,
				datatransfer.Statuses[v1.Status], v1.IPaused, v1.RPaused, v1.QIdx, v1.RIdx, sub)
		})
		return key, enabled
	})
}

func codes(es []Ev) []string {
	out := make([]string, len(es))
	for i, e := range es {
		out[i] = datatransfer.Events[e.Code]
	}
	return out
}
func codeNames(cs []datatransfer.EventCode) []string {
	out := make([]string, len(cs))
	for i, c := range cs {
		out[i] = datatransfer.Events[c]
	}
	return out
}

func init() {
	mc.Register("C17", "l2-two-channels", "quick", func(x *mc.Cell) { c17(x, 3) })
	mc.Register("C17", "l2-two-channels", "thorough", func(x *mc.Cell) { c17(x, 5) })
}

var _ peer.ID

// c17OpenOptions: the per-transfer subscriber given to OpenPush/OpenPullDataChannel sees exactly its channel's
// events whatever other transfer options accompany it (none, transport options before it, after it) and whether
// or not a transport configurer is registered for the voucher type; explored for both directions and every
// driver state reachable from the open.
func c17OpenOptions(x *mc.Cell) {
	nop := func(datatransfer.ChannelID, datatransfer.Transport) error { return nil }
	combos := []string{"subscriber", "transport-options+subscriber", "subscriber+transport-options", "subscriber+configurer"}
	for _, role := range []Role{CreatedPush, CreatedPull} {
		for _, state := range StatesFor(role) {
			for _, combo := range combos {
				role, state, combo := role, state, combo
				rep := map[string]any{"role": RoleNames[role], "state": state, "options": combo}
				run(x, "C17", Opts{Types: []string{"T"}}, rep, func(n *Node) {
					g, per := &subLog{}, &subLog{}
					n.Mgr.SubscribeToEvents(g.cb)
					var opts []datatransfer.TransferOption
					switch combo {
					case "subscriber":
						opts = []datatransfer.TransferOption{datatransfer.WithSubscriber(per.cb)}
					case "transport-options+subscriber":
						opts = []datatransfer.TransferOption{datatransfer.WithTransportOptions(nop), datatransfer.WithSubscriber(per.cb)}
					case "subscriber+transport-options":
						opts = []datatransfer.TransferOption{datatransfer.WithSubscriber(per.cb), datatransfer.WithTransportOptions(nop)}
					case "subscriber+configurer":
						_ = n.Mgr.RegisterTransportConfigurer("T", func(datatransfer.ChannelID, datatransfer.TypedVoucher) []datatransfer.TransportOption {
							return []datatransfer.TransportOption{nop}
						})
						opts = []datatransfer.TransferOption{datatransfer.WithSubscriber(per.cb)}
					}
					chid := Setup(n, role, state, opts...)
					mc.Wait()
					var own []Ev
					for _, e := range g.snapshot() {
						if e.Chid == chid {
							own = append(own, e)
						}
					}
					lp := per.snapshot()
					x.Premise++
					x.Outcome(fmt.Sprintf("%s|%s|%d", RoleNames[role], state, len(own)))
					if seqKey(own) != seqKey(lp) {
						x.Violate("C17", fmt.Sprintf("open-options;per-transfer-subscriber-differs;options=%s;role=%s", combo, RoleNames[role]),
							fmt.Sprintf("channel opened with %s and driven to %s: the per-transfer subscriber saw %v, the channel's events were %v", combo, state, codes(lp), codes(own)), rep)
					}
				})
			}
		}
	}
}

func init() {
	mc.Register("C17", "open-options-matrix", "both", c17OpenOptions)
}

// c17HeldSubscriber: a subscriber is slow - it is still busy with one notification while two further events are
// applied to the channel, then it catches up. Differential oracle: the sequence of (event, snapshot) pairs it
// receives is exactly the sequence it receives when it is fast (every snapshot reflects the state resulting from
// *its* event, not a later one), and so is the stream of a second subscriber registered after it that always keeps
// up; the slow one stays busy for minutes of virtual time. C02 oracle on both streams: the notification that carries
// a terminal status is the last one for the channel. All ordered pairs of stimuli, both roles.
func c17HeldSubscriber(x *mc.Cell) {
	extra := []stim{
		{"disconnected", func(n *Node, c datatransfer.ChannelID, created bool, k int) {
			_ = n.H().OnRequestDisconnected(c, errTransfer)
			mc.Wait()
		}},
		{"request-cancelled", func(n *Node, c datatransfer.ChannelID, created bool, k int) {
			_ = n.H().OnRequestCancelled(c, errTransfer)
			mc.Wait()
		}},
		{"receive-error", func(n *Node, c datatransfer.ChannelID, created bool, k int) {
			_ = n.H().OnReceiveDataError(c, errTransfer)
			mc.Wait()
		}},
		// the application re-validates with a new data limit (responder only; an error on the initiator): the limit
		// must appear in the snapshot of ITS event, not in snapshots of earlier events that are announced later
		{"update-limit", func(n *Node, c datatransfer.ChannelID, created bool, k int) {
			_ = n.Mgr.UpdateValidationStatus(context.Background(), c, datatransfer.ValidationResult{Accepted: true, DataLimit: uint64(4096 + k)})
			mc.Wait()
		}},
	}
	all := append(append([]stim(nil), stims...), extra...)
	for _, role := range []Role{CreatedPush, ReceivedPull} {
		for ai, a := range all {
			for bi, b := range all {
				role, a, b, ai, bi := role, a, b, ai, bi
				rep := map[string]any{"role": RoleNames[role], "first": a.name, "second": b.name}
				runOnce := func(hold bool) (string, int, bool) {
					key, count, ok := "", 0, true
					run(x, "C17", Opts{Types: []string{"T"}}, rep, func(n *Node) {
						chid := Setup(n, role, "ongoing")
						sub := &subLog{}
						gate := make(chan struct{})
						armed, held := false, false
						n.Mgr.SubscribeToEvents(func(e datatransfer.Event, st datatransfer.ChannelState) {
							sub.cb(e, st)
							if hold && armed && !held {
								held = true
								<-gate // busy with this notification until released
							}
						})
						// a second subscriber, registered after the slow one, that always keeps up
						sub2 := &subLog{}
						n.Mgr.SubscribeToEvents(sub2.cb)
						mc.Wait()
						armed = true
						// a first event parks the subscriber, then the two stimuli under test are applied
						_ = n.H().OnDataSent(chid, Root(), 1, 7, true)
						_, _ = n.H().OnDataQueued(chid, Root(), 1, 7, true)
						_ = n.H().OnDataReceived(chid, Root(), 1, 7, true)
						mc.Wait()
						a.do(n, chid, role.Created(), 0)
						time.Sleep(time.Minute) // the subscriber stays busy for a long (virtual) time
						mc.Wait()
						b.do(n, chid, role.Created(), 1)
						time.Sleep(time.Minute)
						mc.Wait()
						if hold {
							if !held {
								ok = false // no notification arrived to hold on (nothing to compare)
							}
							close(gate)
							mc.Wait()
						}
						var own []Ev
						for _, e := range sub.snapshot() {
							if e.Chid == chid {
								own = append(own, e)
							}
						}
						key, count = seqKey(own), len(own)
						var own2 []Ev
						for _, e := range sub2.snapshot() {
							if e.Chid == chid {
								own2 = append(own2, e)
							}
						}
						key += "\n-- later subscriber --\n" + seqKey(own2)
						// C02: once a subscriber was told the terminal status, it gets no further event for the channel
						for who, st := range map[string][]Ev{"slow": own, "later": own2} {
							term := -1
							for i, e := range st {
								if term >= 0 {
									x.Violate("C02", fmt.Sprintf("event-after-terminal-announcement;subscriber=%s;event=%s", who, datatransfer.Events[e.Code]),
										fmt.Sprintf("role=%s hold=%v stimuli %s,%s: the %s subscriber received %s (status %s) after it had received %s with terminal status %s; its stream: %v", RoleNames[role], hold, a.name, b.name, who,
											datatransfer.Events[e.Code], datatransfer.Statuses[e.Vec.Status], datatransfer.Events[st[term].Code], datatransfer.Statuses[st[term].Vec.Status], codes(st)), rep)
									break
								}
								if s := e.Vec.Status; s == datatransfer.Completed || s == datatransfer.Failed || s == datatransfer.Cancelled {
									term = i
								}
							}
						}
					})
					return key, count, ok
				}
				x.Executions-- // run() counts each of the two runs; one comparison = one execution
				ref, nref, _ := runOnce(false)
				got, ngot, held := runOnce(true)
				if !held {
					continue
				}
				x.Premise++
				x.Outcome(fmt.Sprintf("%s|%d|%d|%d", RoleNames[role], ai, bi, nref))
				if ref != got {
					x.Violate("C17", fmt.Sprintf("held-subscriber;stream-differs;first=%s;second=%s;role=%s", a.name, b.name, RoleNames[role]),
						fmt.Sprintf("a subscriber that was busy while %s and %s were applied received %d notifications that differ from the %d it receives when it keeps up:\n fast: %s\n slow: %s", a.name, b.name, ngot, nref, ref, got), rep)
				}
			}
		}
	}
}

func init() {
	mc.Register("C17", "slow-subscriber-differential", "both", c17HeldSubscriber)
	mc.Register("C02", "l2-slow-subscriber-terminal-is-last", "both", c17HeldSubscriber)
}
