package l2node

import (
	"context"
	"errors"
	"fmt"
	"regexp"
	"strings"

	"github.com/ipld/go-ipld-prime/datamodel"

	datatransfer "github.com/filecoin-project/go-data-transfer/v2"
	dtimpl "github.com/filecoin-project/go-data-transfer/v2/impl"
	"github.com/filecoin-project/go-data-transfer/v2/message"

	"verif/doubles"
	"verif/mc"
)

var reFrame = regexp.MustCompile(`go-data-transfer/v2/([A-Za-z0-9_/]+)\.([^\n(]*(?:\([^)]*\))?[^\n(]*)\(`)

// panicSite extracts the innermost go-data-transfer frame of a stack.
func panicSite(stack string) string {
	for _, ln := range strings.Split(stack, "\n") {
		if strings.Contains(ln, "go-data-transfer/v2/") && !strings.Contains(ln, "verif/") {
			if m := reFrame.FindStringSubmatch(ln); m != nil {
				return m[1] + "." + strings.TrimSpace(m[2])
			}
		}
	}
	return "unknown"
}

// run executes body on a fresh node inside a bubble; panics become violations of prop.
func run(x *mc.Cell, prop string, o Opts, rep any, body func(n *Node)) {
	x.Executions++
	pv, stack := mc.Bubble(x.T, func() {
		n, err := NewNode(o)
		if err != nil {
			panic(err)
		}
		defer n.Stop()
		body(n)
	})
	if pv != nil {
		x.Violate(prop, "panic;site="+panicSite(stack), fmt.Sprintf("the node panicked: %v\n%s", pv, trimStack(stack)), rep)
	}
}

func trimStack(s string) string {
	lines := strings.Split(s, "\n")
	var keep []string
	for _, l := range lines {
		if strings.Contains(l, "/repo/") || strings.Contains(l, "go-data-transfer/v2/") {
			keep = append(keep, strings.TrimSpace(l))
		}
		if len(keep) > 12 {
			break
		}
	}
	return strings.Join(keep, "\n")
}

// vAnswer is one validator answer vector.
type vAnswer struct {
	Err      bool
	Accepted bool
	Res      int // 0 none, 1 typed value, 2 typed with nil node
	Force    bool
	Limit    uint64
	Fin      bool
}

func (a vAnswer) String() string {
	return fmt.Sprintf("err=%v acc=%v res=%d force=%v limit=%d fin=%v", a.Err, a.Accepted, a.Res, a.Force, a.Limit, a.Fin)
}

func (a vAnswer) result() (datatransfer.ValidationResult, error) {
	r := datatransfer.ValidationResult{Accepted: a.Accepted, ForcePause: a.Force, DataLimit: a.Limit, RequiresFinalization: a.Fin}
	switch a.Res {
	case 1:
		v := doubles.Voucher("R", "result")
		r.VoucherResult = &v
	case 2:
		r.VoucherResult = &datatransfer.TypedVoucher{Type: "R"}
	}
	if a.Err {
		return r, errors.New("validator failed")
	}
	return r, nil
}

func allAnswers() []vAnswer {
	var out []vAnswer
	for _, e := range []bool{false, true} {
		for _, acc := range []bool{true, false} {
			for res := 0; res < 3; res++ {
				for _, f := range []bool{false, true} {
					for _, l := range []uint64{0, 100} {
						for _, fin := range []bool{false, true} {
							out = append(out, vAnswer{e, acc, res, f, l, fin})
						}
					}
				}
			}
		}
	}
	return out
}

var registries = [][]string{{}, {"T"}, {"U"}, {"T", "U"}}

func hasT(reg []string) bool {
	for _, t := range reg {
		if t == "T" {
			return true
		}
	}
	return false
}

func wantRes(a vAnswer) string {
	switch a.Res {
	case 1:
		return `"R":` + doubles.NodeBytes(doubles.Str("result"))
	case 2:
		return `"R":none`
	}
	return `"":none`
}

func respRes(r datatransfer.Response) string {
	v, _ := r.VoucherResult()
	return fmt.Sprintf("%q:%s", r.VoucherResultType(), noneOr(v))
}

func noneOr(n datamodel.Node) string {
	if n == nil || n.IsNull() {
		return "none"
	}
	return doubles.NodeBytes(n)
}

// bystander creates an unrelated channel (A pushes to C) whose record must never change.
func bystander(n *Node) (datatransfer.ChannelID, string) {
	chid, err := n.Mgr.OpenPushDataChannel(context.Background(), doubles.PeerC, doubles.Voucher("X", "bystander"), doubles.Cid("other"), doubles.AllSelector())
	if err != nil {
		panic(err)
	}
	mc.Wait()
	return chid, digestOf(n, chid)
}

func digestOf(n *Node, chid datatransfer.ChannelID) string {
	for k, v := range n.StoreDigest() {
		if strings.HasSuffix(k, "/"+chid.String()) {
			return v
		}
	}
	return "absent"
}

const (
	kNewPushNet = iota
	kNewPullTransport
	kNewPullNet
	kRestartPushNet
	kRestartPullTransport
	kRestartPullNet
)

var kindNames = []string{"new-push/net", "new-pull/transport", "new-pull/net", "restart-push/net", "restart-pull/transport", "restart-pull/net"}

// reply extracts the reply message of a request: returned response (transport), OpenChannel message (accepted push) or a network send.
func replyOf(kind int, d Delta, returned datatransfer.Response) (datatransfer.Response, string) {
	if returned != nil {
		return returned, "returned"
	}
	for _, c := range d.TCalls {
		if c.Op == "open" && c.Msg != nil {
			if r, ok := c.Msg.(datatransfer.Response); ok {
				return r, "open-channel"
			}
		}
	}
	for _, s := range d.Sends {
		if r, ok := s.Msg.(datatransfer.Response); ok && s.To == doubles.PeerB && (r.IsNew() || r.IsRestart()) {
			return r, "network"
		}
	}
	return nil, "none"
}

type c04Case struct {
	Kind    int
	Reg     []string
	Ans     vAnswer
	Variant string // "", "no-voucher", "no-selector", "cid-mismatch", "other-type"
	NewMgr  bool   // restart kinds: a new manager on the same datastore (voucher type possibly not re-registered)
	// restart kinds: voucher type of a follow-up voucher the initiator sent on the channel before the restart ("" = none).
	// The restart must still be decided by the validator of the request's (= the channel's original) voucher type.
	FollowUp string
}

func (c c04Case) String() string {
	return fmt.Sprintf("%s reg=%v ans={%s} variant=%q newmgr=%v followup=%q", kindNames[c.Kind], c.Reg, c.Ans, c.Variant, c.NewMgr, c.FollowUp)
}

func c04One(x *mc.Cell, c c04Case) {
	isRestart := c.Kind >= kRestartPushNet
	pull := c.Kind == kNewPullTransport || c.Kind == kNewPullNet || c.Kind == kRestartPullTransport || c.Kind == kRestartPullNet
	viaTransport := c.Kind == kNewPullTransport || c.Kind == kRestartPullTransport
	setup := Opts{Types: c.Reg}
	if isRestart && c.NewMgr {
		setup.Types = []string{"T", "U"}
	}
	if isRestart && !c.NewMgr && !hasT(c.Reg) {
		return // an existing channel of type T cannot exist on a manager that never knew T
	}
	run(x, "C04", setup, c, func(n *Node) {
		// the bystander (our own push to C) exists first and the request under test carries ITS transfer id: B numbers
		// its transfers independently, the two channels differ in their peers only
		by, _ := bystander(n)
		tid := uint64(by.ID)
		chid := datatransfer.ChannelID{Initiator: doubles.PeerB, Responder: doubles.PeerA, ID: by.ID}
		voucher := doubles.Voucher("T", "v")
		if isRestart {
			// create the channel by a validated new request first
			n.Val["T"].Answer = func(int, doubles.VCall) (datatransfer.ValidationResult, error) {
				return datatransfer.ValidationResult{Accepted: true}, nil
			}
			if pull {
				if _, err := n.H().OnRequestReceived(chid, NewReq(tid, false, true, &voucher)); err != nil {
					panic(err)
				}
			} else {
				n.RecvRequest(doubles.PeerB, NewReq(tid, false, false, &voucher))
			}
			mc.Wait()
			_ = n.H().OnTransferInitiated
			if c.FollowUp != "" {
				fv := doubles.Voucher(c.FollowUp, "follow-up")
				vr, err := message.VoucherRequest(chid.ID, &fv)
				if err != nil {
					panic(err)
				}
				n.RecvRequest(doubles.PeerB, vr)
			}
			if c.NewMgr {
				img := n.DS.Image()
				n.Stop()
				n2, err := NewNode(Opts{DS: doubles.NewRecDSFrom(img), Types: c.Reg})
				if err != nil {
					panic(err)
				}
				defer n2.Stop()
				n = n2
			}
		}
		byDigest := digestOf(n, by)
		for _, t := range c.Reg {
			ans := c.Ans
			t := t
			n.Val[t].Answer = func(int, doubles.VCall) (datatransfer.ValidationResult, error) {
				if t != "T" {
					return datatransfer.ValidationResult{Accepted: true}, nil // a wrong validator that would accept
				}
				return ans.result()
			}
		}
		before, _ := n.Mgr.InProgressChannels(context.Background())
		_, existed := before[chid]
		vptr := &voucher
		var rq datatransfer.Request
		switch c.Variant {
		case "no-voucher":
			rq = NewReq(tid, isRestart, pull, nil)
		case "no-selector":
			r, err := message.NewRequest(datatransfer.TransferID(tid), isRestart, pull, vptr, doubles.Cid("root"), nil)
			if err != nil {
				return
			}
			rq = r
		case "cid-mismatch":
			r, _ := message.NewRequest(datatransfer.TransferID(tid), isRestart, pull, vptr, doubles.Cid("another-root"), doubles.AllSelector())
			rq = r
		case "other-voucher":
			ov := doubles.Voucher("T", "different")
			rq = NewReq(tid, isRestart, pull, &ov)
		default:
			rq = NewReq(tid, isRestart, pull, vptr)
		}
		mk := n.Mark()
		var returned datatransfer.Response
		var retErr error
		if viaTransport {
			returned, retErr = n.H().OnRequestReceived(chid, doubles.Recode(rq).(datatransfer.Request))
			mc.Wait()
		} else {
			n.RecvRequest(doubles.PeerB, rq)
		}
		d := n.Since(mk)
		after, _ := n.Mgr.InProgressChannels(context.Background())
		st, exists := after[chid]
		reply, via := replyOf(c.Kind, d, returned)
		tCalls := len(d.VCalls["T"])
		uCalls := len(d.VCalls["U"])
		wellFormed := c.Variant == ""
		legit := hasT(c.Reg) && tCalls == 1 && c.Ans.Accepted && !c.Ans.Err && wellFormed
		shouldValidate := hasT(c.Reg) && wellFormed
		ctx := fmt.Sprintf("%s\n  %s", c, d)
		sig := func(s string) string {
			fu := ""
			if c.FollowUp != "" {
				fu = ";followup=" + c.FollowUp
			}
			return fmt.Sprintf("%s;kind=%s;variant=%s;reg=%s;acc=%v;err=%v%s", s, kindNames[c.Kind], c.Variant, strings.Join(c.Reg, "+"), c.Ans.Accepted, c.Ans.Err, fu)
		}
		x.Outcome(fmt.Sprintf("%v|%v|%s|%v", legit, exists, via, retErr))
		if shouldValidate {
			x.Premise++
		}
		if uCalls != 0 {
			x.Violate("C04", sig("wrong-validator-consulted"), "a validator registered for another voucher type was consulted: "+ctx, c)
		}
		if shouldValidate && tCalls != 1 {
			x.Violate("C04", sig(fmt.Sprintf("validator-calls=%d", tCalls)), "the registered validator must be consulted exactly once: "+ctx, c)
		}
		if reply == nil {
			x.Violate("C04", sig("no-reply"), "no reply was produced: "+ctx, c)
			return
		}
		if reply.Accepted() != legit {
			x.Violate("C04", sig(fmt.Sprintf("reply-accepted=%v;legit=%v", reply.Accepted(), legit)), "reply acceptance does not match validation: "+ctx, c)
		}
		opened := false
		closed := false
		for _, tc := range d.TCalls {
			if tc.Op == "open" && tc.Chid == chid {
				opened = true
			}
			if tc.Op == "close" && tc.Chid == chid {
				closed = true
			}
		}
		if !isRestart {
			if exists != legit {
				x.Violate("C04", sig(fmt.Sprintf("channel-created=%v;legit=%v", exists, legit)), "channel state exists iff the request was validated and accepted: "+ctx, c)
			}
			if !pull && opened != legit {
				x.Violate("C04", sig(fmt.Sprintf("transport-opened=%v;legit=%v", opened, legit)), "transport channel opened iff validated: "+ctx, c)
			}
		} else {
			if !existed {
				panic("restart case without an existing channel")
			}
			if !exists {
				x.Violate("C04", sig("channel-vanished"), ctx, c)
				return
			}
			if !pull && opened != legit {
				x.Violate("C04", sig(fmt.Sprintf("transport-opened=%v;legit=%v", opened, legit)), "transport channel (re)opened iff revalidated: "+ctx, c)
			}
			if !legit {
				// not accepted: transport channel closed (network path) / error returned (transport path)
				if viaTransport {
					if retErr == nil || retErr == datatransfer.ErrPause {
						x.Violate("C04", sig("transport-not-told-to-terminate"), "a refused restart must return an error to the transport: "+ctx, c)
					}
				} else if !closed {
					x.Violate("C04", sig("transport-not-closed"), "a refused restart must close the transport channel: "+ctx, c)
				}
				// a *rejection* (no error) fails the channel
				if hasT(c.Reg) && wellFormed && !c.Ans.Err && !c.Ans.Accepted {
					if st.Status() != datatransfer.Failed {
						x.Violate("C04", sig("rejected-restart-not-failed;status="+datatransfer.Statuses[st.Status()]), "a rejected revalidation must fail the channel: "+ctx, c)
					}
				}
			}
		}
		if legit {
			if got, want := respRes(reply), wantRes(c.Ans); got != want {
				x.Violate("C04", sig("reply-voucher-result"), fmt.Sprintf("reply carries %s, validator returned %s: %s", got, want, ctx), c)
			}
			wantPaused := c.Ans.Force
			if isRestart {
				wantPaused = c.Ans.Force || (c.Ans.Limit != 0 && false)
			}
			if reply.IsPaused() != wantPaused {
				x.Violate("C04", sig(fmt.Sprintf("reply-paused=%v;want=%v", reply.IsPaused(), wantPaused)), "reply pause decision differs from the validator's: "+ctx, c)
			}
			if st.DataLimit() != c.Ans.Limit || st.RequiresFinalization() != c.Ans.Fin {
				x.Violate("C04", sig("limit-or-finalization-not-recorded"), fmt.Sprintf("channel has limit=%d fin=%v: %s", st.DataLimit(), st.RequiresFinalization(), ctx), c)
			}
			if viaTransport {
				wantErr := error(nil)
				if wantPaused {
					wantErr = datatransfer.ErrPause
				}
				if retErr != wantErr {
					x.Violate("C04", sig(fmt.Sprintf("transport-signal=%v", retErr)), "accepted request must return nil or the pause signal: "+ctx, c)
				}
			}
		}
		if dg := digestOf(n, by); dg != byDigest {
			x.Violate("C04", sig("bystander-channel-changed"), "an unrelated channel's durable state changed: "+ctx, c)
		}
	})
}

func c04Cells(x *mc.Cell, kinds []int, full bool) {
	for _, k := range kinds {
		for _, reg := range registries {
			for _, a := range allAnswers() {
				variants := []string{""}
				if full || (a.Accepted && !a.Err && a.Res == 0 && !a.Force && a.Limit == 0 && !a.Fin) {
					variants = []string{"", "no-voucher", "no-selector", "cid-mismatch", "other-voucher"}
				}
				for _, v := range variants {
					if k < kRestartPushNet && (v == "cid-mismatch" || v == "other-voucher") {
						continue
					}
					if k >= kRestartPushNet && v == "no-selector" {
						continue // a restart is checked against base CID, voucher type and voucher only (C05); its selector is unspecified
					}
					newMgrs := []bool{false}
					if k >= kRestartPushNet {
						newMgrs = []bool{false, true}
					}
					followUps := []string{""}
					if k >= kRestartPushNet && v == "" {
						followUps = []string{"", "U", "T"}
					}
					for _, nm := range newMgrs {
						for _, fu := range followUps {
							if x.TimeUp() {
								x.Cap("c04: time cap")
								return
							}
							cs := c04Case{Kind: k, Reg: reg, Ans: a, Variant: v, NewMgr: nm, FollowUp: fu}
							x.Sample(cs.String())
							c04One(x, cs)
						}
					}
				}
			}
		}
	}
}

func init() {
	for k := kNewPushNet; k <= kRestartPullNet; k++ {
		k := k
		mc.Register("C04", "requests/"+kindNames[k], "quick", func(x *mc.Cell) { c04Cells(x, []int{k}, false) })
		mc.Register("C04", "requests-full/"+kindNames[k], "thorough", func(x *mc.Cell) { c04Cells(x, []int{k}, true) })
	}
}

var _ = dtimpl.NewDataTransfer
