package l2node

import (
	"context"
	"fmt"

	datatransfer "github.com/filecoin-project/go-data-transfer/v2"
	"github.com/filecoin-project/go-data-transfer/v2/message"

	"verif/doubles"
	"verif/mc"
	"verif/views"
)

// identity is the part of a channel that a restart must never alter.
func identity(v views.Vec) string {
	return fmt.Sprintf("chid=%s self=%s other=%s snd=%s rcp=%s cid=%s sel=%s v0=%s q=%d s=%d r=%d qi=%d si=%d ri=%d",
		doubles.ChidName(v.Chid), doubles.PeerName(v.Self), doubles.PeerName(v.Other), doubles.PeerName(v.Sender), doubles.PeerName(v.Rcpt), v.BaseCid, doubles.Hash8(v.Selector),
		firstOf(v.Vouchers), v.Queued, v.Sent, v.Received, v.QIdx, v.SIdx, v.RIdx)
}

func firstOf(list string) string {
	for i := 1; i < len(list); i++ {
		if list[i] == ',' || list[i] == ']' {
			return list[1:i]
		}
	}
	return list
}

func sanityState(n *Node, r Role, state string, chid datatransfer.ChannelID) views.Vec {
	v, err := n.Vec(chid)
	if err != nil {
		panic(err)
	}
	if want := ExpectStatus(r, state); v.Status != want {
		panic(fmt.Sprintf("harness driver: role %s state %s reached %s, expected %s", RoleNames[r], state, datatransfer.Statuses[v.Status], datatransfer.Statuses[want]))
	}
	return v
}

// c10Local: RestartDataTransferChannel issued locally in every state.
func c10Local(x *mc.Cell, r Role) {
	answers := []string{"accept"}
	if !r.Created() {
		answers = []string{"accept", "reject", "error"}
	}
	for _, state := range StatesFor(r) {
		for _, ans := range answers {
			for _, newMgr := range []bool{false, true} {
				state, ans, newMgr := state, ans, newMgr
				rep := map[string]any{"role": RoleNames[r], "state": state, "answer": ans, "new_manager": newMgr}
				run(x, "C10", Opts{Types: []string{"T"}}, rep, func(n *Node) {
					chid := Setup(n, r, state)
					before := sanityState(n, r, state, chid)
					if newMgr {
						img := n.DS.Image()
						n.Stop()
						n2, err := NewNode(Opts{DS: doubles.NewRecDSFrom(img), Types: []string{"T"}})
						if err != nil {
							panic(err)
						}
						defer n2.Stop()
						n = n2
					}
					n.Val["T"].Answer = func(int, doubles.VCall) (datatransfer.ValidationResult, error) {
						switch ans {
						case "reject":
							return datatransfer.ValidationResult{Accepted: false}, nil
						case "error":
							return datatransfer.ValidationResult{}, fmt.Errorf("validator broke")
						}
						return datatransfer.ValidationResult{Accepted: true}, nil
					}
					all0, _ := n.Mgr.InProgressChannels(context.Background())
					mk := n.Mark()
					var rerr error
					hang, cr := mc.Call(func() { rerr = n.Mgr.RestartDataTransferChannel(context.Background(), chid) })
					if hang {
						x.Violate("C10", "local-restart;hang;state="+state, "RestartDataTransferChannel did not return", rep)
						x.Fatal = true
						return
					}
					if cr.Panic != nil {
						x.Violate("C10", "panic;site="+panicSite(cr.Stack)+";call=RestartDataTransferChannel", fmt.Sprintf("%v\n%s", cr.Panic, trimStack(cr.Stack)), rep)
						return
					}
					d := n.Since(mk)
					after, err := n.Vec(chid)
					if err != nil {
						x.Violate("C10", "local-restart;channel-lost", err.Error(), rep)
						return
					}
					all1, _ := n.Mgr.InProgressChannels(context.Background())
					x.Premise++
					ctx := fmt.Sprintf("role=%s state=%s answer=%s newmgr=%v err=%v\n  %s", RoleNames[r], state, ans, newMgr, rerr, d)
					sig := func(s string) string {
						return fmt.Sprintf("local-restart;%s;role=%s;state=%s;answer=%s", s, RoleNames[r], state, ans)
					}
					x.Outcome(fmt.Sprintf("%s|%s|%s|%v|%d|%d", RoleNames[r], state, ans, rerr != nil, len(d.Sends), len(d.TCalls)))
					if len(all0) != len(all1) {
						x.Violate("C10", sig("channel-count-changed"), ctx, rep)
					}
					if identity(before) != identity(after) {
						x.Violate("C10", sig("identity-or-progress-changed"), fmt.Sprintf("before: %s\nafter:  %s\n%s", identity(before), identity(after), ctx), rep)
					}
					var restartReqs []doubles.Sent
					var existingReqs []doubles.Sent
					for _, s := range d.Sends {
						if rq, ok := s.Msg.(datatransfer.Request); ok {
							if rq.IsRestart() {
								restartReqs = append(restartReqs, s)
							}
							if rq.IsRestartExistingChannelRequest() {
								existingReqs = append(existingReqs, s)
							}
						}
					}
					var opens []doubles.TCall
					for _, tc := range d.TCalls {
						if tc.Op == "open" {
							opens = append(opens, tc)
						}
					}
					if IsTerminalState(state) {
						if rerr != nil {
							x.Violate("C02", sig("restart-of-terminated-channel-errors"), ctx, rep)
						}
						if len(d.Sends) != 0 || len(d.TCalls) != 0 || len(d.Events) != 0 {
							x.Violate("C02", sig("restart-of-terminated-channel-has-effects"), ctx, rep)
						}
						return
					}
					switch r {
					case CreatedPush:
						if len(restartReqs) != 1 || len(opens) != 0 || len(existingReqs) != 0 {
							x.Violate("C10", sig(fmt.Sprintf("restart-requests=%d;opens=%d", len(restartReqs), len(opens))), "a created push channel re-issues exactly one restart request over the network: "+ctx, rep)
							return
						}
						checkRestartRequest(x, rep, sig, ctx, restartReqs[0].Msg.(datatransfer.Request), restartReqs[0].To, before, false)
					case CreatedPull:
						if len(opens) != 1 || len(restartReqs) != 0 || len(existingReqs) != 0 {
							x.Violate("C10", sig(fmt.Sprintf("restart-requests=%d;opens=%d", len(restartReqs), len(opens))), "a created pull channel re-opens the transport channel exactly once: "+ctx, rep)
							return
						}
						o := opens[0]
						rq, ok := o.Msg.(datatransfer.Request)
						if !ok || o.Chid != chid || o.Peer != doubles.PeerB {
							x.Violate("C10", sig("open-channel-arguments"), ctx, rep)
							return
						}
						if o.Channel == nil {
							x.Violate("C10", sig("open-channel-without-stored-state"), "the restart must hand the stored channel state to the transport (so that received blocks are skipped): "+ctx, rep)
						} else if o.Channel.ReceivedCidsTotal() != before.RIdx {
							x.Violate("C10", sig("open-channel-state-progress"), fmt.Sprintf("state handed to the transport has ReceivedCidsTotal=%d, channel has %d", o.Channel.ReceivedCidsTotal(), before.RIdx), rep)
						}
						checkRestartRequest(x, rep, sig, ctx, rq, o.Peer, before, true)
					default:
						vcalls := d.VCalls["T"]
						if len(vcalls) != 1 || vcalls[0].Kind != "restart" || vcalls[0].Chid != chid {
							x.Violate("C10", sig(fmt.Sprintf("validator-calls=%d", len(vcalls))), "a responder revalidates before asking the initiator to restart: "+ctx, rep)
						}
						if ans == "accept" {
							if rerr != nil || len(existingReqs) != 1 || len(restartReqs) != 0 || len(opens) != 0 {
								x.Violate("C10", sig(fmt.Sprintf("restart-existing-requests=%d;err=%v", len(existingReqs), rerr != nil)), "an accepted responder restart sends exactly one restart-existing-channel request: "+ctx, rep)
								return
							}
							rc, _ := existingReqs[0].Msg.(datatransfer.Request).RestartChannelId()
							if rc != chid || existingReqs[0].To != doubles.PeerB {
								x.Violate("C10", sig("restart-existing-wrong-target"), ctx, rep)
							}
							if len(vcalls) == 1 && vcalls[0].Seq > existingReqs[0].Seq {
								x.Violate("C10", sig("sent-before-revalidation"), ctx, rep)
							}
						} else {
							if rerr == nil {
								x.Violate("C10", sig("refused-restart-returned-nil"), ctx, rep)
							}
							if len(d.Sends) != 0 || len(opens) != 0 {
								x.Violate("C10", sig("refused-restart-sent-something"), ctx, rep)
							}
						}
					}
				})
			}
		}
	}
}

func checkRestartRequest(x *mc.Cell, rep any, sig func(string) string, ctx string, rq datatransfer.Request, to interface{ String() string }, before views.Vec, wantPull bool) {
	v, _ := rq.Voucher()
	sel, _ := rq.Selector()
	problems := ""
	if !rq.IsRestart() {
		problems += " not-marked-restart"
	}
	if rq.IsPull() != wantPull {
		problems += " wrong-direction"
	}
	if rq.TransferID() != before.TID {
		problems += " transfer-id"
	}
	if rq.BaseCid().String() != before.BaseCid {
		problems += " base-cid"
	}
	if fmt.Sprintf("%s:%s", rq.VoucherType(), doubles.NodeBytes(v)) != firstOf(before.Vouchers) {
		problems += " voucher"
	}
	if doubles.NodeBytes(sel) != before.Selector {
		problems += " selector"
	}
	if problems != "" {
		x.Violate("C10", sig("restart-request-differs-from-original:"+problems), fmt.Sprintf("re-issued request: %s\n%s", doubles.MsgSummary(rq), ctx), rep)
	}
}

// c10Incoming: a restart request / restart-existing request received from the peer in every state.
func c10Incoming(x *mc.Cell, r Role) {
	answers := []string{"accept"}
	if !r.Created() {
		answers = []string{"accept", "reject", "error"}
	}
	v := doubles.Voucher("T", "v")
	for _, state := range StatesFor(r) {
		for _, ans := range answers {
			for _, newMgr := range []bool{false, true} {
				state, ans, newMgr := state, ans, newMgr
				rep := map[string]any{"role": RoleNames[r], "state": state, "answer": ans, "new_manager": newMgr, "incoming": true}
				run(x, "C10", Opts{Types: []string{"T"}}, rep, func(n *Node) {
					chid := Setup(n, r, state)
					before := sanityState(n, r, state, chid)
					if newMgr {
						img := n.DS.Image()
						n.Stop()
						n2, err := NewNode(Opts{DS: doubles.NewRecDSFrom(img), Types: []string{"T"}})
						if err != nil {
							panic(err)
						}
						defer n2.Stop()
						n = n2
					}
					n.Val["T"].Answer = func(int, doubles.VCall) (datatransfer.ValidationResult, error) {
						switch ans {
						case "reject":
							return datatransfer.ValidationResult{Accepted: false}, nil
						case "error":
							return datatransfer.ValidationResult{}, fmt.Errorf("validator broke")
						}
						return datatransfer.ValidationResult{Accepted: true}, nil
					}
					all0, _ := n.Mgr.InProgressChannels(context.Background())
					mk := n.Mark()
					if r.Created() {
						n.RecvRequest(doubles.PeerB, message.RestartExistingChannelRequest(chid))
					} else if r == ReceivedPull {
						_, _ = n.H().OnRequestReceived(chid, doubles.Recode(NewReq(uint64(chid.ID), true, true, &v)).(datatransfer.Request))
						mc.Wait()
					} else {
						n.RecvRequest(doubles.PeerB, NewReq(uint64(chid.ID), true, false, &v))
					}
					d := n.Since(mk)
					after, err := n.Vec(chid)
					if err != nil {
						x.Violate("C10", "incoming-restart;channel-lost", err.Error(), rep)
						return
					}
					all1, _ := n.Mgr.InProgressChannels(context.Background())
					x.Premise++
					ctx := fmt.Sprintf("role=%s state=%s answer=%s newmgr=%v\n  %s", RoleNames[r], state, ans, newMgr, d)
					sig := func(s string) string {
						return fmt.Sprintf("incoming-restart;%s;role=%s;state=%s;answer=%s", s, RoleNames[r], state, ans)
					}
					x.Outcome(fmt.Sprintf("in|%s|%s|%s|%d|%d|%s", RoleNames[r], state, ans, len(d.Sends), len(d.TCalls), datatransfer.Statuses[after.Status]))
					if len(all0) != len(all1) {
						x.Violate("C10", sig("channel-count-changed"), ctx, rep)
					}
					if identity(before) != identity(after) {
						x.Violate("C10", sig("identity-or-progress-changed"), fmt.Sprintf("before: %s\nafter:  %s\n%s", identity(before), identity(after), ctx), rep)
					}
					if IsTerminalState(state) {
						if before.String() != after.String() || len(d.Events) != 0 {
							x.Violate("C02", sig("terminated-channel-changed"), ctx, rep)
						}
						for _, tc := range d.TCalls {
							if tc.Op == "open" {
								x.Violate("C02", sig("terminated-channel-reopened"), ctx, rep)
							}
						}
						if !r.Created() {
							if rp, _ := replyOf(0, d, nil); rp != nil && rp.Accepted() {
								x.Violate("C02", sig("restart-of-terminated-channel-accepted"), ctx, rep)
							}
						} else {
							for _, s := range d.Sends {
								if rq, ok := s.Msg.(datatransfer.Request); ok && rq.IsRestart() {
									x.Violate("C02", sig("terminated-channel-reissued"), ctx, rep)
								}
							}
						}
						return
					}
					if r.Created() {
						return // honoured-ness of restart-existing is C05; identity was checked above
					}
					// responder: revalidated before Restart is recorded
					var vseq, rseq int64 = -1, -1
					for _, vc := range d.VCalls["T"] {
						if vc.Kind == "restart" && vc.Chid == chid {
							vseq = vc.Seq
						}
					}
					for _, e := range d.Events {
						if e.Code == datatransfer.Restart && e.Chid == chid {
							rseq = e.Seq
						}
					}
					switch ans {
					case "accept":
						if vseq < 0 || rseq < 0 || vseq > rseq {
							x.Violate("C10", sig(fmt.Sprintf("revalidation-order;validated=%v;restart-recorded=%v", vseq >= 0, rseq >= 0)), "an incoming restart is revalidated before Restart is recorded: "+ctx, rep)
						}
					case "reject":
						if rseq >= 0 {
							x.Violate("C10", sig("rejected-restart-recorded"), ctx, rep)
						}
						if after.Status != datatransfer.Failed {
							x.Violate("C10", sig("rejected-restart-not-failed;status="+datatransfer.Statuses[after.Status]), "a rejected restart fails the channel: "+ctx, rep)
						}
					case "error":
						if rseq >= 0 {
							x.Violate("C10", sig("errored-restart-recorded"), ctx, rep)
						}
					}
				})
			}
		}
	}
}

// c10Cleanup: a channel persisted while cleaning up only finishes the cleanup when restarted (also C06 d).
func c10Cleanup(x *mc.Cell, r Role) {
	for _, ending := range []string{"cancel", "error", "complete"} {
		ending := ending
		rep := map[string]any{"role": RoleNames[r], "ending": ending, "cleanup-restart": true}
		run(x, "C10", Opts{Types: []string{"T"}}, rep, func(n *Node) {
			chid := Setup(n, r, "ongoing")
			// park the cleanup inside the transport so the process "dies" in the cleanup status
			gate := make(chan struct{})
			released := false
			release := func() {
				if !released {
					released = true
					close(gate)
				}
			}
			defer release()
			n.Tr.Fail = func(c doubles.TCall) error {
				if c.Op == "cleanup" {
					<-gate
				}
				return nil
			}
			h := n.H()
			switch ending {
			case "cancel":
				call := mc.Go(func() { _ = n.Mgr.CloseDataTransferChannel(context.Background(), chid) })
				mc.Wait()
				_ = call
			case "error":
				_ = h.OnChannelCompleted(chid, errTransfer)
			case "complete":
				if r.Created() {
					_ = h.OnChannelCompleted(chid, nil)
					mc.Wait()
					n.RecvResponse(doubles.PeerB, mustResp(message.CompleteResponse(chid.ID, true, false, nil)))
				} else {
					_ = h.OnChannelCompleted(chid, nil)
				}
			}
			mc.Wait()
			img := n.DS.Image()
			release()
			mc.Wait()
			n2, err := NewNode(Opts{DS: doubles.NewRecDSFrom(img), Types: []string{"T"}})
			if err != nil {
				panic(err)
			}
			defer n2.Stop()
			v0, err := n2.Vec(chid)
			if err != nil {
				panic(err)
			}
			want := map[string]datatransfer.Status{"cancel": datatransfer.Cancelling, "error": datatransfer.Failing, "complete": datatransfer.Completing}[ending]
			if v0.Status != want {
				// the image was not taken in the cleanup status (then nothing to check here)
				x.Outcome("image-status=" + datatransfer.Statuses[v0.Status])
				x.Note("cleanup_image_not_in_cleanup_status", 1)
				return
			}
			x.Premise++
			mk := n2.Mark()
			rerr := n2.Mgr.RestartDataTransferChannel(context.Background(), chid)
			mc.Wait()
			d := n2.Since(mk)
			after, _ := n2.Vec(chid)
			ctx := fmt.Sprintf("role=%s ending=%s err=%v\n  %s", RoleNames[r], ending, rerr, d)
			wantT := map[string]datatransfer.Status{"cancel": datatransfer.Cancelled, "error": datatransfer.Failed, "complete": datatransfer.Completed}[ending]
			cleanups := 0
			for _, tc := range d.TCalls {
				if tc.Op == "cleanup" && tc.Chid == chid {
					cleanups++
				}
				if tc.Op == "open" {
					x.Violate("C10", "cleanup-restart;reopened;ending="+ending, ctx, rep)
				}
			}
			x.Outcome(fmt.Sprintf("cleanup|%s|%s|%s|%d", RoleNames[r], ending, datatransfer.Statuses[after.Status], cleanups))
			if after.Status != wantT || cleanups != 1 {
				x.Violate("C06", fmt.Sprintf("cleanup-restart;ending=%s;status=%s;cleanups=%d", ending, datatransfer.Statuses[after.Status], cleanups), "a channel persisted while cleaning up must finish cleanup when restarted: "+ctx, rep)
				x.Violate("C10", fmt.Sprintf("cleanup-restart;ending=%s;status=%s;cleanups=%d", ending, datatransfer.Statuses[after.Status], cleanups), "a channel persisted while cleaning up must finish cleanup when restarted: "+ctx, rep)
				// C09: the ending that was entered before the process died still gets its one cleanup and settles
				x.Violate("C09", fmt.Sprintf("cleanup-restart;ending=%s;status=%s;cleanups=%d", ending, datatransfer.Statuses[after.Status], cleanups), "an ending entered before the process died is cleaned up exactly once and settles when the channel is restarted: "+ctx, rep)
			}
			if len(d.Sends) != 0 {
				x.Violate("C10", "cleanup-restart;sent-something;ending="+ending, ctx, rep)
			}
		})
	}
}

func init() {
	for r := CreatedPush; r <= ReceivedPull; r++ {
		r := r
		mc.Register("C10", "local-restart/"+RoleNames[r], "both", func(x *mc.Cell) { c10Local(x, r) })
		mc.Register("C10", "incoming-restart/"+RoleNames[r], "both", func(x *mc.Cell) { c10Incoming(x, r) })
		mc.Register("C10", "cleanup-restart/"+RoleNames[r], "both", func(x *mc.Cell) { c10Cleanup(x, r) })
		mc.Register("C06", "l2-cleanup-restart/"+RoleNames[r], "both", func(x *mc.Cell) { c10Cleanup(x, r) })
		mc.Register("C09", "l2-cleanup-restart/"+RoleNames[r], "both", func(x *mc.Cell) { c10Cleanup(x, r) })
		mc.Register("C02", "l2-restart-terminated/"+RoleNames[r], "both", func(x *mc.Cell) { c10Local(x, r); c10Incoming(x, r) })
	}
}

// c10ReplayThenRestart: the receiving side restarts, the restarted transport request re-reports blocks the node
// already holds (non-unique, lower positions), and the channel is restarted again (optionally on a new manager
// over the same store). Oracle: the recorded progress (received block index and bytes) is the same after every
// step, and the second restart hands the transport a channel state that still records all blocks received -
// so the sender is told to skip exactly that many.
func c10ReplayThenRestart(x *mc.Cell) {
	for _, r := range []Role{CreatedPull, ReceivedPush} {
		for _, newMgr := range []bool{false, true} {
			r, newMgr := r, newMgr
			rep := map[string]any{"role": RoleNames[r], "new-manager-before-second-restart": newMgr}
			run(x, "C10", Opts{Types: []string{"T"}}, rep, func(n *Node) {
				chid := Setup(n, r, "ongoing-data") // two blocks received: index 2, 30 bytes
				v0, _ := n.Vec(chid)
				restart := func(n *Node) {
					if r.Created() {
						_ = n.Mgr.RestartDataTransferChannel(context.Background(), chid)
						mc.Wait()
					} else {
						v := doubles.Voucher("T", "v")
						n.RecvRequest(doubles.PeerB, NewReq(uint64(chid.ID), true, false, &v))
					}
				}
				check := func(n *Node, step string) bool {
					v, err := n.Vec(chid)
					if err != nil {
						panic(err)
					}
					if v.RIdx != v0.RIdx || v.Received != v0.Received {
						x.Violate("C10", fmt.Sprintf("replay-then-restart;recorded-progress-altered;step=%s;role=%s", step, RoleNames[r]),
							fmt.Sprintf("after %s the channel records index %d / %d bytes received, before the restarts it recorded %d / %d", step, v.RIdx, v.Received, v0.RIdx, v0.Received), rep)
						return false
					}
					return true
				}
				restart(n)
				if !check(n, "the first restart") {
					return
				}
				_ = n.H().OnDataReceived(chid, Root(), 10, 1, false)
				mc.Wait()
				if !check(n, "the replay of block 1") {
					return
				}
				if newMgr {
					img := n.DS.Image()
					n.Stop()
					n2, err := NewNode(Opts{DS: doubles.NewRecDSFrom(img), Types: []string{"T"}})
					if err != nil {
						panic(err)
					}
					defer n2.Stop()
					n = n2
				}
				mk := n.Mark()
				restart(n)
				d := n.Since(mk)
				x.Premise++
				if !check(n, "the second restart") {
					return
				}
				for _, tc := range d.TCalls {
					if tc.Op == "open" && tc.Chid == chid && tc.Channel != nil && tc.Channel.ReceivedCidsTotal() != v0.RIdx {
						x.Violate("C10", fmt.Sprintf("replay-then-restart;skip-count;role=%s", RoleNames[r]), fmt.Sprintf("the second restart opens the transport with a channel state that records %d blocks received, the channel had recorded %d", tc.Channel.ReceivedCidsTotal(), v0.RIdx), rep)
					}
				}
				x.Outcome(fmt.Sprintf("%s|%v", RoleNames[r], newMgr))
			})
		}
	}
}

func init() {
	mc.Register("C10", "replay-then-second-restart", "both", c10ReplayThenRestart)
}
