package l2node

import (
	"testing"

	"verif/mc"
)

func TestCheck(t *testing.T) { mc.Main(t, "l2node") }
