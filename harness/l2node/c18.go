package l2node

import (
	"fmt"

	datatransfer "github.com/filecoin-project/go-data-transfer/v2"

	"verif/doubles"
	"verif/mc"
)

// c18Duplicate: a new (non-restart) request that names an existing channel - a resend or replay by the
// initiator - must be refused and must leave the existing channel exactly as it was: accessor vector, persisted
// bytes, no event for the channel. Explored for both directions, both delivery paths and every state the
// driver can put a received channel into; the duplicate carries the original or a different voucher and each
// validator answer class.
func c18Duplicate(x *mc.Cell, pull bool) {
	role := ReceivedPush
	if pull {
		role = ReceivedPull
	}
	for _, state := range StatesFor(role) {
		for _, viaTransport := range []bool{false, true} {
			if viaTransport && !pull {
				continue // a push request only arrives over the network
			}
			for _, sameVoucher := range []bool{true, false} {
				for _, accept := range []bool{true, false} {
					state, viaTransport, sameVoucher, accept := state, viaTransport, sameVoucher, accept
					rep := map[string]any{"pull": pull, "state": state, "via-transport": viaTransport, "same-voucher": sameVoucher, "validator-accepts": accept}
					run(x, "C18", Opts{Types: []string{"T"}}, rep, func(n *Node) {
						chid := Setup(n, role, state)
						n.Val["T"].Answer = func(int, doubles.VCall) (datatransfer.ValidationResult, error) {
							return datatransfer.ValidationResult{Accepted: accept}, nil
						}
						before, err := n.Vec(chid)
						if err != nil {
							panic(err)
						}
						digest := digestOf(n, chid)
						v := doubles.Voucher("T", "v")
						if !sameVoucher {
							v = doubles.Voucher("T", "another")
						}
						rq := NewReq(uint64(chid.ID), false, pull, &v)
						mk := n.Mark()
						var returned datatransfer.Response
						var retErr error
						if viaTransport {
							returned, retErr = n.H().OnRequestReceived(chid, doubles.Recode(rq).(datatransfer.Request))
							mc.Wait()
						} else {
							n.RecvRequest(doubles.PeerB, rq)
						}
						d := n.Since(mk)
						after, err := n.Vec(chid)
						ctx := fmt.Sprintf("pull=%v state=%s via-transport=%v same-voucher=%v validator-accepts=%v\n  %s", pull, state, viaTransport, sameVoucher, accept, d)
						sig := func(s string) string {
							return fmt.Sprintf("L2;duplicate-new-request;%s;pull=%v;state=%s", s, pull, state)
						}
						x.Premise++
						x.Outcome(fmt.Sprintf("%s|%v|%v", state, retErr, after.String() == before.String()))
						if err != nil {
							x.Violate("C18", sig("channel-vanished"), ctx, rep)
							return
						}
						if after.String() != before.String() {
							x.Violate("C18", sig("existing-channel-changed"), fmt.Sprintf("before %s\nafter  %s\n%s", before, after, ctx), rep)
						}
						if dg := digestOf(n, chid); dg != digest {
							x.Violate("C18", sig("existing-channel-persisted-bytes-changed"), ctx, rep)
						}
						for _, e := range d.Events {
							if e.Chid == chid {
								x.Violate("C18", sig("event-on-existing-channel;event="+datatransfer.Events[e.Code]), ctx, rep)
								break
							}
						}
						// refused: no accepting reply
						reply, _ := replyOf(kNewPushNet, d, returned)
						if reply != nil && reply.Accepted() {
							x.Violate("C18", sig("duplicate-accepted"), ctx, rep)
						}
						if viaTransport && (retErr == nil || retErr == datatransfer.ErrPause) {
							x.Violate("C18", sig("duplicate-not-refused-to-transport"), ctx, rep)
						}
					})
				}
			}
		}
	}
}

func init() {
	mc.Register("C18", "duplicate-incoming-request/push", "both", func(x *mc.Cell) { c18Duplicate(x, false) })
	mc.Register("C18", "duplicate-incoming-request/pull", "both", func(x *mc.Cell) { c18Duplicate(x, true) })
}
