package l2node

import (
	"context"
	"fmt"

	"github.com/libp2p/go-libp2p/core/peer"

	datatransfer "github.com/filecoin-project/go-data-transfer/v2"
	"github.com/filecoin-project/go-data-transfer/v2/message"

	"verif/doubles"
	"verif/mc"
)

// c08 explores block reports, validation updates and process restarts on a
// responder channel with a data limit, against a two-integer reference.
func c08(x *mc.Cell, pull bool, limit uint64, k, depth, maxDev int) {
	var sizeSeqs [][]uint64
	var gen func(cur []uint64)
	gen = func(cur []uint64) {
		if len(cur) == k {
			sizeSeqs = append(sizeSeqs, append([]uint64(nil), cur...))
			return
		}
		for _, s := range []uint64{1, 2, 3} {
			gen(append(cur, s))
		}
	}
	gen(nil)
	for _, sizes := range sizeSeqs {
		sizes := sizes
		name := fmt.Sprintf("c08/pull=%v/L=%d/sizes=%v", pull, limit, sizes)
		x.Enumerate(name, mc.EnumOpts{MaxDeviations: maxDev}, func(c *mc.Chooser) mc.Exec {
			var ex mc.Exec
			log := []string{}
			x.Executions-- // run() counts too
			run(x, "C08", Opts{Types: []string{"T"}}, mc.EnumReplay(name, c), func(n *Node) {
				chid := mkReceived(n, pull, 7, datatransfer.ValidationResult{Accepted: true, DataLimit: limit})
				n.H().OnTransferInitiated(chid)
				mc.Wait()
				var t uint64
				l := limit
				idx := 0
				rep := func() any { return mc.EnumReplay(name, c) }
				viol := func(sig, msg string) {
					x.Violate("C08", fmt.Sprintf("%s;pull=%v", sig, pull), fmt.Sprintf("pull=%v initial-limit=%d sizes=%v ops=%v: %s", pull, limit, sizes, log, msg), rep())
				}
				for step := 0; step < depth; step++ {
					ch := c.Choose(10, fmt.Sprintf("op%d", step))
					st0, err := n.Vec(chid)
					if err != nil {
						panic(err)
					}
					if st0.Status == datatransfer.Failed || st0.Status == datatransfer.Completed || st0.Status == datatransfer.Cancelled {
						break
					}
					switch {
					case ch == 0 || ch == 9: // report next block (9: while the network cannot deliver the responder's messages)
						failing := ch == 9
						if failing && pull {
							continue // a pull responder's pause notice travels with the transport, not over the network
						}
						if idx == len(sizes) {
							step = depth
							continue
						}
						if failing {
							n.Net.FailSend = func(int, peer.ID, datatransfer.Message) error { return doubles.ErrSend }
						}
						size := sizes[idx]
						idx++
						tBefore := t
						t += size
						mk := n.Mark()
						var sig error
						var msg datatransfer.Message
						if pull {
							msg, sig = n.H().OnDataQueued(chid, Root(), size, int64(idx), true)
						} else {
							sig = n.H().OnDataReceived(chid, Root(), size, int64(idx), true)
						}
						mc.Wait()
						n.Net.FailSend = nil
						d := n.Since(mk)
						after, _ := n.Vec(chid)
						log = append(log, fmt.Sprintf("report#%d(size %d,send-fails=%v)->%v", idx, size, failing, sig))
						paused := sig == datatransfer.ErrPause
						if failing {
							// the pause notice cannot be sent: the report may return the send error instead of the pause signal,
							// but it must not tell the transport to carry on
							paused = sig != nil
						}
						if sig != nil && !paused {
							viol("report-error", fmt.Sprintf("block report returned %v", sig))
						}
						got := after.Received
						if pull {
							got = after.Queued
						}
						if got != t {
							viol("progress-mismatch", fmt.Sprintf("limited total is %d, reference %d", got, t))
						}
						crossing := l != 0 && tBefore < l && t >= l
						below := l == 0 || t < l
						exceeded := false
						for _, e := range d.Events {
							if e.Code == datatransfer.DataLimitExceeded && e.Chid == chid {
								exceeded = true
							}
						}
						notified := false
						wrongPeer := false
						if pull {
							if r, ok := msg.(datatransfer.Response); ok && r != nil && r.IsUpdate() && r.IsPaused() && r.TransferID() == chid.ID {
								notified = true
							}
						}
						for _, s := range d.Sends {
							if r, ok := s.Msg.(datatransfer.Response); ok && r.IsUpdate() && r.IsPaused() && r.TransferID() == chid.ID {
								if s.To == chid.Initiator {
									notified = true
								} else {
									wrongPeer = true
								}
							}
						}
						if crossing {
							ex.Premise = true
							if !paused {
								viol("crossing-without-pause-signal", fmt.Sprintf("report bringing the total from %d to %d (limit %d) did not return the pause signal", tBefore, t, l))
							}
							if !exceeded {
								viol("crossing-without-DataLimitExceeded", fmt.Sprintf("total %d -> %d, limit %d: %s", tBefore, t, l, d))
							}
							if !after.RPaused {
								viol("crossing-responder-not-paused", fmt.Sprintf("total %d -> %d, limit %d", tBefore, t, l))
							}
							if !notified && !failing {
								viol(fmt.Sprintf("crossing-initiator-not-told;wrong-peer=%v", wrongPeer), fmt.Sprintf("total %d -> %d, limit %d: %s", tBefore, t, l, d))
							}
						}
						if l != 0 && tBefore >= l && st0.RPaused {
							// the channel is paused at its limit and no sufficient update has arrived (also after a process
							// restart): "no further payload progresses" - the report must keep returning the pause signal
							ex.Premise = true
							if !paused {
								viol("report-while-over-limit-not-paused", fmt.Sprintf("channel paused at its limit (progress %d, limit %d): a further report (total now %d) did not return the pause signal", tBefore, l, t))
							}
						}
						if below {
							if paused || exceeded {
								viol("pause-below-limit", fmt.Sprintf("report with total %d below limit %d returned pause=%v exceeded=%v", t, l, paused, exceeded))
							}
						}
					case ch >= 1 && ch <= 5: // accepting validation update with a new limit
						var nl uint64
						switch ch {
						case 1:
							nl = 0
						case 2:
							if t < 2 {
								continue
							}
							nl = t - 1
						case 3:
							if t == 0 {
								continue
							}
							nl = t
						case 4:
							nl = t + 1
						case 5:
							nl = t + 3
						}
						wasPaused := st0.RPaused
						mk := n.Mark()
						uerr := n.Mgr.UpdateValidationStatus(context.Background(), chid, datatransfer.ValidationResult{Accepted: true, DataLimit: nl})
						mc.Wait()
						d := n.Since(mk)
						after, _ := n.Vec(chid)
						log = append(log, fmt.Sprintf("accept(limit %d)@t=%d", nl, t))
						l = nl
						if uerr != nil {
							viol("accepting-update-error", uerr.Error())
						}
						if after.Limit != nl {
							viol("limit-not-recorded", fmt.Sprintf("DataLimit()=%d after update to %d", after.Limit, nl))
						}
						resumed := false
						var reply datatransfer.Response
						for _, tc := range d.TCalls {
							if tc.Op == "resume" && tc.Chid == chid {
								resumed = true
								if r, ok := tc.Msg.(datatransfer.Response); ok {
									reply = r
								}
							}
						}
						for _, s := range d.Sends {
							if r, ok := s.Msg.(datatransfer.Response); ok && !r.IsUpdate() && s.To == chid.Initiator {
								reply = r
							}
						}
						shouldResume := nl == 0 || nl > t
						if wasPaused {
							ex.Premise = true
							if resumed != shouldResume {
								viol(fmt.Sprintf("resume-rule;resumed=%v;want=%v;newlimit-vs-progress=%s", resumed, shouldResume, cmp3(nl, t)), fmt.Sprintf("paused channel, progress %d, new limit %d: %s", t, nl, d))
							}
							if after.RPaused == shouldResume {
								viol(fmt.Sprintf("pause-flag-after-update;paused=%v;want=%v", after.RPaused, !shouldResume), fmt.Sprintf("progress %d, new limit %d", t, nl))
							}
							if reply == nil {
								viol("update-without-reply", d.String())
							} else if reply.IsPaused() == shouldResume || !reply.Accepted() {
								viol("reply-pause-flag", fmt.Sprintf("reply paused=%v accepted=%v, progress %d new limit %d", reply.IsPaused(), reply.Accepted(), t, nl))
								// C04: the accepted reply carries exactly the pause decision that follows from the validator's result
								x.Violate("C04", fmt.Sprintf("revalidation-reply-pause-decision;paused=%v;accepted=%v;newlimit-vs-progress=%s;pull=%v", reply.IsPaused(), reply.Accepted(), cmp3(nl, t), pull),
									fmt.Sprintf("pull=%v sizes=%v ops=%v: channel paused at its limit (progress %d); the validator accepts with limit %d; the reply says paused=%v accepted=%v", pull, sizes, log, t, nl, reply.IsPaused(), reply.Accepted()), rep())
							}
						}
					case ch == 6: // rejecting update
						mk := n.Mark()
						_ = n.Mgr.UpdateValidationStatus(context.Background(), chid, datatransfer.ValidationResult{Accepted: false})
						mc.Wait()
						d := n.Since(mk)
						after, _ := n.Vec(chid)
						log = append(log, "reject")
						closed := false
						for _, tc := range d.TCalls {
							if tc.Op == "close" && tc.Chid == chid {
								closed = true
							}
						}
						ex.Premise = true
						if after.Status != datatransfer.Failed || !closed {
							viol("reject-not-failed-or-not-closed", fmt.Sprintf("status=%s closed=%v", datatransfer.Statuses[after.Status], closed))
						}
					case ch == 8: // the initiator asks to resume (it was never paused, or repeats its resume)
						mk := n.Mark()
						_, sig := n.H().OnRequestReceived(chid, doubles.Recode(message.UpdateRequest(chid.ID, false)).(datatransfer.Request))
						mc.Wait()
						d := n.Since(mk)
						after, _ := n.Vec(chid)
						log = append(log, fmt.Sprintf("initiator-resume->%v", sig))
						if st0.RPaused && l != 0 && t >= l {
							// paused at its limit: only a validation update may let payload progress again
							ex.Premise = true
							resumed := false
							for _, tc := range d.TCalls {
								if tc.Op == "resume" && tc.Chid == chid {
									resumed = true
								}
							}
							if sig != datatransfer.ErrPause || resumed || !after.RPaused {
								viol("initiator-resume-unpauses-limit-paused-responder", fmt.Sprintf("the responder is paused at its limit (progress %d, limit %d); the initiator's resume message was answered %v (want the pause signal), transport resumed=%v, responder paused afterwards=%v", t, l, sig, resumed, after.RPaused))
							}
						}
					case ch == 7: // process restart
						img := n.DS.Image()
						n.Stop()
						n2, err := NewNode(Opts{DS: doubles.NewRecDSFrom(img), Types: []string{"T"}})
						if err != nil {
							panic(err)
						}
						defer n2.Stop()
						n = n2
						after, err := n.Vec(chid)
						log = append(log, "reopen")
						if err != nil {
							viol("channel-lost-by-restart", err.Error())
							return
						}
						got := after.Received
						if pull {
							got = after.Queued
						}
						if after.Limit != l || got != t {
							viol("limit-or-progress-lost-by-restart", fmt.Sprintf("after restart limit=%d progress=%d, reference limit=%d progress=%d", after.Limit, got, l, t))
						}
					}
				}
				ex.Outcome = fmt.Sprint(log)
			})
			return ex
		})
	}
}

func cmp3(a, b uint64) string {
	switch {
	case a == 0:
		return "zero"
	case a < b:
		return "less"
	case a == b:
		return "equal"
	}
	return "greater"
}

func init() {
	for _, pull := range []bool{false, true} {
		for L := uint64(0); L <= 6; L++ {
			pull, L := pull, L
			mc.Register("C08", fmt.Sprintf("limits/pull=%v/L=%d", pull, L), "quick", func(x *mc.Cell) { c08(x, pull, L, 2, 5, 2) })
			mc.Register("C04", fmt.Sprintf("l2-revalidation-at-limit/pull=%v/L=%d", pull, L), "quick", func(x *mc.Cell) { c08(x, pull, L, 2, 5, 2) })
			mc.Register("C04", fmt.Sprintf("l2-revalidation-at-limit/pull=%v/L=%d", pull, L), "thorough", func(x *mc.Cell) { c08(x, pull, L, 3, 6, 3) })
			mc.Register("C08", fmt.Sprintf("limits/pull=%v/L=%d", pull, L), "thorough", func(x *mc.Cell) { c08(x, pull, L, 3, 6, 3) })
		}
	}
}
