package l2node

import (
	"context"
	"fmt"

	datatransfer "github.com/filecoin-project/go-data-transfer/v2"

	"verif/doubles"
	"verif/mc"
)

// mkReceived creates a validated received channel (B initiated) and returns its id.
func mkReceived(n *Node, pull bool, tid uint64, first datatransfer.ValidationResult) datatransfer.ChannelID {
	chid := datatransfer.ChannelID{Initiator: doubles.PeerB, Responder: doubles.PeerA, ID: datatransfer.TransferID(tid)}
	n.Val["T"].Answer = func(int, doubles.VCall) (datatransfer.ValidationResult, error) { return first, nil }
	v := doubles.Voucher("T", "v")
	if pull {
		if _, err := n.H().OnRequestReceived(chid, doubles.Recode(NewReq(tid, false, true, &v)).(datatransfer.Request)); err != nil && err != datatransfer.ErrPause {
			panic(err)
		}
		mc.Wait()
	} else {
		n.RecvRequest(doubles.PeerB, NewReq(tid, false, false, &v))
	}
	return chid
}

var updStates = []string{"accepted", "ongoing", "limit-paused", "finalizing", "completed", "cancelled", "unknown", "created"}

// driveTo brings the received channel into the named state.
func driveTo(n *Node, chid datatransfer.ChannelID, pull bool, state string) {
	h := n.H()
	blk := func(i int64, size uint64) {
		if pull {
			_, _ = h.OnDataQueued(chid, Root(), size, i, true)
		} else {
			_ = h.OnDataReceived(chid, Root(), size, i, true)
		}
		mc.Wait()
	}
	switch state {
	case "accepted":
	case "ongoing":
		h.OnTransferInitiated(chid)
		mc.Wait()
		blk(1, 10)
	case "limit-paused":
		h.OnTransferInitiated(chid)
		mc.Wait()
		blk(1, 60)
		blk(2, 60) // crosses the limit of 100 set by the first validation
	case "finalizing":
		h.OnTransferInitiated(chid)
		mc.Wait()
		blk(1, 10)
		_ = h.OnChannelCompleted(chid, nil)
		mc.Wait()
	case "completed":
		h.OnTransferInitiated(chid)
		mc.Wait()
		_ = h.OnChannelCompleted(chid, nil)
		mc.Wait()
	case "cancelled":
		_ = n.Mgr.CloseDataTransferChannel(context.Background(), chid)
		mc.Wait()
	}
}

func c04Update(x *mc.Cell, pull bool) {
	for _, state := range updStates {
		for _, a := range allAnswers() {
			if a.Err {
				continue
			}
			state, a := state, a
			rep := map[string]any{"pull": pull, "state": state, "answer": a.String()}
			run(x, "C04", Opts{Types: []string{"T"}}, rep, func(n *Node) {
				first := datatransfer.ValidationResult{Accepted: true}
				if state == "limit-paused" {
					first.DataLimit = 100
				}
				if state == "finalizing" {
					first.RequiresFinalization = true
				}
				// the bystander exists first; the received channel under test carries its transfer id
				by, _ := bystander(n)
				var chid datatransfer.ChannelID
				switch state {
				case "unknown":
					chid = datatransfer.ChannelID{Initiator: doubles.PeerB, Responder: doubles.PeerA, ID: 99}
				case "created":
					c, err := n.Mgr.OpenPushDataChannel(context.Background(), doubles.PeerB, doubles.Voucher("T", "v"), doubles.Cid("root"), doubles.AllSelector())
					if err != nil {
						panic(err)
					}
					chid = c
					mc.Wait()
				default:
					chid = mkReceived(n, pull, uint64(by.ID), first)
					driveTo(n, chid, pull, state)
				}
				byDigest := digestOf(n, by)
				beforeVec, beforeErr := n.Vec(chid)
				res, _ := a.result()
				mk := n.Mark()
				var uerr error
				hang, cr := mc.Call(func() { uerr = n.Mgr.UpdateValidationStatus(context.Background(), chid, res) })
				if hang {
					x.Violate("C04", "update;hang;state="+state, "UpdateValidationStatus did not return", rep)
					x.Fatal = true
					return
				}
				if cr.Panic != nil {
					x.Violate("C04", fmt.Sprintf("panic;site=%s;call=UpdateValidationStatus;state=%s", panicSite(cr.Stack), stateClass(state)),
						fmt.Sprintf("UpdateValidationStatus(state=%s, pull=%v, %s) panicked: %v\n%s", state, pull, a, cr.Panic, trimStack(cr.Stack)), rep)
					return
				}
				d := n.Since(mk)
				after, afterErr := n.Vec(chid)
				ctx := fmt.Sprintf("state=%s pull=%v answer={%s} err=%v\n  %s", state, pull, a, uerr, d)
				sig := func(s string) string {
					return fmt.Sprintf("update;%s;state=%s;pull=%v;acc=%v", s, state, pull, a.Accepted)
				}
				x.Outcome(fmt.Sprintf("%s|%v|%v|%s", state, a.Accepted, uerr != nil, datatransfer.Statuses[after.Status]))
				x.Premise++
				if dg := digestOf(n, by); dg != byDigest {
					x.Violate("C04", sig("bystander-channel-changed"), ctx, rep)
				}
				switch state {
				case "unknown":
					if uerr == nil {
						x.Violate("C04", sig("unknown-channel-accepted"), ctx, rep)
					}
					if len(d.Sends)+len(d.TCalls)+len(d.Events) != 0 {
						x.Violate("C04", sig("unknown-channel-effects"), ctx, rep)
					}
					return
				case "created":
					if uerr == nil {
						x.Violate("C05", sig("initiator-may-not-update-validation"), ctx, rep)
					}
					if len(d.Sends)+len(d.TCalls)+len(d.Events) != 0 || beforeVec.String() != after.String() {
						x.Violate("C05", sig("initiator-update-had-effects"), ctx, rep)
					}
					return
				case "completed", "cancelled":
					// terminal: nothing changes (C02); whatever is returned, no crash
					if beforeErr == nil && afterErr == nil && beforeVec.String() != after.String() {
						x.Violate("C02", sig("terminal-channel-changed"), ctx, rep)
					}
					if len(d.Events) != 0 {
						x.Violate("C02", sig("terminal-channel-event"), ctx, rep)
					}
					return
				}
				var reply datatransfer.Response
				via := ""
				for _, c := range d.TCalls {
					if c.Op == "resume" && c.Msg != nil {
						if r, ok := c.Msg.(datatransfer.Response); ok {
							reply, via = r, "resume"
						}
					}
				}
				for _, s := range d.Sends {
					if r, ok := s.Msg.(datatransfer.Response); ok && s.To == doubles.PeerB && !r.IsUpdate() {
						reply, via = r, "network"
					}
				}
				_ = via
				closed := false
				for _, c := range d.TCalls {
					if c.Op == "close" && c.Chid == chid {
						closed = true
					}
				}
				if reply == nil {
					x.Violate("C04", sig("no-reply"), ctx, rep)
					return
				}
				if reply.Accepted() != a.Accepted {
					x.Violate("C04", sig(fmt.Sprintf("reply-accepted=%v", reply.Accepted())), ctx, rep)
				}
				if got, want := respRes(reply), wantRes(a); got != want {
					x.Violate("C04", sig("reply-voucher-result"), fmt.Sprintf("reply carries %s, update had %s: %s", got, want, ctx), rep)
				}
				if !a.Accepted {
					if after.Status != datatransfer.Failed {
						x.Violate("C04", sig("rejected-update-not-failed;status="+datatransfer.Statuses[after.Status]), ctx, rep)
					}
					if !closed {
						x.Violate("C04", sig("rejected-update-transport-not-closed"), ctx, rep)
					}
					return
				}
				if uerr != nil {
					x.Violate("C04", sig("accepted-update-error"), ctx, rep)
				}
				if closed || after.Status == datatransfer.Failed || after.Status == datatransfer.Failing {
					x.Violate("C04", sig("accepted-update-closed-or-failed"), ctx, rep)
				}
				if state == "finalizing" {
					// C03: a responder that requires finalization stays in Finalizing, reporting itself paused, until an
					// update (or resume) releases it, and only then completes.
					inFin := after.Status == datatransfer.Finalizing
					switch {
					case a.Fin:
						if !inFin || !after.RPaused || !reply.IsPaused() || !reply.IsComplete() {
							x.Violate("C03", sig(fmt.Sprintf("non-releasing-update-in-finalization;status=%s;rpaused=%v;reply-paused=%v;reply-complete=%v", datatransfer.Statuses[after.Status], after.RPaused, reply.IsPaused(), reply.IsComplete())),
								"an update that still requires finalization must leave the responder in Finalizing, paused, and announce a paused Complete: "+ctx, rep)
						}
					case !a.Force:
						if (after.Status != datatransfer.Completed && after.Status != datatransfer.Completing) || reply.IsPaused() || !reply.IsComplete() {
							x.Violate("C03", sig(fmt.Sprintf("releasing-update-in-finalization;status=%s;reply-paused=%v;reply-complete=%v", datatransfer.Statuses[after.Status], reply.IsPaused(), reply.IsComplete())),
								"an update that lifts the finalization requirement releases the responder: it completes and sends an un-paused Complete: "+ctx, rep)
						}
					}
				}
				if after.Limit != a.Limit || after.ReqFin != a.Fin {
					x.Violate("C04", sig("limit-or-finalization-not-recorded"), fmt.Sprintf("channel has limit=%d fin=%v: %s", after.Limit, after.ReqFin, ctx), rep)
				}
			})
		}
	}
}

func init() {
	// the cells also carry C02 (terminal channels unchanged), C03 (finalization release) and C05 (role) oracles
	for _, p := range []string{"C04", "C02", "C03", "C05"} {
		mc.Register(p, "validation-updates/push", "both", func(x *mc.Cell) { c04Update(x, false) })
		mc.Register(p, "validation-updates/pull", "both", func(x *mc.Cell) { c04Update(x, true) })
	}
}

func stateClass(s string) string {
	switch s {
	case "unknown":
		return "unknown-channel"
	case "completed", "cancelled":
		return "terminated-channel"
	}
	return "live-channel"
}
