package l2node

import (
	"context"
	"fmt"

	"github.com/libp2p/go-libp2p/core/peer"

	datatransfer "github.com/filecoin-project/go-data-transfer/v2"
	"github.com/filecoin-project/go-data-transfer/v2/message"

	"verif/doubles"
	"verif/mc"
	"verif/views"
)

// c19Vouchers explores sequences of voucher / voucher-result exchanges (including failed sends)
// and checks the log rules of C19 plus views.Check on every state handed out.
func c19Vouchers(x *mc.Cell, r Role, depth int) {
	// every live state the driver can reach for the role (vouchers and results are recorded in all of them)
	for _, state := range StatesFor(r) {
		if IsTerminalState(state) {
			continue
		}
		state := state
		name := fmt.Sprintf("c19/%s/%s", RoleNames[r], state)
		x.Enumerate(name, mc.EnumOpts{MaxDeviations: -1}, func(c *mc.Chooser) mc.Exec {
			var ex mc.Exec
			x.Executions--
			log := []string{}
			run(x, "C19", Opts{Types: []string{"T"}}, mc.EnumReplay(name, c), func(n *Node) {
				chid := Setup(n, r, state)
				st0, err := n.Mgr.ChannelState(context.Background(), chid)
				if err != nil {
					panic(err)
				}
				opened := doubles.TV(st0.Voucher())
				prevV, prevR := st0.Vouchers(), st0.VoucherResults()
				for step := 0; step < depth; step++ {
					var menu []string
					if r.Created() {
						menu = []string{"send-voucher", "send-voucher(type without validator)", "send-voucher(send fails)", "incoming-result", "incoming-result(rejected)", "incoming-result(empty)"}
					} else {
						menu = []string{"send-result", "send-result(send fails)", "incoming-voucher", "incoming-voucher(type without validator)", "validation-update(result)", "validation-update(no result)", "validation-update(nil node)", "validation-update(reject+result)",
							"local-restart(validator returns a result)", "incoming-restart-request(validator returns a result)"}
					}
					a := menu[c.Choose(len(menu), fmt.Sprintf("op%d", step))]
					log = append(log, a)
					k := step + 1
					nv := doubles.Voucher("T", fmt.Sprintf("voucher-%d", k))
					nr := doubles.Voucher("R", fmt.Sprintf("result-%d", k))
					n.Net.FailSend = nil
					var aerr error
					mk := n.Mark()
					wantV, wantR := 0, 0
					switch a {
					case "send-voucher":
						aerr = n.Mgr.SendVoucher(context.Background(), chid, nv)
						wantV = 1
					case "send-voucher(type without validator)":
						// intermediate vouchers are the application's business: no validator is registered for the type
						nv = doubles.Voucher("U", fmt.Sprintf("voucher-%d", k))
						aerr = n.Mgr.SendVoucher(context.Background(), chid, nv)
						wantV = 1
					case "incoming-voucher(type without validator)":
						nv = doubles.Voucher("U", fmt.Sprintf("voucher-%d", k))
						vr, _ := message.VoucherRequest(chid.ID, &nv)
						n.RecvRequest(doubles.PeerB, vr)
						wantV = 1
					case "send-voucher(send fails)":
						n.Net.FailSend = func(int, peer.ID, datatransfer.Message) error { return doubles.ErrSend }
						aerr = n.Mgr.SendVoucher(context.Background(), chid, nv)
					case "incoming-result":
						n.RecvResponse(doubles.PeerB, mustResp(message.VoucherResultResponse(chid.ID, true, false, &nr)))
						wantR = 1
					case "incoming-result(rejected)":
						n.RecvResponse(doubles.PeerB, mustResp(message.VoucherResultResponse(chid.ID, false, false, &nr)))
						wantR = 1
					case "incoming-result(empty)":
						n.RecvResponse(doubles.PeerB, mustResp(message.VoucherResultResponse(chid.ID, true, false, nil)))
					case "send-result":
						aerr = n.Mgr.SendVoucherResult(context.Background(), chid, nr)
						wantR = 1
					case "send-result(send fails)":
						n.Net.FailSend = func(int, peer.ID, datatransfer.Message) error { return doubles.ErrSend }
						aerr = n.Mgr.SendVoucherResult(context.Background(), chid, nr)
					case "incoming-voucher":
						vr, _ := message.VoucherRequest(chid.ID, &nv)
						n.RecvRequest(doubles.PeerB, vr)
						wantV = 1
					case "validation-update(result)":
						aerr = n.Mgr.UpdateValidationStatus(context.Background(), chid, datatransfer.ValidationResult{Accepted: true, VoucherResult: &nr})
						wantR = 1
					case "validation-update(no result)":
						aerr = n.Mgr.UpdateValidationStatus(context.Background(), chid, datatransfer.ValidationResult{Accepted: true})
					case "validation-update(nil node)":
						aerr = n.Mgr.UpdateValidationStatus(context.Background(), chid, datatransfer.ValidationResult{Accepted: true, VoucherResult: &datatransfer.TypedVoucher{Type: "R"}})
					case "local-restart(validator returns a result)":
						// the responder asks the initiator to restart: the re-validation result is not sent to anybody yet
						n.Val["T"].Answer = func(int, doubles.VCall) (datatransfer.ValidationResult, error) {
							return datatransfer.ValidationResult{Accepted: true, VoucherResult: &nr}, nil
						}
						aerr = n.Mgr.RestartDataTransferChannel(context.Background(), chid)
					case "incoming-restart-request(validator returns a result)":
						// the initiator's restart request is re-validated and answered with the result: one entry
						n.Val["T"].Answer = func(int, doubles.VCall) (datatransfer.ValidationResult, error) {
							return datatransfer.ValidationResult{Accepted: true, VoucherResult: &nr}, nil
						}
						ov := doubles.Voucher("T", "v")
						if r.Pull() {
							_, aerr = n.H().OnRequestReceived(chid, doubles.Recode(NewReq(uint64(chid.ID), true, true, &ov)).(datatransfer.Request))
							if aerr == datatransfer.ErrPause {
								aerr = nil
							}
						} else {
							n.RecvRequest(doubles.PeerB, NewReq(uint64(chid.ID), true, false, &ov))
						}
						wantR = 1
					case "validation-update(reject+result)":
						aerr = n.Mgr.UpdateValidationStatus(context.Background(), chid, datatransfer.ValidationResult{Accepted: false, VoucherResult: &nr})
						wantR = 1
					}
					n.Net.FailSend = nil
					mc.Wait()
					d := n.Since(mk)
					st, err := n.Mgr.ChannelState(context.Background(), chid)
					if err != nil {
						panic(err)
					}
					rep := mc.EnumReplay(name, c)
					ctx := fmt.Sprintf("role=%s state=%s ops=%v err=%v\n  vouchers: %s\n  results: %s\n  %s", RoleNames[r], state, log, aerr, doubles.TVs(st.Vouchers()), doubles.TVs(st.VoucherResults()), d)
					terminalBefore := len(prevV) > 0 && false
					_ = terminalBefore
					for _, p := range views.Check(st) {
						x.Violate("C19", p.Sig, p.Msg+"\n"+ctx, rep)
					}
					for _, e := range d.Events {
						for _, p := range views.Check(e.St) {
							x.Violate("C19", p.Sig, "(subscriber snapshot) "+p.Msg, rep)
						}
					}
					for _, vcs := range d.VCalls {
						for _, vc := range vcs {
							if vc.State != nil {
								for _, p := range views.Check(vc.State) {
									x.Violate("C19", p.Sig, "(state handed to the validator) "+p.Msg, rep)
								}
							}
						}
					}
					if doubles.TV(st.Voucher()) != opened {
						x.Violate("C19", "first-voucher-changed;op="+a, ctx, rep)
					}
					if !views.IsPrefix(prevV, st.Vouchers()) || !views.IsPrefix(prevR, st.VoucherResults()) {
						x.Violate("C19", "logs-not-append-only;op="+a, ctx, rep)
					}
					dead := st.Status() == datatransfer.Failed || st.Status() == datatransfer.Cancelled || st.Status() == datatransfer.Completed
					wasDead := false
					for _, e := range d.Events {
						_ = e
					}
					if pv, err2 := n.Vec(chid); err2 == nil {
						_ = pv
					}
					gotV, gotR := len(st.Vouchers())-len(prevV), len(st.VoucherResults())-len(prevR)
					// a channel that had already terminated before the operation records nothing (C02)
					if prevStatusDead(log, dead, gotV, gotR) {
						wasDead = true
					}
					if !wasDead {
						ex.Premise = true
						if gotV != wantV {
							x.Violate("C19", fmt.Sprintf("voucher-log;op=%s;appended=%d;want=%d", a, gotV, wantV), ctx, rep)
						}
						if gotR != wantR {
							x.Violate("C19", fmt.Sprintf("result-log;op=%s;appended=%d;want=%d", a, gotR, wantR), ctx, rep)
						}
						if wantV == 1 && gotV == 1 && doubles.TV(st.LastVoucher()) != doubles.TV(nv) {
							x.Violate("C19", "last-voucher-not-the-new-one;op="+a, ctx, rep)
						}
						if wantR == 1 && gotR == 1 && doubles.TV(st.LastVoucherResult()) != doubles.TV(nr) {
							x.Violate("C19", "last-result-not-the-new-one;op="+a, ctx, rep)
						}
						if (a == "send-voucher(send fails)" || a == "send-result(send fails)") && aerr == nil {
							x.Violate("C19", "failed-send-reported-success;op="+a, ctx, rep)
						}
					}
					prevV, prevR = st.Vouchers(), st.VoucherResults()
					if dead {
						break
					}
				}
				ex.Outcome = fmt.Sprint(log)
			})
			return ex
		})
	}
}

// prevStatusDead is a placeholder for symmetry (a terminated channel ends the sequence, so it is never true).
func prevStatusDead(log []string, dead bool, gotV, gotR int) bool { return false }

func init() {
	for r := CreatedPush; r <= ReceivedPull; r++ {
		r := r
		mc.Register("C19", "l2-voucher-sequences/"+RoleNames[r], "quick", func(x *mc.Cell) { c19Vouchers(x, r, 3) })
		mc.Register("C19", "l2-voucher-sequences/"+RoleNames[r], "thorough", func(x *mc.Cell) { c19Vouchers(x, r, 5) })
	}
}
