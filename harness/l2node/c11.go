package l2node

import (
	"context"
	"fmt"

	datatransfer "github.com/filecoin-project/go-data-transfer/v2"
	"github.com/filecoin-project/go-data-transfer/v2/message"

	"verif/doubles"
	"verif/l1chan"
	"verif/mc"
)

var pauseActs = []string{"local-pause", "local-resume", "peer-pause", "peer-resume"}

func livePause(s datatransfer.Status) bool {
	switch s {
	case datatransfer.Requested, datatransfer.Queued, datatransfer.AwaitingAcceptance, datatransfer.Ongoing:
		return true
	}
	return false
}

// c11 explores all sequences of pause/resume actions by both parties (depth d) from every state.
func c11(x *mc.Cell, r Role, depth int) {
	for _, state := range StatesFor(r) {
		state := state
		name := fmt.Sprintf("c11/%s/%s", RoleNames[r], state)
		x.Enumerate(name, mc.EnumOpts{MaxDeviations: -1}, func(c *mc.Chooser) mc.Exec {
			var ex mc.Exec
			x.Executions--
			log := []string{}
			run(x, "C11", Opts{Types: []string{"T"}}, mc.EnumReplay(name, c), func(n *Node) {
				chid := Setup(n, r, state)
				cur := sanityState(n, r, state, chid)
				ctx0 := context.Background()
				for step := 0; step < depth; step++ {
					a := c.Choose(4, fmt.Sprintf("act%d", step))
					act := pauseActs[a]
					log = append(log, act)
					mk := n.Mark()
					var aerr error
					switch act {
					case "local-pause":
						aerr = n.Mgr.PauseDataTransferChannel(ctx0, chid)
					case "local-resume":
						aerr = n.Mgr.ResumeDataTransferChannel(ctx0, chid)
					case "peer-pause", "peer-resume":
						p := act == "peer-pause"
						if r.Created() {
							n.RecvResponse(doubles.PeerB, message.UpdateResponse(chid.ID, p))
						} else {
							n.RecvRequest(doubles.PeerB, message.UpdateRequest(chid.ID, p))
						}
					}
					mc.Wait()
					d := n.Since(mk)
					after, err := n.Vec(chid)
					if err != nil {
						panic(err)
					}
					before := cur
					cur = after
					rep := mc.EnumReplay(name, c)
					ctx := fmt.Sprintf("role=%s state=%s actions=%v err=%v\n  before: %s\n  after:  %s\n  %s", RoleNames[r], state, log, aerr, before, after, d)
					sig := func(s string) string {
						return fmt.Sprintf("L2;%s;act=%s;role=%s;status=%s", s, act, RoleNames[r], datatransfer.Statuses[before.Status])
					}
					selfIsInit := r.Created()
					local := act == "local-pause" || act == "local-resume"
					val := act == "local-pause" || act == "peer-pause"
					actsOnInit := local == selfIsInit
					own := func(v interface{ get(bool) bool }) bool { return v.get(actsOnInit) }
					_ = own
					ownB, ownA := flag(before.IPaused, before.RPaused, actsOnInit), flag(after.IPaused, after.RPaused, actsOnInit)
					othB, othA := flag(before.IPaused, before.RPaused, !actsOnInit), flag(after.IPaused, after.RPaused, !actsOnInit)
					fin := before.Status == datatransfer.Finalizing || after.Status == datatransfer.Finalizing
					ex.Premise = true
					// its own flag: set to the stated value or unchanged; never the other flag
					if !(fin && !actsOnInit) && ownA != val && ownA != ownB {
						x.Violate("C11", sig("own-flag-wrong-value"), ctx, rep)
					}
					if !(fin && actsOnInit) && othA != othB {
						x.Violate("C11", sig("other-partys-flag-changed"), ctx, rep)
					}
					if livePause(before.Status) && ownA != val {
						x.Violate("C11", sig("not-applied-in-live-status"), ctx, rep)
					}
					// a resume by a party that IS paused is never meaningless while the channel is alive: the view must follow it
					if !val && ownB && !(fin && !actsOnInit) && ownA && l1chan.ResumeMeaningful(actsOnInit, before.Status) {
						x.Violate("C11", sig("resume-of-a-paused-party-ignored"), "the party was paused and resumed while it could still move data, but its flag is still set: "+ctx, rep)
					}
					// nothing else changes (status may change only by the Finalizing release)
					bb, aa := before, after
					bb.IPaused, bb.RPaused, bb.Both, bb.SelfP = false, false, false, false
					aa.IPaused, aa.RPaused, aa.Both, aa.SelfP = false, false, false, false
					bb.Message, aa.Message = "", "" // a failed notification may leave a network-error notice
					if before.Status == datatransfer.Finalizing && act == "local-resume" {
						bb.Status, aa.Status = 0, 0
					}
					if bb.String() != aa.String() {
						x.Violate("C11", sig("other-fields-changed"), ctx, rep)
					}
					// views
					if after.Both != (after.IPaused && after.RPaused) {
						x.Violate("C11", sig("both-paused-view"), ctx, rep)
					}
					wantSelf := after.RPaused
					if selfIsInit {
						wantSelf = after.IPaused
					}
					if after.SelfP != wantSelf {
						x.Violate("C11", sig("self-paused-view"), ctx, rep)
					}
					// transport + announcement
					pauses, resumes := 0, 0
					var resumeMsg datatransfer.Message
					for _, tc := range d.TCalls {
						if tc.Chid != chid {
							continue
						}
						if tc.Op == "pause" {
							pauses++
						}
						if tc.Op == "resume" {
							resumes++
							resumeMsg = tc.Msg
						}
					}
					var announce datatransfer.Message
					for _, s := range d.Sends {
						if s.Msg != nil && s.Msg.IsUpdate() && s.Msg.TransferID() == chid.ID && s.To == doubles.PeerB {
							announce = s.Msg
						}
					}
					terminal := IsTerminalState(state) || before.Status == datatransfer.Completed || before.Status == datatransfer.Failed || before.Status == datatransfer.Cancelled
					if terminal {
						continue
					}
					switch act {
					case "local-pause":
						if pauses != 1 {
							x.Violate("C11", sig(fmt.Sprintf("transport-pause-calls=%d", pauses)), "a local pause is applied to the transport: "+ctx, rep)
						}
						if announce == nil || !announce.IsPaused() || announce.IsRequest() != selfIsInit {
							x.Violate("C11", sig("pause-not-announced-with-right-kind"), "a local pause is announced with an Update(paused) of the right kind: "+ctx, rep)
						}
					case "local-resume":
						if resumes != 1 || resumeMsg == nil || !resumeMsg.IsUpdate() || resumeMsg.IsPaused() || resumeMsg.IsRequest() != selfIsInit || resumeMsg.TransferID() != chid.ID {
							x.Violate("C11", sig("resume-not-applied-or-announced"), "a local resume is applied to the transport carrying an Update(un-paused) of the right kind: "+ctx, rep)
						}
					case "peer-resume":
						selfPaused := before.RPaused
						if selfIsInit {
							selfPaused = before.IPaused
						}
						if selfPaused && pauses == 0 && livePause(before.Status) {
							x.Violate("C11", sig("transport-not-kept-paused"), "the counterparty resumed while the local side is paused: the transport must be told to stay paused: "+ctx, rep)
						}
						if !selfPaused && pauses != 0 {
							x.Violate("C11", sig("transport-paused-without-local-pause"), ctx, rep)
						}
					case "peer-pause":
						if pauses != 0 || resumes != 0 {
							x.Violate("C11", sig("peer-pause-touched-transport"), ctx, rep)
						}
					}
				}
				ex.Outcome = fmt.Sprintf("%v|%v|%v", log, cur.IPaused, cur.RPaused)
			})
			return ex
		})
	}
}

func flag(ip, rp, initiator bool) bool {
	if initiator {
		return ip
	}
	return rp
}

func init() {
	for r := CreatedPush; r <= ReceivedPull; r++ {
		r := r
		mc.Register("C11", "l2-pause-sequences/"+RoleNames[r], "quick", func(x *mc.Cell) { c11(x, r, 2) })
		mc.Register("C11", "l2-pause-sequences/"+RoleNames[r], "thorough", func(x *mc.Cell) { c11(x, r, 4) })
	}
}
