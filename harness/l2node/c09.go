package l2node

import (
	"context"
	"errors"
	"fmt"
	"strings"

	"github.com/libp2p/go-libp2p/core/peer"

	datatransfer "github.com/filecoin-project/go-data-transfer/v2"

	"verif/doubles"
	"verif/mc"
)

func c09Close(x *mc.Cell, r Role) {
	for _, state := range StatesFor(r) {
		if IsTerminalState(state) {
			continue
		}
		for _, withErr := range []bool{false, true} {
			for _, sendFails := range []bool{false, true} {
				for _, closeFails := range []bool{false, true} {
					for _, scoped := range []bool{false, true} {
						if scoped && (withErr || sendFails) {
							continue // close-with-error sends the notice within the call; a failing send needs no slow network
						}
						state, withErr, sendFails, closeFails, scoped := state, withErr, sendFails, closeFails, scoped
						rep := map[string]any{"role": RoleNames[r], "state": state, "with_error": withErr, "send_fails": sendFails, "transport_close_fails": closeFails, "caller_context_ends_after_return_and_network_is_slow": scoped}
						run(x, "C09", Opts{Types: []string{"T"}}, rep, func(n *Node) {
							chid := Setup(n, r, state)
							sanityState(n, r, state, chid)
							if sendFails {
								n.Net.FailSend = func(int, peer.ID, datatransfer.Message) error { return doubles.ErrSend }
							}
							if closeFails {
								n.Tr.Fail = func(c doubles.TCall) error {
									if c.Op == "close" {
										return errors.New("transport close failed")
									}
									return nil
								}
							}
							unprot0 := len(n.Net.Unprotects)
							mk := n.Mark()
							var cerr error
							// scoped: the caller's context is request-scoped - it ends as soon as the close call has returned -
							// and the network needs a while (it delivers only after that)
							cctx, ccancel := context.WithCancel(context.Background())
							defer ccancel()
							var slow chan struct{}
							if scoped {
								slow = make(chan struct{})
								n.Net.HoldSend = slow
							}
							hang, cr := mc.Call(func() {
								if withErr {
									cerr = n.Mgr.(interface {
										CloseDataTransferChannelWithError(context.Context, datatransfer.ChannelID, error) error
									}).CloseDataTransferChannelWithError(context.Background(), chid, errors.New("monitor gave up"))
								} else {
									cerr = n.Mgr.CloseDataTransferChannel(cctx, chid)
								}
							})
							if scoped && !hang {
								ccancel()
								mc.Wait()
								n.Net.HoldSend = nil
								close(slow)
							}
							if hang {
								x.Violate("C09", "L2;close-hangs;state="+state, "closing the channel did not return", rep)
								x.Fatal = true
								return
							}
							if cr.Panic != nil {
								x.Violate("C09", "panic;site="+panicSite(cr.Stack), fmt.Sprintf("%v\n%s", cr.Panic, trimStack(cr.Stack)), rep)
								return
							}
							mc.Wait()
							d := n.Since(mk)
							after, _ := n.Vec(chid)
							x.Premise++
							ctx := fmt.Sprintf("role=%s state=%s withErr=%v sendFails=%v closeFails=%v err=%v\n  %s", RoleNames[r], state, withErr, sendFails, closeFails, cerr, d)
							sig := func(s string) string {
								return fmt.Sprintf("L2;close;%s;role=%s;state=%s;with-error=%v;send-fails=%v", s, RoleNames[r], state, withErr, sendFails)
							}
							x.Outcome(fmt.Sprintf("%s|%s|%v|%v|%s", RoleNames[r], state, withErr, sendFails, datatransfer.Statuses[after.Status]))
							want := datatransfer.Cancelled
							if withErr {
								want = datatransfer.Failed
							}
							if after.Status != want {
								x.Violate("C09", sig("ends-in="+datatransfer.Statuses[after.Status]), ctx, rep)
							}
							if withErr && !strings.Contains(after.Message, "monitor gave up") {
								x.Violate("C09", sig("error-message-lost"), ctx, rep)
							}
							cancels, wrongKind, wrongPeer := 0, 0, 0
							for _, s := range d.Sends {
								if s.Msg != nil && s.Msg.IsCancel() && s.Msg.TransferID() == chid.ID {
									if scoped && s.Err != nil {
										continue // abandoned on the way: the counterparty never got it
									}
									cancels++
									if s.Msg.IsRequest() != r.Created() {
										wrongKind++
									}
									if s.To != doubles.PeerB {
										wrongPeer++
									}
								}
							}
							if cancels != 1 || wrongKind != 0 || wrongPeer != 0 {
								x.Violate("C09", sig(fmt.Sprintf("cancel-messages=%d;wrong-kind=%d;wrong-peer=%d", cancels, wrongKind, wrongPeer)), "the counterparty is notified with exactly one cancel message of the right kind: "+ctx, rep)
							}
							closes, cleanups := 0, 0
							for _, tc := range d.TCalls {
								if tc.Chid == chid && tc.Op == "close" {
									closes++
								}
								if tc.Chid == chid && tc.Op == "cleanup" {
									cleanups++
								}
							}
							if closes < 1 {
								x.Violate("C09", sig("transport-not-closed"), ctx, rep)
							}
							un := len(n.Net.Unprotects) - unprot0
							if sendFails {
								// the failed cancel message is reported as a network-error notice that may land inside the
								// cleanup window and re-enter the cleanup status (weak form of DESIGN 5/C09): count >= 1, equal
								if cleanups < 1 || cleanups != un {
									x.Violate("C09", sig(fmt.Sprintf("transport-cleanups=%d;unprotects=%d", cleanups, un)), "transport release and un-protect must happen (the same number of times) for the ending: "+ctx, rep)
								}
							} else {
								if cleanups != 1 {
									x.Violate("C09", sig(fmt.Sprintf("transport-cleanups=%d", cleanups)), "transport resources are released exactly once per ending: "+ctx, rep)
								}
								if un != 1 {
									x.Violate("C09", sig(fmt.Sprintf("unprotects=%d", un)), "the peer connection is un-protected exactly once per ending: "+ctx, rep)
								}
							}
						})
					}
				}
			}
		}
	}
}

// c09Endings: every way of ending at the manager level releases the transport exactly once.
func c09Endings(x *mc.Cell, r Role) {
	endings := []string{"transport-error", "peer-cancel", "rejected-response", "complete"}
	for _, state := range StatesFor(r) {
		if IsTerminalState(state) {
			continue
		}
		for _, e := range endings {
			state, e := state, e
			rep := map[string]any{"role": RoleNames[r], "state": state, "ending": e}
			run(x, "C09", Opts{Types: []string{"T"}}, rep, func(n *Node) {
				chid := Setup(n, r, state)
				unprot0 := len(n.Net.Unprotects)
				mk := n.Mark()
				h := n.H()
				switch e {
				case "transport-error":
					_ = h.OnChannelCompleted(chid, errTransfer)
				case "peer-cancel":
					for _, m := range messagesFor(chid.ID, nil) {
						if (r.Created() && m.name == "resp-cancel") || (!r.Created() && m.name == "req-cancel") {
							deliver(n, doubles.PeerB, m.msg)
						}
					}
				case "rejected-response":
					if !r.Created() {
						return
					}
					for _, m := range messagesFor(chid.ID, nil) {
						if m.name == "resp-voucher-result-rejected" {
							deliver(n, doubles.PeerB, m.msg)
						}
					}
				case "complete":
					_ = h.OnChannelCompleted(chid, nil)
					mc.Wait()
					if r.Created() {
						for _, m := range messagesFor(chid.ID, nil) {
							if m.name == "resp-complete-final" {
								deliver(n, doubles.PeerB, m.msg)
							}
						}
					}
				}
				mc.Wait()
				d := n.Since(mk)
				after, _ := n.Vec(chid)
				ctx := fmt.Sprintf("role=%s state=%s ending=%s\n  %s", RoleNames[r], state, e, d)
				x.Outcome(fmt.Sprintf("%s|%s|%s|%s", RoleNames[r], state, e, datatransfer.Statuses[after.Status]))
				cleanups := 0
				for _, tc := range d.TCalls {
					if tc.Chid == chid && tc.Op == "cleanup" {
						cleanups++
					}
				}
				un := len(n.Net.Unprotects) - unprot0
				terminal := after.Status == datatransfer.Completed || after.Status == datatransfer.Failed || after.Status == datatransfer.Cancelled
				if after.Status == datatransfer.Completing || after.Status == datatransfer.Failing || after.Status == datatransfer.Cancelling {
					x.Violate("C09", fmt.Sprintf("L2;ending;stuck-in=%s;ending=%s", datatransfer.Statuses[after.Status], e), ctx, rep)
				}
				if terminal {
					x.Premise++
					// "peer-cancel" on a responder calls transport.CleanupChannel directly as well (request-cancel branch): count from the environment is what matters
					min := 1
					if cleanups < min || un != 1 {
						x.Violate("C09", fmt.Sprintf("L2;ending;cleanups=%d;unprotects=%d;ending=%s;role=%s", cleanups, un, e, RoleNames[r]), "a terminal status is never reached without releasing the transport and un-protecting the peer exactly once: "+ctx, rep)
					}
					if cleanups > 1 && !(e == "peer-cancel" && !r.Created()) {
						x.Violate("C09", fmt.Sprintf("L2;ending;cleanups=%d;ending=%s;role=%s", cleanups, e, RoleNames[r]), ctx, rep)
					}
				} else if cleanups != 0 || un != 0 {
					if !(e == "peer-cancel") {
						x.Violate("C09", fmt.Sprintf("L2;ending;cleanup-without-ending;ending=%s", e), ctx, rep)
					}
				}
			})
		}
	}
}

func init() {
	for r := CreatedPush; r <= ReceivedPull; r++ {
		r := r
		mc.Register("C09", "l2-close/"+RoleNames[r], "both", func(x *mc.Cell) { c09Close(x, r) })
		mc.Register("C09", "l2-endings/"+RoleNames[r], "both", func(x *mc.Cell) { c09Endings(x, r) })
	}
}
