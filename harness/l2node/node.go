// Package l2node drives one real impl manager over recording doubles
// (datastore, network, transport, validators).
package l2node

import (
	"context"
	"fmt"
	"sort"
	"strings"
	"sync"

	cidlink "github.com/ipld/go-ipld-prime/linking/cid"
	"github.com/libp2p/go-libp2p/core/peer"

	datatransfer "github.com/filecoin-project/go-data-transfer/v2"
	dtimpl "github.com/filecoin-project/go-data-transfer/v2/impl"
	"github.com/filecoin-project/go-data-transfer/v2/message"

	"verif/doubles"
	"verif/mc"
	"verif/views"
)

// Ev is one subscriber call.
type Ev struct {
	Seq  int64
	Code datatransfer.EventCode
	Chid datatransfer.ChannelID
	Vec  views.Vec
	St   datatransfer.ChannelState
}

// Node is one real manager (local peer A) with its doubles.
type Node struct {
	DS  *doubles.RecDS
	Net *doubles.RecNet
	Tr  *doubles.RecTransport
	Mgr datatransfer.Manager
	Val map[string]*doubles.RecValidator

	mu       sync.Mutex
	Events   []Ev
	ReadyLog []error
	unsub    datatransfer.Unsubscribe
	stopped  bool
}

// Opts configures NewNode.
type Opts struct {
	DS             *doubles.RecDS
	Types          []string // voucher types to register (each with its own RecValidator)
	NoStart        bool
	ManagerOptions []dtimpl.DataTransferOption
}

// NewNode builds and starts a manager; returns after it announced readiness.
func NewNode(o Opts) (*Node, error) {
	n := &Node{DS: o.DS, Net: &doubles.RecNet{Self: doubles.PeerA}, Tr: &doubles.RecTransport{}, Val: map[string]*doubles.RecValidator{}}
	if n.DS == nil {
		n.DS = doubles.NewRecDS()
	}
	m, err := dtimpl.NewDataTransfer(n.DS, n.Net, n.Tr, o.ManagerOptions...)
	if err != nil {
		return nil, err
	}
	n.Mgr = m
	for _, t := range o.Types {
		v := &doubles.RecValidator{Name: t}
		n.Val[t] = v
		if err := m.RegisterVoucherType(datatransfer.TypeIdentifier(t), v); err != nil {
			return nil, err
		}
	}
	n.unsub = m.SubscribeToEvents(func(e datatransfer.Event, st datatransfer.ChannelState) {
		v := views.Of(st)
		n.mu.Lock()
		n.Events = append(n.Events, Ev{doubles.NextSeq(), e.Code, st.ChannelID(), v, st})
		n.mu.Unlock()
	})
	m.OnReady(func(err error) {
		n.mu.Lock()
		n.ReadyLog = append(n.ReadyLog, err)
		n.mu.Unlock()
	})
	if o.NoStart {
		return n, nil
	}
	if err := m.Start(context.Background()); err != nil {
		return nil, err
	}
	mc.Wait()
	return n, nil
}

// Stop stops the manager.
func (n *Node) Stop() {
	n.mu.Lock()
	if n.stopped {
		n.mu.Unlock()
		return
	}
	n.stopped = true
	n.mu.Unlock()
	_ = n.Mgr.Stop(context.Background())
	mc.Wait()
}

func (n *Node) NumEvents() int {
	n.mu.Lock()
	defer n.mu.Unlock()
	return len(n.Events)
}
func (n *Node) EventsFrom(i int) []Ev {
	n.mu.Lock()
	defer n.mu.Unlock()
	return append([]Ev(nil), n.Events[i:]...)
}

// H is the transport events handler (the manager).
func (n *Node) H() datatransfer.EventsHandler { return n.Tr.Handler }

// Vec reads a channel's accessor vector.
func (n *Node) Vec(chid datatransfer.ChannelID) (views.Vec, error) {
	st, err := n.Mgr.ChannelState(context.Background(), chid)
	if err != nil {
		return views.Vec{}, err
	}
	return views.Of(st), nil
}

// Mark is a position in all recorders.
type Mark struct {
	ev, send, tcall int
	val             map[string]int
}

func (n *Node) Mark() Mark {
	m := Mark{n.NumEvents(), n.Net.NumSends(), n.Tr.NumCalls(), map[string]int{}}
	for k, v := range n.Val {
		m.val[k] = v.NumCalls()
	}
	return m
}

// Since summarises everything recorded since the mark.
type Delta struct {
	Events []Ev
	Sends  []doubles.Sent
	TCalls []doubles.TCall
	VCalls map[string][]doubles.VCall
}

func (n *Node) Since(m Mark) Delta {
	d := Delta{Events: n.EventsFrom(m.ev), Sends: n.Net.SendsFrom(m.send), TCalls: n.Tr.CallsFrom(m.tcall), VCalls: map[string][]doubles.VCall{}}
	for k, v := range n.Val {
		d.VCalls[k] = v.CallsFrom(m.val[k])
	}
	return d
}

func (d Delta) String() string {
	var sb strings.Builder
	sb.WriteString("events=[")
	for _, e := range d.Events {
		fmt.Fprintf(&sb, "%s@%s ", datatransfer.Events[e.Code], doubles.ChidName(e.Chid))
	}
	sb.WriteString("] sends=[")
	for _, s := range d.Sends {
		fmt.Fprintf(&sb, "to %s: %s err=%v; ", doubles.PeerName(s.To), doubles.MsgSummary(s.Msg), s.Err)
	}
	sb.WriteString("] transport=[")
	for _, c := range d.TCalls {
		sb.WriteString(c.String() + " ")
	}
	sb.WriteString("] validators=[")
	ks := make([]string, 0, len(d.VCalls))
	for k := range d.VCalls {
		ks = append(ks, k)
	}
	sort.Strings(ks)
	for _, k := range ks {
		for _, c := range d.VCalls[k] {
			fmt.Fprintf(&sb, "%s:%s ", k, c)
		}
	}
	sb.WriteString("]")
	return sb.String()
}

// StoreDigest hashes all channel records (everything except the version key).
func (n *Node) StoreDigest() map[string]string {
	out := map[string]string{}
	for k, v := range n.DS.Image() {
		out[k] = mc.Hash(string(v))
	}
	return out
}

// ---------------------------------------------------------------- incoming traffic

// RecvRequest delivers a request message as if sent by `from` over libp2p and runs to quiescence.
func (n *Node) RecvRequest(from peer.ID, rq datatransfer.Request) {
	n.RecvRequestNoWait(from, rq)
	mc.Wait()
}

// RecvResponse delivers a response message as if sent by `from` over libp2p and runs to quiescence.
func (n *Node) RecvResponse(from peer.ID, rs datatransfer.Response) {
	n.RecvResponseNoWait(from, rs)
	mc.Wait()
}

// RecvRequestNoWait delivers without waiting for quiescence (for use inside mc.Call).
func (n *Node) RecvRequestNoWait(from peer.ID, rq datatransfer.Request) {
	m := doubles.Recode(rq).(datatransfer.Request)
	if m.IsRestartExistingChannelRequest() {
		n.Net.Receiver.ReceiveRestartExistingChannelRequest(context.Background(), from, m)
	} else {
		n.Net.Receiver.ReceiveRequest(context.Background(), from, m)
	}
}

// RecvResponseNoWait delivers without waiting for quiescence.
func (n *Node) RecvResponseNoWait(from peer.ID, rs datatransfer.Response) {
	m := doubles.Recode(rs).(datatransfer.Response)
	n.Net.Receiver.ReceiveResponse(context.Background(), from, m)
}

// NewReq builds a new/restart request.
func NewReq(tid uint64, restart, pull bool, v *datatransfer.TypedVoucher) datatransfer.Request {
	rq, err := message.NewRequest(datatransfer.TransferID(tid), restart, pull, v, doubles.Cid("root"), doubles.AllSelector())
	if err != nil {
		panic(err)
	}
	return rq
}

// Root is the link of the fixed root CID.
func Root() cidlink.Link { return cidlink.Link{Cid: doubles.Cid("root")} }

// MarkStopped tells Stop that the manager is being stopped by an operation under test.
func (n *Node) MarkStopped() {
	n.mu.Lock()
	n.stopped = true
	n.mu.Unlock()
}
