package l2node

import (
	"context"
	"fmt"
	"strings"
	"time"

	"github.com/libp2p/go-libp2p/core/peer"

	datatransfer "github.com/filecoin-project/go-data-transfer/v2"
	"github.com/filecoin-project/go-data-transfer/v2/message"

	"verif/doubles"
	"verif/mc"
)

type world struct {
	n     *Node
	chans []datatransfer.ChannelID
}

// buildWorld creates four channels with B: created push, created pull, received push, and a received pull
// whose numeric transfer ID collides with the created push.
func buildWorld(n *Node, state string) *world {
	ctx := context.Background()
	w := &world{n: n}
	v := doubles.Voucher("T", "v")
	c1, err := n.Mgr.OpenPushDataChannel(ctx, doubles.PeerB, v, doubles.Cid("root"), doubles.AllSelector())
	if err != nil {
		panic(err)
	}
	c2, err := n.Mgr.OpenPullDataChannel(ctx, doubles.PeerB, v, doubles.Cid("root"), doubles.AllSelector())
	if err != nil {
		panic(err)
	}
	mc.Wait()
	c3 := mkReceived(n, false, 7, datatransfer.ValidationResult{Accepted: true})
	c4 := mkReceived(n, true, uint64(c1.ID), datatransfer.ValidationResult{Accepted: true})
	w.chans = []datatransfer.ChannelID{c1, c2, c3, c4}
	h := n.H()
	if state == "ongoing" || state == "paused" || state == "terminated" {
		n.RecvResponse(doubles.PeerB, mustResp(message.NewResponse(c1.ID, true, false, nil)))
		n.RecvResponse(doubles.PeerB, mustResp(message.NewResponse(c2.ID, true, false, nil)))
		for _, c := range w.chans {
			h.OnTransferInitiated(c)
		}
		mc.Wait()
	}
	if state == "paused" {
		for _, c := range w.chans {
			_ = n.Mgr.PauseDataTransferChannel(ctx, c)
		}
		mc.Wait()
	}
	if state == "terminated" {
		for _, c := range w.chans {
			_ = n.Mgr.CloseDataTransferChannel(ctx, c)
		}
		mc.Wait()
	}
	return w
}

func mustResp(r datatransfer.Response, err error) datatransfer.Response {
	if err != nil {
		panic(err)
	}
	return r
}

type inMsg struct {
	name string
	msg  datatransfer.Message
}

// messagesFor builds every message kind carrying transfer id tid.
func messagesFor(tid datatransfer.TransferID, existing []datatransfer.ChannelID) []inMsg {
	v := doubles.Voucher("T", "v")
	v2 := doubles.Voucher("T", "second")
	r := doubles.Voucher("R", "res")
	var out []inMsg
	add := func(n string, m datatransfer.Message) { out = append(out, inMsg{n, m}) }
	add("req-new-push", NewReq(uint64(tid), false, false, &v))
	add("req-new-pull", NewReq(uint64(tid), false, true, &v))
	add("req-restart-push", NewReq(uint64(tid), true, false, &v))
	add("req-restart-pull", NewReq(uint64(tid), true, true, &v))
	add("req-update-pause", message.UpdateRequest(tid, true))
	add("req-update-resume", message.UpdateRequest(tid, false))
	vr, _ := message.VoucherRequest(tid, &v2)
	add("req-voucher", vr)
	add("req-cancel", message.CancelRequest(tid))
	add("resp-new-accepted", mustResp(message.NewResponse(tid, true, false, &r)))
	add("resp-new-rejected", mustResp(message.NewResponse(tid, false, false, &r)))
	add("resp-restart-accepted", mustResp(message.RestartResponse(tid, true, false, nil)))
	add("resp-voucher-result", mustResp(message.VoucherResultResponse(tid, true, false, &r)))
	add("resp-voucher-result-rejected", mustResp(message.VoucherResultResponse(tid, false, false, &r)))
	add("resp-complete-final", mustResp(message.CompleteResponse(tid, true, false, nil)))
	add("resp-complete-paused", mustResp(message.CompleteResponse(tid, true, true, nil)))
	add("resp-update-pause", message.UpdateResponse(tid, true))
	add("resp-update-resume", message.UpdateResponse(tid, false))
	add("resp-cancel", message.CancelResponse(tid))
	return out
}

func legitFor(self peer.ID, sender peer.ID, m datatransfer.Message, c datatransfer.ChannelID) bool {
	other := c.OtherParty(self)
	if sender != other || sender == self {
		return false
	}
	if rq, ok := m.(datatransfer.Request); ok {
		if rq.IsRestartExistingChannelRequest() {
			rc, _ := rq.RestartChannelId()
			return rc == c && c.Initiator == self
		}
		return m.TransferID() == c.ID && c.Initiator == sender
	}
	return m.TransferID() == c.ID && c.Initiator == self
}

func deliver(n *Node, sender peer.ID, m datatransfer.Message) {
	if rq, ok := m.(datatransfer.Request); ok {
		n.RecvRequest(sender, rq)
	} else {
		n.RecvResponse(sender, m.(datatransfer.Response))
	}
}

func c05Messages(x *mc.Cell, state string) {
	senders := []peer.ID{doubles.PeerB, doubles.PeerC, doubles.PeerA}
	// first learn the ids (deterministic virtual clock => same ids in every execution)
	var ids []datatransfer.TransferID
	var chans []datatransfer.ChannelID
	run(x, "C05", Opts{Types: []string{"T"}}, nil, func(n *Node) {
		w := buildWorld(n, state)
		chans = w.chans
	})
	seen := map[datatransfer.TransferID]bool{}
	for _, c := range chans {
		if !seen[c.ID] {
			seen[c.ID] = true
			ids = append(ids, c.ID)
		}
	}
	ids = append(ids, 424242)
	var msgs []inMsg
	for _, id := range ids {
		for _, m := range messagesFor(id, chans) {
			m.name = fmt.Sprintf("%s(id#%d)", m.name, indexOf(ids, id))
			msgs = append(msgs, m)
		}
	}
	for i, c := range chans {
		msgs = append(msgs, inMsg{fmt.Sprintf("req-restart-existing(chan%d)", i), message.RestartExistingChannelRequest(c)})
	}
	msgs = append(msgs, inMsg{"req-restart-existing(foreign)", message.RestartExistingChannelRequest(datatransfer.ChannelID{Initiator: doubles.PeerC, Responder: doubles.PeerB, ID: 5})})
	msgs = append(msgs, inMsg{"req-restart-existing(swapped)", message.RestartExistingChannelRequest(datatransfer.ChannelID{Initiator: doubles.PeerB, Responder: doubles.PeerA, ID: chans[0].ID + 1})})
	for _, s := range senders {
		for _, m := range msgs {
			if x.TimeUp() {
				x.Cap("c05: time cap")
				return
			}
			s, m := s, m
			rep := map[string]any{"state": state, "sender": doubles.PeerName(s), "message": m.name}
			run(x, "C05", Opts{Types: []string{"T"}}, rep, func(n *Node) {
				w := buildWorld(n, state)
				before := map[datatransfer.ChannelID]string{}
				for _, c := range w.chans {
					before[c] = digestOf(n, c)
				}
				mk := n.Mark()
				deliver(n, s, m.msg)
				d := n.Since(mk)
				x.Premise++
				nLegit := 0
				for i, c := range w.chans {
					if legitFor(doubles.PeerA, s, m.msg, c) {
						nLegit++
						continue
					}
					sig := func(what string) string {
						return fmt.Sprintf("illegitimate-message;%s;state=%s;sender=%s;msg=%s;chan=%d", what, state, doubles.PeerName(s), stripID(m.name), i)
					}
					ctx := fmt.Sprintf("sender=%s message=%s [%s] state=%s channel#%d=%s\n  %s", doubles.PeerName(s), m.name, doubles.MsgSummary(m.msg), state, i, doubles.ChidName(c), d)
					if digestOf(n, c) != before[c] {
						x.Violate("C05", sig("durable-state-changed"), ctx, rep)
					}
					for _, e := range d.Events {
						if e.Chid == c {
							x.Violate("C05", sig("event="+datatransfer.Events[e.Code]), ctx, rep)
						}
					}
					for _, tc := range d.TCalls {
						if tc.Chid == c {
							x.Violate("C05", sig("transport-call="+tc.Op), ctx, rep)
						}
					}
					for _, vcs := range d.VCalls {
						for _, vc := range vcs {
							if vc.Chid == c {
								x.Violate("C05", sig("validator-consulted"), ctx, rep)
							}
						}
					}
				}
				x.Outcome(fmt.Sprintf("%s|%s|%s|%d|%d|%d|%d", state, doubles.PeerName(s), stripID(m.name), nLegit, len(d.Events), len(d.Sends), len(d.TCalls)))
			})
		}
	}
}

func indexOf(ids []datatransfer.TransferID, id datatransfer.TransferID) int {
	for i, x := range ids {
		if x == id {
			return i
		}
	}
	return -1
}

func stripID(s string) string { return s }

// ---- restart request mutations

func c05RestartMutations(x *mc.Cell) {
	type mut struct {
		name      string
		honoured  bool
		sender    peer.ID
		build     func(c datatransfer.ChannelID) datatransfer.Request
		terminate bool
		created   bool // target the channel the receiver initiated
	}
	v := doubles.Voucher("T", "v")
	std := func(pull bool) func(c datatransfer.ChannelID) datatransfer.Request {
		return func(c datatransfer.ChannelID) datatransfer.Request { return NewReq(uint64(c.ID), true, pull, &v) }
	}
	for _, pull := range []bool{false, true} {
		pull := pull
		muts := []mut{
			{name: "valid", honoured: true, sender: doubles.PeerB, build: std(pull)},
			{name: "base-cid", sender: doubles.PeerB, build: func(c datatransfer.ChannelID) datatransfer.Request {
				r, _ := message.NewRequest(c.ID, true, pull, &v, doubles.Cid("other-root"), doubles.AllSelector())
				return r
			}},
			{name: "voucher-type", sender: doubles.PeerB, build: func(c datatransfer.ChannelID) datatransfer.Request {
				o := doubles.Voucher("U", "v")
				return NewReq(uint64(c.ID), true, pull, &o)
			}},
			{name: "voucher-content", sender: doubles.PeerB, build: func(c datatransfer.ChannelID) datatransfer.Request {
				o := doubles.Voucher("T", "v-changed")
				return NewReq(uint64(c.ID), true, pull, &o)
			}},
			{name: "no-voucher", sender: doubles.PeerB, build: func(c datatransfer.ChannelID) datatransfer.Request {
				return NewReq(uint64(c.ID), true, pull, nil)
			}},
			{name: "latest-voucher-instead-of-original", sender: doubles.PeerB, build: func(c datatransfer.ChannelID) datatransfer.Request {
				o := doubles.Voucher("T", "follow-up")
				return NewReq(uint64(c.ID), true, pull, &o)
			}},
			{name: "sent-by-stranger", sender: doubles.PeerC, build: std(pull)},
			{name: "terminated-channel", sender: doubles.PeerB, build: std(pull), terminate: true},
			{name: "receiver-is-initiator", sender: doubles.PeerB, build: std(pull), created: true},
		}
		for _, m := range muts {
			for _, newMgr := range []bool{false, true} {
				for _, followUp := range []bool{false, true} {
					m, newMgr, followUp := m, newMgr, followUp
					if m.created && followUp {
						continue
					}
					rep := map[string]any{"mutation": m.name, "pull": pull, "new_manager": newMgr, "follow_up_voucher_received": followUp}
					run(x, "C05", Opts{Types: []string{"T", "U"}}, rep, func(n *Node) {
						var chid datatransfer.ChannelID
						if m.created {
							var err error
							if pull {
								chid, err = n.Mgr.OpenPullDataChannel(context.Background(), doubles.PeerB, v, doubles.Cid("root"), doubles.AllSelector())
							} else {
								chid, err = n.Mgr.OpenPushDataChannel(context.Background(), doubles.PeerB, v, doubles.Cid("root"), doubles.AllSelector())
							}
							if err != nil {
								panic(err)
							}
							mc.Wait()
						} else {
							chid = mkReceived(n, pull, 7, datatransfer.ValidationResult{Accepted: true})
							n.H().OnTransferInitiated(chid)
							mc.Wait()
						}
						if followUp {
							// the initiator sent a second voucher during the transfer: the restart must still repeat the ORIGINAL one
							fv := doubles.Voucher("T", "follow-up")
							vr, _ := message.VoucherRequest(chid.ID, &fv)
							n.RecvRequest(doubles.PeerB, vr)
						}
						if m.terminate {
							_ = n.Mgr.CloseDataTransferChannel(context.Background(), chid)
							mc.Wait()
						}
						if newMgr {
							img := n.DS.Image()
							n.Stop()
							n2, err := NewNode(Opts{DS: doubles.NewRecDSFrom(img), Types: []string{"T", "U"}})
							if err != nil {
								panic(err)
							}
							defer n2.Stop()
							n = n2
						}
						before := digestOf(n, chid)
						mk := n.Mark()
						n.RecvRequest(m.sender, m.build(chid))
						d := n.Since(mk)
						x.Premise++
						restartRecorded, validated := false, false
						for _, e := range d.Events {
							if e.Chid == chid && e.Code == datatransfer.Restart {
								restartRecorded = true
							}
						}
						for _, vcs := range d.VCalls {
							for _, vc := range vcs {
								if vc.Chid == chid && vc.Kind == "restart" {
									validated = true
								}
							}
						}
						opened := false
						for _, tc := range d.TCalls {
							if tc.Op == "open" && tc.Chid == chid {
								opened = true
							}
						}
						accepted := false
						if r, _ := replyOf(0, d, nil); r != nil && r.Accepted() && m.sender == doubles.PeerB {
							accepted = true
						}
						ctx := fmt.Sprintf("mutation=%s pull=%v newmgr=%v\n  %s", m.name, pull, newMgr, d)
						sig := func(s string) string {
							return fmt.Sprintf("restart-request;%s;mutation=%s;pull=%v;follow-up-voucher=%v", s, m.name, pull, followUp)
						}
						x.Outcome(fmt.Sprintf("%s|%v|%v|%v|%v", m.name, restartRecorded, validated, opened, accepted))
						if m.honoured {
							if !restartRecorded || !validated || !accepted || (!pull && !opened) {
								x.Violate("C05", sig("valid-restart-not-honoured"), ctx, rep)
							}
							return
						}
						if restartRecorded || opened || accepted {
							x.Violate("C05", sig(fmt.Sprintf("honoured;recorded=%v;opened=%v;accepted=%v", restartRecorded, opened, accepted)), "a restart request that must be refused was honoured: "+ctx, rep)
						}
						if m.name == "sent-by-stranger" || m.name == "terminated-channel" || m.name == "receiver-is-initiator" {
							if digestOf(n, chid) != before {
								x.Violate("C05", sig("durable-state-changed"), ctx, rep)
							}
						}
						if m.name == "terminated-channel" && len(d.Events) != 0 {
							x.Violate("C02", sig("event-on-terminated-channel"), ctx, rep)
						}
					})
				}
			}
		}
	}
}

// ---- restart-existing-channel requests

func c05RestartExisting(x *mc.Cell) {
	type tc struct {
		name     string
		sender   peer.ID
		created  bool
		term     bool
		pull     bool
		honoured bool
	}
	var cases []tc
	for _, pull := range []bool{false, true} {
		cases = append(cases,
			tc{"valid", doubles.PeerB, true, false, pull, true},
			tc{"from-stranger", doubles.PeerC, true, false, pull, false},
			tc{"from-self", doubles.PeerA, true, false, pull, false},
			tc{"terminated", doubles.PeerB, true, true, pull, false},
			tc{"receiver-did-not-initiate", doubles.PeerB, false, false, pull, false},
		)
	}
	v := doubles.Voucher("T", "v")
	for _, c := range cases {
		c := c
		rep := map[string]any{"case": c.name, "pull": c.pull}
		run(x, "C05", Opts{Types: []string{"T"}}, rep, func(n *Node) {
			var chid datatransfer.ChannelID
			if c.created {
				var err error
				if c.pull {
					chid, err = n.Mgr.OpenPullDataChannel(context.Background(), doubles.PeerB, v, doubles.Cid("root"), doubles.AllSelector())
				} else {
					chid, err = n.Mgr.OpenPushDataChannel(context.Background(), doubles.PeerB, v, doubles.Cid("root"), doubles.AllSelector())
				}
				if err != nil {
					panic(err)
				}
				mc.Wait()
			} else {
				chid = mkReceived(n, c.pull, 7, datatransfer.ValidationResult{Accepted: true})
			}
			if c.term {
				_ = n.Mgr.CloseDataTransferChannel(context.Background(), chid)
				mc.Wait()
			}
			before := digestOf(n, chid)
			mk := n.Mark()
			n.RecvRequest(c.sender, message.RestartExistingChannelRequest(chid))
			d := n.Since(mk)
			x.Premise++
			reissued := false
			for _, s := range d.Sends {
				if rq, ok := s.Msg.(datatransfer.Request); ok && rq.IsRestart() && rq.TransferID() == chid.ID {
					reissued = true
				}
			}
			for _, t := range d.TCalls {
				if t.Op == "open" && t.Chid == chid {
					reissued = true
				}
			}
			ctx := fmt.Sprintf("case=%s pull=%v\n  %s", c.name, c.pull, d)
			x.Outcome(fmt.Sprintf("%s|%v|%v", c.name, c.pull, reissued))
			if reissued != c.honoured {
				x.Violate("C05", fmt.Sprintf("restart-existing;case=%s;pull=%v;reissued=%v", c.name, c.pull, reissued), ctx, rep)
			}
			if !c.honoured && digestOf(n, chid) != before {
				x.Violate("C05", fmt.Sprintf("restart-existing;durable-state-changed;case=%s", c.name), ctx, rep)
			}
		})
	}
}

// persistedInCleanup drives a channel of role r into a cleanup status, lets the process "die" there (the cleanup is
// parked inside the transport) and returns a new node on the same store, where the channel rests in that status.
func persistedInCleanup(n *Node, r Role, ending string) (*Node, datatransfer.ChannelID, bool) {
	chid := Setup(n, r, "ongoing")
	gate := make(chan struct{})
	n.Tr.Fail = func(c doubles.TCall) error {
		if c.Op == "cleanup" {
			<-gate
		}
		return nil
	}
	switch ending {
	case "cancel":
		mc.Go(func() { _ = n.Mgr.CloseDataTransferChannel(context.Background(), chid) })
	case "error":
		_ = n.H().OnChannelCompleted(chid, errTransfer)
	}
	mc.Wait()
	img := n.DS.Image()
	close(gate)
	mc.Wait()
	n2, err := NewNode(Opts{DS: doubles.NewRecDSFrom(img), Types: []string{"T"}})
	if err != nil {
		panic(err)
	}
	v0, err := n2.Vec(chid)
	want := map[string]datatransfer.Status{"cancel": datatransfer.Cancelling, "error": datatransfer.Failing}[ending]
	return n2, chid, err == nil && v0.Status == want
}

// c05RestartExistingInCleanup: a restart-existing-channel request that is not legitimate (from a stranger, from
// ourselves, or naming a channel we did not initiate) must leave a channel untouched also when that channel rests
// in a cleanup status after a process restart (its cleanup was interrupted): no transport call, no event, the
// persisted record byte-identical.
func c05RestartExistingInCleanup(x *mc.Cell) {
	type tc struct {
		name   string
		role   Role
		sender peer.ID
	}
	var cases []tc
	for _, r := range []Role{CreatedPush, CreatedPull} {
		cases = append(cases, tc{"from-stranger", r, doubles.PeerC}, tc{"from-self", r, doubles.PeerA})
	}
	for _, r := range []Role{ReceivedPush, ReceivedPull} {
		cases = append(cases, tc{"receiver-did-not-initiate/from-counterparty", r, doubles.PeerB}, tc{"receiver-did-not-initiate/from-stranger", r, doubles.PeerC})
	}
	for _, c := range cases {
		for _, ending := range []string{"cancel", "error"} {
			c, ending := c, ending
			rep := map[string]any{"case": c.name, "role": RoleNames[c.role], "ending": ending}
			run(x, "C05", Opts{Types: []string{"T"}}, rep, func(n *Node) {
				n2, chid, ok := persistedInCleanup(n, c.role, ending)
				defer n2.Stop()
				if !ok {
					x.Note("cleanup_image_not_in_cleanup_status", 1)
					return
				}
				before := digestOf(n2, chid)
				mk := n2.Mark()
				n2.RecvRequest(c.sender, message.RestartExistingChannelRequest(chid))
				time.Sleep(time.Second)
				mc.Wait()
				d := n2.Since(mk)
				x.Premise++
				x.Outcome(fmt.Sprintf("%s|%s|%s|%d", c.name, RoleNames[c.role], ending, len(d.TCalls)))
				ctx := fmt.Sprintf("case=%s role=%s persisted ending=%s\n  %s", c.name, RoleNames[c.role], ending, d)
				if len(d.TCalls) != 0 || len(d.Sends) != 0 || len(d.Events) != 0 || digestOf(n2, chid) != before {
					x.Violate("C05", fmt.Sprintf("restart-existing;illegitimate-request-acted-on-channel-in-cleanup;case=%s;role=%s", c.name, RoleNames[c.role]), "a restart-existing-channel request that this node must ignore changed a channel resting in a cleanup status: "+ctx, rep)
				}
			})
		}
	}
}

// ---- local role checks

func c05LocalRoles(x *mc.Cell) {
	for r := CreatedPush; r <= ReceivedPull; r++ {
		for si, state := range StatesFor(r) {
			for _, call := range []string{"SendVoucher", "SendVoucherResult", "UpdateValidationStatus"} {
				r, si, state, call := r, si, state, call
				created, pull := r.Created(), r.Pull()
				rep := map[string]any{"role": RoleNames[r], "state": state, "call": call}
				run(x, "C05", Opts{Types: []string{"T"}}, rep, func(n *Node) {
					// every state the driver can reach, terminal ones included: the role rule does not depend on the status
					chid := Setup(n, r, state)
					before := digestOf(n, chid)
					mk := n.Mark()
					var err error
					switch call {
					case "SendVoucher":
						err = n.Mgr.SendVoucher(context.Background(), chid, doubles.Voucher("T", "v2"))
					case "SendVoucherResult":
						err = n.Mgr.SendVoucherResult(context.Background(), chid, doubles.Voucher("R", "r"))
					default:
						err = n.Mgr.UpdateValidationStatus(context.Background(), chid, datatransfer.ValidationResult{Accepted: true})
					}
					mc.Wait()
					d := n.Since(mk)
					x.Premise++
					allowed := (call == "SendVoucher") == created
					x.Outcome(fmt.Sprintf("%s|%s|%s|%v", call, RoleNames[r], state, err != nil))
					ctx := fmt.Sprintf("call=%s role=%s state=%s pull=%v err=%v\n  %s", call, RoleNames[r], state, pull, err, d)
					if allowed {
						// (whether an allowed call succeeds in a later status is C19 / C02 / C04 business)
						if err != nil && si == 0 {
							x.Violate("C05", fmt.Sprintf("local-role;allowed-call-failed;call=%s;created=%v", call, created), ctx, rep)
						}
						return
					}
					if err == nil {
						x.Violate("C05", fmt.Sprintf("local-role;wrong-role-accepted;call=%s;created=%v;state=%s", call, created, state), ctx, rep)
					}
					if len(d.Sends) != 0 || len(d.Events) != 0 || len(d.TCalls) != 0 || digestOf(n, chid) != before {
						x.Violate("C05", fmt.Sprintf("local-role;wrong-role-had-effects;call=%s;created=%v;state=%s", call, created, state), ctx, rep)
					}
				})
			}
		}
	}
}

func init() {
	for _, st := range []string{"requested", "ongoing", "paused", "terminated"} {
		st := st
		mc.Register("C05", "messages/"+st, "both", func(x *mc.Cell) { c05Messages(x, st) })
	}
	mc.Register("C05", "restart-mutations", "both", c05RestartMutations)
	mc.Register("C05", "restart-existing", "both", c05RestartExisting)
	mc.Register("C05", "restart-existing-on-a-channel-resting-in-cleanup", "both", c05RestartExistingInCleanup)
	mc.Register("C05", "local-roles", "both", c05LocalRoles)
}

var _ = strings.Join
