package l2node

import (
	"context"
	"fmt"

	datatransfer "github.com/filecoin-project/go-data-transfer/v2"
	"github.com/filecoin-project/go-data-transfer/v2/message"

	"verif/doubles"
	"verif/mc"
)

// c03FinalizeAfterHistory: a responder accepted the request with RequiresFinalization. Every sequence of up to
// two operations that do not release it (the initiator restarts and the validator answers RequiresFinalization
// again; the responder itself asks for a restart; a validation update that keeps the requirement; pause+resume;
// a further voucher; more data; a new process on the same datastore) precedes the end of its transport. Oracle
// (C03): the channel then stays in Finalizing reporting itself paused, the Complete it announces is a paused one,
// and only a releasing update completes it (with an un-paused Complete).
func c03FinalizeAfterHistory(x *mc.Cell, pull bool) {
	ops := []string{"incoming-restart(validator requires finalization again)", "local-restart", "update(accept, still requires finalization)", "pause+resume", "incoming-voucher", "data", "new-process"}
	name := fmt.Sprintf("c03-finalize-after-history/pull=%v", pull)
	x.Enumerate(name, mc.EnumOpts{MaxDeviations: -1}, func(c *mc.Chooser) mc.Exec {
		var ex mc.Exec
		x.Executions--
		rep := mc.EnumReplay(name, c)
		run(x, "C03", Opts{Types: []string{"T"}}, rep, func(n *Node) {
			rf := datatransfer.ValidationResult{Accepted: true, RequiresFinalization: true}
			chid := mkReceived(n, pull, 7, rf)
			n.H().OnTransferInitiated(chid)
			mc.Wait()
			blocks := int64(0)
			data := func(n *Node) {
				blocks++
				if pull {
					_, _ = n.H().OnDataQueued(chid, Root(), 10, blocks, true)
					_ = n.H().OnDataSent(chid, Root(), 10, blocks, true)
				} else {
					_ = n.H().OnDataReceived(chid, Root(), 10, blocks, true)
				}
				mc.Wait()
			}
			data(n)
			var log []string
			cur := n
			for step := 0; step < 2; step++ {
				k := c.Choose(len(ops)+1, fmt.Sprintf("op%d", step))
				if k == len(ops) {
					break
				}
				log = append(log, ops[k])
				cur.Val["T"].Answer = func(int, doubles.VCall) (datatransfer.ValidationResult, error) { return rf, nil }
				switch ops[k] {
				case "incoming-restart(validator requires finalization again)":
					ov := doubles.Voucher("T", "v")
					if pull {
						_, _ = cur.H().OnRequestReceived(chid, doubles.Recode(NewReq(uint64(chid.ID), true, true, &ov)).(datatransfer.Request))
					} else {
						cur.RecvRequest(doubles.PeerB, NewReq(uint64(chid.ID), true, false, &ov))
					}
				case "local-restart":
					_ = cur.Mgr.RestartDataTransferChannel(context.Background(), chid)
				case "update(accept, still requires finalization)":
					_ = cur.Mgr.UpdateValidationStatus(context.Background(), chid, rf)
				case "pause+resume":
					_ = cur.Mgr.PauseDataTransferChannel(context.Background(), chid)
					mc.Wait()
					_ = cur.Mgr.ResumeDataTransferChannel(context.Background(), chid)
				case "incoming-voucher":
					nv := doubles.Voucher("T", "follow-up")
					vr, _ := message.VoucherRequest(chid.ID, &nv)
					cur.RecvRequest(doubles.PeerB, vr)
				case "data":
					data(cur)
				case "new-process":
					img := cur.DS.Image()
					n2, err := NewNode(Opts{DS: doubles.NewRecDSFrom(img), Types: []string{"T"}})
					if err != nil {
						panic(err)
					}
					defer n2.Stop()
					cur = n2
				}
				mc.Wait()
			}
			before, err := cur.Vec(chid)
			if err != nil {
				panic(err)
			}
			if before.Status == datatransfer.Failed || before.Status == datatransfer.Cancelled {
				ex.Outcome = fmt.Sprintf("%v|dead", log)
				return
			}
			ctxs := func(d Delta, v fmt.Stringer) string {
				return fmt.Sprintf("pull=%v history=%v\n  state: %s\n  %s", pull, log, v, d)
			}
			if !before.ReqFin {
				x.Violate("C03", fmt.Sprintf("finalization-requirement-lost;pull=%v;last=%s", pull, last(log)), ctxs(Delta{}, before), rep)
			}
			mk := cur.Mark()
			_ = cur.H().OnChannelCompleted(chid, nil)
			mc.Wait()
			d := cur.Since(mk)
			after, _ := cur.Vec(chid)
			ex.Premise = true
			var complete datatransfer.Response
			for _, s := range d.Sends {
				if r, ok := s.Msg.(datatransfer.Response); ok && r.IsComplete() {
					complete = r
				}
			}
			ex.Outcome = fmt.Sprintf("%v|%s|%v", log, datatransfer.Statuses[after.Status], complete != nil && complete.IsPaused())
			if after.Status != datatransfer.Finalizing || !after.RPaused {
				x.Violate("C03", fmt.Sprintf("transport-finished-but-not-finalizing;status=%s;rpaused=%v;pull=%v;last=%s", datatransfer.Statuses[after.Status], after.RPaused, pull, last(log)),
					"a responder that requires finalization stays in Finalizing, reporting itself paused, when its transport ends: "+ctxs(d, after), rep)
				return
			}
			if complete == nil || !complete.IsPaused() {
				x.Violate("C03", fmt.Sprintf("finalizing-without-paused-complete;sent=%v;pull=%v;last=%s", complete != nil, pull, last(log)), ctxs(d, after), rep)
			}
			// still not released: the application may lower the limit to what has moved (dropping the finalization
			// requirement, but the reached limit keeps the request paused) and send voucher results; whatever Complete
			// message goes out while the responder sits in Finalizing, paused, must say paused
			post := []string{"update(limit reached, requirement dropped)", "send-voucher-result"}
			for step := 0; step < 2; step++ {
				k := c.Choose(len(post)+1, fmt.Sprintf("post%d", step))
				if k == len(post) {
					break
				}
				log = append(log, "then "+post[k])
				mk = cur.Mark()
				switch post[k] {
				case "update(limit reached, requirement dropped)":
					_ = cur.Mgr.UpdateValidationStatus(context.Background(), chid, datatransfer.ValidationResult{Accepted: true, DataLimit: 5})
				case "send-voucher-result":
					_ = cur.Mgr.SendVoucherResult(context.Background(), chid, doubles.Voucher("R", fmt.Sprintf("receipt-%d", step)))
				}
				mc.Wait()
				d = cur.Since(mk)
				now, _ := cur.Vec(chid)
				if now.Status != datatransfer.Finalizing || !now.RPaused {
					x.Violate("C03", fmt.Sprintf("left-finalizing-without-release;status=%s;rpaused=%v;pull=%v;last=%s", datatransfer.Statuses[now.Status], now.RPaused, pull, post[k]), ctxs(d, now), rep)
					return
				}
				for _, sm := range d.Sends {
					if r, ok := sm.Msg.(datatransfer.Response); ok && r.IsComplete() && !r.IsPaused() {
						x.Violate("C03", fmt.Sprintf("unpaused-complete-from-a-paused-finalizing-responder;pull=%v;op=%s", pull, post[k]),
							"the responder is still in Finalizing, reporting itself paused, yet it announced an un-paused Complete (its final word): "+ctxs(d, now), rep)
					}
				}
			}
			// the release
			mk = cur.Mark()
			_ = cur.Mgr.UpdateValidationStatus(context.Background(), chid, datatransfer.ValidationResult{Accepted: true})
			mc.Wait()
			d = cur.Since(mk)
			fin, _ := cur.Vec(chid)
			complete = nil
			for _, s := range d.Sends {
				if r, ok := s.Msg.(datatransfer.Response); ok && r.IsComplete() {
					complete = r
				}
			}
			if fin.Status != datatransfer.Completed || complete == nil || complete.IsPaused() {
				x.Violate("C03", fmt.Sprintf("release-does-not-complete;status=%s;complete-sent=%v;pull=%v;last=%s", datatransfer.Statuses[fin.Status], complete != nil, pull, last(log)), ctxs(d, fin), rep)
			}
		})
		return ex
	})
}

func last(log []string) string {
	if len(log) == 0 {
		return "none"
	}
	return log[len(log)-1]
}

func init() {
	for _, pull := range []bool{false, true} {
		pull := pull
		mc.Register("C03", fmt.Sprintf("l2-finalization-survives-history/pull=%v", pull), "both", func(x *mc.Cell) { c03FinalizeAfterHistory(x, pull) })
	}
}
