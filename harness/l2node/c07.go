package l2node

import (
	"context"
	"fmt"

	datatransfer "github.com/filecoin-project/go-data-transfer/v2"

	"verif/mc"
)

// c07Manager: C07 through the manager's transport-events surface (the path the graphsync transport uses), not the
// channels module alone. A block stream of four positions - every assignment of unique / non-unique (a block that
// occurs again in the DAG is reported non-unique at a NEW position) - is reported in order with replays of
// earlier positions in between; reference model: index total = highest position reported, byte total = sizes of
// the unique blocks at the positions that advanced the high-water mark. Afterwards the channel is restarted and
// the state handed to the transport must carry the same totals (they are what the peer is told to skip).
func c07Manager(x *mc.Cell, r Role, dir string) {
	const n = 4
	name := fmt.Sprintf("c07-manager/%s/%s", RoleNames[r], dir)
	x.Enumerate(name, mc.EnumOpts{MaxDeviations: -1}, func(c *mc.Chooser) mc.Exec {
		var ex mc.Exec
		x.Executions--
		rep := mc.EnumReplay(name, c)
		run(x, "C07", Opts{Types: []string{"T"}}, rep, func(nd *Node) {
			chid := Setup(nd, r, "ongoing")
			h := nd.H()
			uniq := make([]bool, n+1)
			for i := 1; i <= n; i++ {
				uniq[i] = c.Choose(2, fmt.Sprintf("unique%d", i)) == 0
			}
			report := func(pos int) {
				size := uint64(1) << uint(pos)
				switch dir {
				case "received":
					_ = h.OnDataReceived(chid, Root(), size, int64(pos), uniq[pos])
				case "queued":
					_, _ = h.OnDataQueued(chid, Root(), size, int64(pos), uniq[pos])
				default:
					_ = h.OnDataSent(chid, Root(), size, int64(pos), uniq[pos])
				}
				mc.Wait()
			}
			var refBytes uint64
			var refIdx int64
			var log []string
			check := func(what string) bool {
				v, err := nd.Vec(chid)
				if err != nil {
					panic(err)
				}
				gb, gi := v.Received, v.RIdx
				switch dir {
				case "queued":
					gb, gi = v.Queued, v.QIdx
				case "sent":
					gb, gi = v.Sent, v.SIdx
				}
				if gb != refBytes || gi != refIdx {
					x.Violate("C07", fmt.Sprintf("manager;%s;bytes-ok=%v;index-ok=%v;dir=%s;role=%s", what, gb == refBytes, gi == refIdx, dir, RoleNames[r]),
						fmt.Sprintf("reports %v (position:unique): %s total is %d bytes / index %d, the reference says %d / %d", log, dir, gb, gi, refBytes, refIdx), rep)
					return false
				}
				return true
			}
			for pos := 1; pos <= n; pos++ {
				// optionally replay one earlier position first
				if pos > 1 {
					if k := c.Choose(pos, fmt.Sprintf("replay-before%d", pos)); k > 0 {
						log = append(log, fmt.Sprintf("replay %d:%v", k, uniq[k]))
						report(k)
						if !check("after-replay") {
							return
						}
					}
				}
				log = append(log, fmt.Sprintf("%d:%v", pos, uniq[pos]))
				report(pos)
				refIdx = int64(pos)
				if uniq[pos] {
					refBytes += uint64(1) << uint(pos)
				}
				if !check("after-report") {
					return
				}
			}
			ex.Premise = true
			ex.Outcome = fmt.Sprint(log)
			// what a restart hands to the transport
			if r.Created() && dir == "received" {
				mk := nd.Mark()
				_ = nd.Mgr.RestartDataTransferChannel(context.Background(), chid)
				mc.Wait()
				for _, tc := range nd.Since(mk).TCalls {
					if tc.Op == "open" && tc.Chid == chid && tc.Channel != nil {
						if tc.Channel.ReceivedCidsTotal() != refIdx || tc.Channel.Received() != refBytes {
							x.Violate("C07", fmt.Sprintf("manager;restart-hands-over-other-totals;dir=%s;role=%s", dir, RoleNames[r]),
								fmt.Sprintf("reports %v: the restarted transport request is opened with received index %d / %d bytes, the reference says %d / %d", log, tc.Channel.ReceivedCidsTotal(), tc.Channel.Received(), refIdx, refBytes), rep)
						}
					}
				}
			}
		})
		return ex
	})
}

func init() {
	for _, rd := range []struct {
		r   Role
		dir string
	}{{CreatedPull, "received"}, {ReceivedPush, "received"}, {CreatedPush, "queued"}, {ReceivedPull, "queued"}, {CreatedPush, "sent"}, {ReceivedPull, "sent"}} {
		rd := rd
		mc.Register("C07", fmt.Sprintf("l2-manager-reports/%s/%s", RoleNames[rd.r], rd.dir), "both", func(x *mc.Cell) { c07Manager(x, rd.r, rd.dir) })
	}
}

var _ datatransfer.ChannelID
