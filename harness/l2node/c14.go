package l2node

import (
	"context"
	"fmt"
	"time"

	datatransfer "github.com/filecoin-project/go-data-transfer/v2"
	"github.com/filecoin-project/go-data-transfer/v2/channelmonitor"
	dtimpl "github.com/filecoin-project/go-data-transfer/v2/impl"
	"github.com/filecoin-project/go-data-transfer/v2/message"

	"verif/doubles"
	"verif/mc"
)

// c14AcceptDuringOpen: manager with channel monitoring on (accept timeout 1 s, virtual clock). The responder's
// acceptance is handled at every point relative to the opening call: while the request is still being handed to
// the network / transport (the call has not returned yet), right after it returned, or never. Oracle (C14: "the
// accept timeout closes the channel exactly when the awaited event did not arrive in time"): with an acceptance
// the channel is never closed by the accept timeout, whatever the order; without one it is closed once, with an
// error, after the timeout.
func c14AcceptDuringOpen(x *mc.Cell) {
	for _, pull := range []bool{false, true} {
		for _, when := range []string{"during-the-open-call", "after-the-open-call", "never"} {
			pull, when := pull, when
			rep := map[string]any{"pull": pull, "accept": when}
			o := Opts{Types: []string{"T"}, ManagerOptions: []dtimpl.DataTransferOption{dtimpl.ChannelRestartConfig(channelmonitor.Config{AcceptTimeout: time.Second, MaxConsecutiveRestarts: 3})}}
			run(x, "C14", o, rep, func(n *Node) {
				ctx := context.Background()
				hold := make(chan struct{})
				if pull {
					n.Tr.HoldOpen = hold
				} else {
					n.Net.HoldSend = hold
				}
				var chid datatransfer.ChannelID
				var oerr error
				open := mc.Go(func() {
					if pull {
						chid, oerr = n.Mgr.OpenPullDataChannel(ctx, doubles.PeerB, doubles.Voucher("T", "v"), doubles.Cid("root"), doubles.AllSelector())
					} else {
						chid, oerr = n.Mgr.OpenPushDataChannel(ctx, doubles.PeerB, doubles.Voucher("T", "v"), doubles.Cid("root"), doubles.AllSelector())
					}
				})
				mc.Wait()
				if open.Returned() {
					panic("open returned although the request hand-off is held")
				}
				// the channel id is not known to the caller yet: take it from the recorded request
				var tid datatransfer.TransferID
				if pull {
					cs := n.Tr.CallsFrom(0)
					tid = cs[len(cs)-1].Chid.ID
				} else {
					ss := n.Net.SendsFrom(0)
					tid = ss[len(ss)-1].Msg.TransferID()
				}
				accept := func() {
					n.RecvResponse(doubles.PeerB, mustResp(message.NewResponse(tid, true, false, nil)))
				}
				if when == "during-the-open-call" {
					accept()
				}
				close(hold)
				n.Tr.HoldOpen, n.Net.HoldSend = nil, nil
				mc.Wait()
				if !open.Returned() || oerr != nil {
					x.Violate("C14", "accept-during-open;open-failed", fmt.Sprintf("open returned=%v err=%v", open.Returned(), oerr), rep)
					return
				}
				if when == "after-the-open-call" {
					accept()
				}
				mk := n.Mark()
				time.Sleep(5 * time.Second)
				mc.Wait()
				d := n.Since(mk)
				after, err := n.Vec(chid)
				if err != nil {
					panic(err)
				}
				closedByTimeout := after.Status == datatransfer.Failed || after.Status == datatransfer.Failing
				x.Premise++
				x.Outcome(fmt.Sprintf("%v|%s|%s", pull, when, datatransfer.Statuses[after.Status]))
				ctxs := fmt.Sprintf("pull=%v accept=%s status after 5 s=%s\n  %s", pull, when, datatransfer.Statuses[after.Status], d)
				if when != "never" && closedByTimeout {
					x.Violate("C14", fmt.Sprintf("accept-during-open;accepted-channel-closed-by-accept-timeout;accept=%s;pull=%v", when, pull), "the responder accepted the channel, yet the accept timeout closed it: "+ctxs, rep)
				}
				// teardown: Manager.Stop does not shut the per-channel monitors down (observation g in DESIGN 9.3); ending the
				// channel does, so that the accept watcher goroutine exits and the bubble can end
				defer func() {
					_ = n.Mgr.CloseDataTransferChannel(ctx, chid)
					mc.Wait()
				}()
				if when == "never" && !closedByTimeout {
					x.Violate("C14", fmt.Sprintf("accept-during-open;unaccepted-channel-not-closed;pull=%v", pull), "no acceptance arrived within the accept timeout, the channel must be closed with an error: "+ctxs, rep)
				}
			})
		}
	}
}

func init() {
	mc.Register("C14", "manager-accept-timeout-vs-open", "both", c14AcceptDuringOpen)
}
