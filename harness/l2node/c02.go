package l2node

import (
	"context"
	"fmt"

	datatransfer "github.com/filecoin-project/go-data-transfer/v2"

	"verif/doubles"
	"verif/mc"
)

type followUp struct {
	name string
	do   func(n *Node, chid datatransfer.ChannelID) error
}

// followUps is everything that can hit a channel: counterparty messages, transport callbacks, API calls.
func followUps(chid datatransfer.ChannelID) []followUp {
	ctx := context.Background()
	var out []followUp
	for _, m := range messagesFor(chid.ID, nil) {
		m := m
		out = append(out, followUp{"msg:" + m.name, func(n *Node, c datatransfer.ChannelID) error {
			if rq, ok := m.msg.(datatransfer.Request); ok {
				n.RecvRequestNoWait(doubles.PeerB, rq)
			} else {
				n.RecvResponseNoWait(doubles.PeerB, m.msg.(datatransfer.Response))
			}
			return nil
		}})
	}
	v := doubles.Voucher("T", "v")
	out = append(out,
		followUp{"cb:OnChannelOpened", func(n *Node, c datatransfer.ChannelID) error { return n.H().OnChannelOpened(c) }},
		followUp{"cb:OnTransferInitiated", func(n *Node, c datatransfer.ChannelID) error { n.H().OnTransferInitiated(c); return nil }},
		followUp{"cb:OnDataReceived", func(n *Node, c datatransfer.ChannelID) error { return n.H().OnDataReceived(c, Root(), 5, 9, true) }},
		followUp{"cb:OnDataQueued", func(n *Node, c datatransfer.ChannelID) error {
			_, e := n.H().OnDataQueued(c, Root(), 5, 9, true)
			return e
		}},
		followUp{"cb:OnDataSent", func(n *Node, c datatransfer.ChannelID) error { return n.H().OnDataSent(c, Root(), 5, 9, true) }},
		followUp{"cb:OnChannelCompleted(nil)", func(n *Node, c datatransfer.ChannelID) error { return n.H().OnChannelCompleted(c, nil) }},
		followUp{"cb:OnChannelCompleted(err)", func(n *Node, c datatransfer.ChannelID) error { return n.H().OnChannelCompleted(c, errTransfer) }},
		followUp{"cb:OnRequestCancelled", func(n *Node, c datatransfer.ChannelID) error { return n.H().OnRequestCancelled(c, errTransfer) }},
		followUp{"cb:OnRequestDisconnected", func(n *Node, c datatransfer.ChannelID) error { return n.H().OnRequestDisconnected(c, errTransfer) }},
		followUp{"cb:OnSendDataError", func(n *Node, c datatransfer.ChannelID) error { return n.H().OnSendDataError(c, errTransfer) }},
		followUp{"cb:OnReceiveDataError", func(n *Node, c datatransfer.ChannelID) error { return n.H().OnReceiveDataError(c, errTransfer) }},
		followUp{"cb:OnRequestReceived(restart)", func(n *Node, c datatransfer.ChannelID) error {
			_, e := n.H().OnRequestReceived(c, doubles.Recode(NewReq(uint64(c.ID), true, true, &v)).(datatransfer.Request))
			return e
		}},
		followUp{"api:Close", func(n *Node, c datatransfer.ChannelID) error { return n.Mgr.CloseDataTransferChannel(ctx, c) }},
		followUp{"api:Pause", func(n *Node, c datatransfer.ChannelID) error { return n.Mgr.PauseDataTransferChannel(ctx, c) }},
		followUp{"api:Resume", func(n *Node, c datatransfer.ChannelID) error { return n.Mgr.ResumeDataTransferChannel(ctx, c) }},
		followUp{"api:Restart", func(n *Node, c datatransfer.ChannelID) error { return n.Mgr.RestartDataTransferChannel(ctx, c) }},
		followUp{"api:SendVoucher", func(n *Node, c datatransfer.ChannelID) error {
			return n.Mgr.SendVoucher(ctx, c, doubles.Voucher("T", "v2"))
		}},
		followUp{"api:SendVoucherResult", func(n *Node, c datatransfer.ChannelID) error {
			return n.Mgr.SendVoucherResult(ctx, c, doubles.Voucher("R", "r2"))
		}},
		followUp{"api:UpdateValidationStatus(accept)", func(n *Node, c datatransfer.ChannelID) error {
			return n.Mgr.UpdateValidationStatus(ctx, c, datatransfer.ValidationResult{Accepted: true, DataLimit: 5})
		}},
		followUp{"api:UpdateValidationStatus(reject)", func(n *Node, c datatransfer.ChannelID) error {
			return n.Mgr.UpdateValidationStatus(ctx, c, datatransfer.ValidationResult{Accepted: false})
		}},
	)
	return out
}

func c02L2(x *mc.Cell, r Role, pairs bool) {
	probe := followUps(datatransfer.ChannelID{})
	for _, state := range []string{"completed", "cancelled", "failed"} {
		for _, reopen := range []bool{false, true} {
			for i := range probe {
				js := []int{-1}
				if pairs {
					js = nil
					for j := range probe {
						js = append(js, j)
					}
				}
				for _, j := range js {
					if x.TimeUp() {
						x.Cap("c02L2: time cap")
						return
					}
					state, reopen, i, j := state, reopen, i, j
					rep := map[string]any{"role": RoleNames[r], "state": state, "reopen": reopen, "u1": probe[i].name, "u2": j}
					run(x, "C02", Opts{Types: []string{"T"}}, rep, func(n *Node) {
						chid := Setup(n, r, state)
						sanityState(n, r, state, chid)
						if reopen {
							img := n.DS.Image()
							n.Stop()
							n2, err := NewNode(Opts{DS: doubles.NewRecDSFrom(img), Types: []string{"T"}})
							if err != nil {
								panic(err)
							}
							defer n2.Stop()
							n = n2
						}
						before, err := n.Vec(chid)
						if err != nil {
							x.Violate("C02", "L2;terminated-channel-lost-by-reopen;state="+state, err.Error(), rep)
							return
						}
						dg := digestOf(n, chid)
						fus := followUps(chid)
						mk := n.Mark()
						names := fus[i].name
						var uerr error
						hang, cr := mc.Call(func() {
							uerr = fus[i].do(n, chid)
							if j >= 0 {
								_ = fus[j].do(n, chid)
							}
						})
						if j >= 0 {
							names += "," + fus[j].name
						}
						if hang {
							x.Violate("C02", "L2;hang;u="+names, "call on a terminated channel did not return", rep)
							x.Fatal = true
							return
						}
						if cr.Panic != nil {
							x.Violate("C02", "panic;site="+panicSite(cr.Stack)+";u="+fus[i].name, fmt.Sprintf("%v\n%s", cr.Panic, trimStack(cr.Stack)), rep)
							return
						}
						mc.Wait()
						d := n.Since(mk)
						after, err := n.Vec(chid)
						if err != nil {
							x.Violate("C02", "L2;terminated-channel-lost;u="+names, err.Error(), rep)
							return
						}
						x.Premise++
						ctx := fmt.Sprintf("role=%s state=%s reopen=%v follow-up=%s err=%v\n  before: %s\n  after:  %s\n  %s", RoleNames[r], state, reopen, names, uerr, before, after, d)
						sig := func(s string) string {
							return fmt.Sprintf("L2;%s;state=%s;u=%s;reopen=%v", s, state, names, reopen)
						}
						x.Outcome(fmt.Sprintf("%s|%s|%v|%s|%v", RoleNames[r], state, reopen, names, uerr != nil))
						if before.String() != after.String() {
							x.Violate("C02", sig("state-changed"), ctx, rep)
						}
						if digestOf(n, chid) != dg {
							x.Violate("C02", sig("datastore-bytes-changed"), ctx, rep)
						}
						for _, e := range d.Events {
							if e.Chid == chid {
								x.Violate("C02", sig("event="+datatransfer.Events[e.Code]), ctx, rep)
							}
						}
						if j < 0 {
							switch fus[i].name {
							case "api:Restart":
								if uerr != nil || len(d.Sends) != 0 || len(d.TCalls) != 0 {
									x.Violate("C02", sig("restart-not-a-successful-no-op"), ctx, rep)
								}
							case "api:Close":
								if uerr != nil {
									x.Violate("C02", sig("close-of-terminated-channel-errors"), ctx, rep)
								}
							case "msg:req-restart-push", "msg:req-restart-pull", "cb:OnRequestReceived(restart)":
								if !r.Created() {
									for _, tc := range d.TCalls {
										if tc.Op == "open" && tc.Chid == chid {
											x.Violate("C02", sig("restart-request-reopened-transport"), ctx, rep)
										}
									}
									if rp, _ := replyOf(0, d, nil); rp != nil && rp.Accepted() && rp.TransferID() == chid.ID {
										x.Violate("C02", sig("restart-request-accepted"), ctx, rep)
									}
								}
							}
						}
					})
				}
			}
		}
	}
}

func init() {
	for r := CreatedPush; r <= ReceivedPull; r++ {
		r := r
		mc.Register("C02", "l2-follow-ups/"+RoleNames[r], "quick", func(x *mc.Cell) { c02L2(x, r, false) })
		mc.Register("C02", "l2-follow-up-pairs/"+RoleNames[r], "thorough", func(x *mc.Cell) { c02L2(x, r, true) })
	}
}
