package l2node

import (
	"context"
	"errors"

	datatransfer "github.com/filecoin-project/go-data-transfer/v2"
	"github.com/filecoin-project/go-data-transfer/v2/message"

	"verif/doubles"
	"verif/mc"
)

// Role of the local node A towards peer B.
type Role int

const (
	CreatedPush Role = iota
	CreatedPull
	ReceivedPush
	ReceivedPull
)

var RoleNames = []string{"created-push", "created-pull", "received-push", "received-pull"}

func (r Role) Created() bool { return r == CreatedPush || r == CreatedPull }
func (r Role) Pull() bool    { return r == CreatedPull || r == ReceivedPull }

// LocalReceives reports whether the local node is the data receiver.
func (r Role) LocalReceives() bool { return r == CreatedPull || r == ReceivedPush }

var errTransfer = errors.New("transfer broke")

// StatesFor lists the named states the harness can drive a channel of a role into.
func StatesFor(r Role) []string {
	if r.Created() {
		return []string{"requested", "accepted", "ongoing", "ongoing-data", "two-vouchers", "restarted", "self-paused", "other-paused", "transfer-finished", "responder-completed", "responder-finalizing", "paused-responder-completed", "paused-responder-finalizing", "completed", "cancelled", "failed"}
	}
	return []string{"accepted", "ongoing", "ongoing-data", "two-vouchers", "restarted", "self-paused", "other-paused", "limit-paused", "finalizing", "completed", "cancelled", "failed"}
}

// IsTerminalState tells whether the named state is terminal.
func IsTerminalState(s string) bool { return s == "completed" || s == "cancelled" || s == "failed" }

// Setup creates a channel of the role (with peer B) and drives it into the named state.
func Setup(n *Node, r Role, state string, opts ...datatransfer.TransferOption) datatransfer.ChannelID {
	ctx := context.Background()
	v := doubles.Voucher("T", "v")
	var chid datatransfer.ChannelID
	var err error
	first := datatransfer.ValidationResult{Accepted: true}
	if state == "limit-paused" {
		first.DataLimit = 100
	}
	if state == "finalizing" {
		first.RequiresFinalization = true
	}
	switch r {
	case CreatedPush:
		chid, err = n.Mgr.OpenPushDataChannel(ctx, doubles.PeerB, v, doubles.Cid("root"), doubles.AllSelector(), opts...)
	case CreatedPull:
		chid, err = n.Mgr.OpenPullDataChannel(ctx, doubles.PeerB, v, doubles.Cid("root"), doubles.AllSelector(), opts...)
	case ReceivedPush:
		chid = mkReceived(n, false, 7, first)
	case ReceivedPull:
		chid = mkReceived(n, true, 7, first)
	}
	if err != nil {
		panic(err)
	}
	mc.Wait()
	h := n.H()
	accept := func() {
		if r.Created() {
			n.RecvResponse(doubles.PeerB, mustResp(message.NewResponse(chid.ID, true, false, nil)))
		}
	}
	data := func(i int64, size uint64) {
		if r.LocalReceives() {
			_ = h.OnDataReceived(chid, Root(), size, i, true)
		} else {
			_, _ = h.OnDataQueued(chid, Root(), size, i, true)
			_ = h.OnDataSent(chid, Root(), size, i, true)
		}
		mc.Wait()
	}
	ongoing := func() {
		accept()
		h.OnTransferInitiated(chid)
		mc.Wait()
	}
	switch state {
	case "requested":
	case "accepted":
		accept()
	case "ongoing":
		ongoing()
	case "ongoing-data":
		ongoing()
		data(1, 10)
		data(2, 20)
	case "two-vouchers":
		ongoing()
		data(1, 10)
		fv := doubles.Voucher("T", "follow-up")
		if r.Created() {
			_ = n.Mgr.SendVoucher(ctx, chid, fv)
			mc.Wait()
		} else {
			vr, _ := message.VoucherRequest(chid.ID, &fv)
			n.RecvRequest(doubles.PeerB, vr)
		}
	case "restarted":
		// some data moved, then the channel was restarted by its initiator and the restart was accepted
		ongoing()
		data(1, 10)
		if r.Created() {
			_ = n.Mgr.RestartDataTransferChannel(ctx, chid)
			mc.Wait()
			n.RecvResponse(doubles.PeerB, mustResp(message.RestartResponse(chid.ID, true, false, nil)))
		} else {
			ov := doubles.Voucher("T", "v")
			if r.Pull() {
				_, _ = h.OnRequestReceived(chid, doubles.Recode(NewReq(uint64(chid.ID), true, true, &ov)).(datatransfer.Request))
				mc.Wait()
			} else {
				n.RecvRequest(doubles.PeerB, NewReq(uint64(chid.ID), true, false, &ov))
			}
		}
		h.OnTransferInitiated(chid)
		mc.Wait()
	case "self-paused":
		ongoing()
		_ = n.Mgr.PauseDataTransferChannel(ctx, chid)
		mc.Wait()
	case "other-paused":
		ongoing()
		if r.Created() {
			n.RecvResponse(doubles.PeerB, message.UpdateResponse(chid.ID, true))
		} else {
			n.RecvRequest(doubles.PeerB, message.UpdateRequest(chid.ID, true))
		}
	case "limit-paused":
		ongoing()
		data(1, 60)
		data(2, 60)
	case "finalizing":
		ongoing()
		data(1, 10)
		_ = h.OnChannelCompleted(chid, nil)
		mc.Wait()
	case "transfer-finished":
		ongoing()
		data(1, 10)
		_ = h.OnChannelCompleted(chid, nil)
		mc.Wait()
	case "paused-responder-completed", "paused-responder-finalizing":
		// the initiator paused while the transfer was ongoing; the responder's Complete arrives while it is still paused
		ongoing()
		data(1, 10)
		_ = n.Mgr.PauseDataTransferChannel(ctx, chid)
		mc.Wait()
		n.RecvResponse(doubles.PeerB, mustResp(message.CompleteResponse(chid.ID, true, state == "paused-responder-finalizing", nil)))
	case "responder-completed":
		ongoing()
		data(1, 10)
		n.RecvResponse(doubles.PeerB, mustResp(message.CompleteResponse(chid.ID, true, false, nil)))
	case "responder-finalizing":
		ongoing()
		data(1, 10)
		n.RecvResponse(doubles.PeerB, mustResp(message.CompleteResponse(chid.ID, true, true, nil)))
	case "completed":
		ongoing()
		data(1, 10)
		_ = h.OnChannelCompleted(chid, nil)
		mc.Wait()
		if r.Created() {
			n.RecvResponse(doubles.PeerB, mustResp(message.CompleteResponse(chid.ID, true, false, nil)))
		}
	case "cancelled":
		ongoing()
		data(1, 10)
		_ = n.Mgr.CloseDataTransferChannel(ctx, chid)
		mc.Wait()
	case "failed":
		ongoing()
		data(1, 10)
		_ = h.OnChannelCompleted(chid, errTransfer)
		mc.Wait()
	default:
		panic("unknown state " + state)
	}
	return chid
}

// ExpectStatus gives the status a named state must show (sanity check of the driver itself).
func ExpectStatus(r Role, state string) datatransfer.Status {
	switch state {
	case "requested":
		return datatransfer.Requested
	case "accepted":
		return datatransfer.Queued
	case "ongoing", "ongoing-data", "two-vouchers", "restarted", "self-paused", "other-paused", "limit-paused":
		return datatransfer.Ongoing
	case "finalizing":
		return datatransfer.Finalizing
	case "transfer-finished":
		return datatransfer.TransferFinished
	case "responder-completed", "paused-responder-completed":
		return datatransfer.ResponderCompleted
	case "responder-finalizing", "paused-responder-finalizing":
		return datatransfer.ResponderFinalizing
	case "completed":
		return datatransfer.Completed
	case "cancelled":
		return datatransfer.Cancelled
	case "failed":
		return datatransfer.Failed
	}
	return datatransfer.ChannelNotFoundError
}
