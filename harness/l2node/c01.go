package l2node

import (
	"context"
	"fmt"

	datatransfer "github.com/filecoin-project/go-data-transfer/v2"

	"verif/mc"
)

// c01CompleteVsUpdate: the responder's transport reports that the transfer is complete; while the manager is
// still handing the Complete message to the network (the send is held by the harness), the application issues a
// validation update (with every combination of RequiresFinalization / ForcePause / limit). Oracle (C01, C03): what
// the responder told the initiator and what it does itself agree - an un-paused Complete means the responder
// settles in Completed, a paused one means it waits in Finalizing - whatever the update said meanwhile.
func c01CompleteVsUpdate(x *mc.Cell) {
	for _, r := range []Role{ReceivedPush, ReceivedPull} {
		for _, initialFin := range []bool{false, true} {
			for _, a := range allAnswers() {
				if a.Err || !a.Accepted || a.Res != 0 {
					continue
				}
				r, initialFin, a := r, initialFin, a
				rep := map[string]any{"role": RoleNames[r], "requires-finalization-at-open": initialFin, "update-during-send": a.String()}
				run(x, "C01", Opts{Types: []string{"T"}}, rep, func(n *Node) {
					first := datatransfer.ValidationResult{Accepted: true, RequiresFinalization: initialFin}
					chid := mkReceived(n, r.Pull(), 7, first)
					n.H().OnTransferInitiated(chid)
					mc.Wait()
					hold := make(chan struct{})
					n.Net.HoldSend = hold
					mk := n.Mark()
					done := mc.Go(func() { _ = n.H().OnChannelCompleted(chid, nil) })
					mc.Wait()
					inSend := !done.Returned()
					res, _ := a.result()
					upd := mc.Go(func() { _ = n.Mgr.UpdateValidationStatus(context.Background(), chid, res) })
					mc.Wait()
					close(hold)
					n.Net.HoldSend = nil
					mc.Wait()
					if !done.Returned() || !upd.Returned() {
						x.Violate("C20", "complete-vs-update;did-not-return", fmt.Sprintf("completion returned=%v update returned=%v", done.Returned(), upd.Returned()), rep)
						return
					}
					d := n.Since(mk)
					after, err := n.Vec(chid)
					if err != nil {
						panic(err)
					}
					// the first Complete message the initiator is sent
					var complete datatransfer.Response
					for _, s := range d.Sends {
						if rs, ok := s.Msg.(datatransfer.Response); ok && rs.IsComplete() && complete == nil {
							complete = rs
						}
					}
					if complete == nil {
						x.Outcome("no-complete-sent")
						return
					}
					x.Premise++
					x.Outcome(fmt.Sprintf("%v|%v|%s|%s", complete.IsPaused(), inSend, a.String(), datatransfer.Statuses[after.Status]))
					ctx := fmt.Sprintf("role=%s fin-at-open=%v update={%s} issued while the Complete message was being sent (%v): first Complete sent paused=%v, responder ends %s\n  %s", RoleNames[r], initialFin, a, inSend, complete.IsPaused(), datatransfer.Statuses[after.Status], d)
					if !complete.IsPaused() && after.Status != datatransfer.Completed && after.Status != datatransfer.Completing {
						for _, p := range []string{"C01", "C03"} {
							x.Violate(p, fmt.Sprintf("complete-vs-update;announced-final-complete-but-%s;role=%s", datatransfer.Statuses[after.Status], RoleNames[r]), "the responder told the initiator it is complete (not paused) but does not settle in Completed: "+ctx, rep)
						}
					}
				})
			}
		}
	}
}

func init() {
	mc.Register("C01", "complete-message-in-flight-vs-validation-update", "both", c01CompleteVsUpdate)
	mc.Register("C03", "complete-message-in-flight-vs-validation-update", "both", c01CompleteVsUpdate)
}
