// Package l2network drives the real libp2p data-transfer network layer over a
// scripted host: stream-open fault patterns, write/reset faults, cancellation
// points, and inbound byte streams.
package l2network

import (
	"bytes"
	"context"
	"errors"
	"io"
	"sync"
	"time"

	"github.com/libp2p/go-libp2p/core/connmgr"
	"github.com/libp2p/go-libp2p/core/host"
	"github.com/libp2p/go-libp2p/core/network"
	"github.com/libp2p/go-libp2p/core/peer"
	"github.com/libp2p/go-libp2p/core/protocol"

	datatransfer "github.com/filecoin-project/go-data-transfer/v2"

	"verif/shim/core"
)

var (
	errOpen  = errors.New("scripted stream-open failure")
	errWrite = errors.New("scripted write failure")
	errReset = errors.New("scripted reset failure")
)

type openCall struct {
	At   time.Time
	Peer peer.ID
}

// recHost implements the parts of host.Host the network layer uses.
type recHost struct {
	host.Host // nil: any other method panics (would show up as a violation of the harness assumptions)
	self      peer.ID

	mu       sync.Mutex
	Opens    []openCall
	Streams  []*recStream
	handlers map[protocol.ID]network.StreamHandler
	// Open scripts attempt i: "ok", "fail", "hang" (block until the attempt's context ends)
	Open func(i int) string
	// OpenFor, when set, scripts the k-th attempt (from 0) towards peer p instead (concurrent senders)
	OpenFor func(p peer.ID, k int) string
	// Yield makes every stream-open attempt pass through a scheduling point (thread-level exploration)
	Yield bool
	// OnOpen is called at the start of attempt i (used to cancel the caller's context at a chosen point)
	OnOpen func(i int)
	// OnOpenFailed is called right after attempt i failed
	OnOpenFailed                 func(i int)
	WriteErr, ResetErr, CloseErr error
	OnWrite                      func()
	cm                           *recConnMgr
}

func newRecHost() *recHost {
	return &recHost{self: "self-peer", handlers: map[protocol.ID]network.StreamHandler{}, cm: &recConnMgr{}}
}

func (h *recHost) ID() peer.ID { return h.self }
func (h *recHost) SetStreamHandler(pid protocol.ID, handler network.StreamHandler) {
	h.mu.Lock()
	defer h.mu.Unlock()
	h.handlers[pid] = handler
}
func (h *recHost) ConnManager() connmgr.ConnManager                    { return h.cm }
func (h *recHost) Connect(ctx context.Context, pi peer.AddrInfo) error { return nil }

func (h *recHost) NewStream(ctx context.Context, p peer.ID, pids ...protocol.ID) (network.Stream, error) {
	if h.Yield {
		core.Point("stmt", "host:newstream")
	}
	h.mu.Lock()
	i := len(h.Opens)
	k := 0
	for _, o := range h.Opens {
		if o.Peer == p {
			k++
		}
	}
	h.Opens = append(h.Opens, openCall{At: time.Now(), Peer: p})
	h.mu.Unlock()
	if h.OnOpen != nil {
		h.OnOpen(i)
	}
	ans := "ok"
	if h.Open != nil {
		ans = h.Open(i)
	}
	if h.OpenFor != nil {
		ans = h.OpenFor(p, k)
	}
	switch ans {
	case "fail":
		if h.OnOpenFailed != nil {
			h.OnOpenFailed(i)
		}
		return nil, errOpen
	case "hang":
		<-ctx.Done()
		if h.OnOpenFailed != nil {
			h.OnOpenFailed(i)
		}
		return nil, ctx.Err()
	}
	s := &recStream{h: h, proto: pids[0], peer: p}
	h.mu.Lock()
	h.Streams = append(h.Streams, s)
	h.mu.Unlock()
	return s, nil
}

type recConnMgr struct {
	connmgr.NullConnMgr
	mu                   sync.Mutex
	Protects, Unprotects []string
}

func (c *recConnMgr) Protect(id peer.ID, tag string) {
	c.mu.Lock()
	defer c.mu.Unlock()
	c.Protects = append(c.Protects, tag)
}
func (c *recConnMgr) Unprotect(id peer.ID, tag string) bool {
	c.mu.Lock()
	defer c.mu.Unlock()
	c.Unprotects = append(c.Unprotects, tag)
	return true
}

type recConn struct {
	network.Conn
	remote peer.ID
}

func (c *recConn) RemotePeer() peer.ID { return c.remote }

// recStream is a scripted stream.
type recStream struct {
	network.Stream
	h     *recHost
	proto protocol.ID
	peer  peer.ID

	mu      sync.Mutex
	Written bytes.Buffer
	in      *bytes.Reader
	Closed  int
	Resets  int
	ReadErr error // returned once the scripted input is exhausted (nil = io.EOF)
}

func (s *recStream) Protocol() protocol.ID { return s.proto }
func (s *recStream) Conn() network.Conn    { return &recConn{remote: s.peer} }
func (s *recStream) Write(p []byte) (int, error) {
	if s.h != nil && s.h.OnWrite != nil {
		s.h.OnWrite()
	}
	s.mu.Lock()
	defer s.mu.Unlock()
	if s.h != nil && s.h.WriteErr != nil {
		return 0, s.h.WriteErr
	}
	return s.Written.Write(p)
}
func (s *recStream) Read(p []byte) (int, error) {
	s.mu.Lock()
	defer s.mu.Unlock()
	if s.in == nil || s.in.Len() == 0 {
		if s.ReadErr != nil {
			return 0, s.ReadErr
		}
		return 0, io.EOF
	}
	return s.in.Read(p)
}
func (s *recStream) Close() error {
	s.mu.Lock()
	defer s.mu.Unlock()
	s.Closed++
	if s.h != nil {
		return s.h.CloseErr
	}
	return nil
}
func (s *recStream) Reset() error {
	s.mu.Lock()
	defer s.mu.Unlock()
	s.Resets++
	if s.h != nil {
		return s.h.ResetErr
	}
	return nil
}
func (s *recStream) ResetWithError(network.StreamErrorCode) error { return s.Reset() }
func (s *recStream) SetDeadline(time.Time) error                  { return nil }
func (s *recStream) SetReadDeadline(time.Time) error              { return nil }
func (s *recStream) SetWriteDeadline(time.Time) error             { return nil }

// recReceiver records inbound dispatch.
type recReceiver struct {
	mu    sync.Mutex
	Calls []string
}

func (r *recReceiver) add(s string) {
	r.mu.Lock()
	r.Calls = append(r.Calls, s)
	r.mu.Unlock()
}
func (r *recReceiver) ReceiveRequest(ctx context.Context, sender peer.ID, incoming datatransfer.Request) {
	r.add("request:" + string(sender) + ":" + summary(incoming))
}
func (r *recReceiver) ReceiveResponse(ctx context.Context, sender peer.ID, incoming datatransfer.Response) {
	r.add("response:" + string(sender) + ":" + summary(incoming))
}
func (r *recReceiver) ReceiveRestartExistingChannelRequest(ctx context.Context, sender peer.ID, incoming datatransfer.Request) {
	r.add("restart-existing:" + string(sender) + ":" + summary(incoming))
}
func (r *recReceiver) ReceiveError(err error) { r.add("error") }
func (r *recReceiver) calls() []string {
	r.mu.Lock()
	defer r.mu.Unlock()
	return append([]string(nil), r.Calls...)
}
