package l2network

import (
	"bytes"
	"context"
	"fmt"
	"io"
	"strings"
	"time"

	"github.com/ipld/go-ipld-prime/codec/dagcbor"
	"github.com/ipld/go-ipld-prime/datamodel"
	"github.com/ipld/go-ipld-prime/fluent/qp"
	"github.com/ipld/go-ipld-prime/node/basicnode"
	"github.com/libp2p/go-libp2p/core/peer"

	datatransfer "github.com/filecoin-project/go-data-transfer/v2"
	"github.com/filecoin-project/go-data-transfer/v2/message"
	dtnet "github.com/filecoin-project/go-data-transfer/v2/network"

	"verif/doubles"
	"verif/mc"
)

const unit = time.Second

func summary(m datatransfer.Message) string { return doubles.MsgSummary(m) }

func kinds() map[string]datatransfer.Message {
	v := doubles.Voucher("T", "v")
	r := doubles.Voucher("R", "r")
	out := map[string]datatransfer.Message{}
	rq, _ := message.NewRequest(5, false, true, &v, doubles.Cid("root"), doubles.AllSelector())
	out["req-new"] = rq
	rr, _ := message.NewRequest(6, true, false, &v, doubles.Cid("root"), doubles.AllSelector())
	out["req-restart"] = rr
	out["req-update"] = message.UpdateRequest(7, true)
	out["req-cancel"] = message.CancelRequest(8)
	vr, _ := message.VoucherRequest(9, &v)
	out["req-voucher"] = vr
	out["req-restart-existing"] = message.RestartExistingChannelRequest(datatransfer.ChannelID{Initiator: doubles.PeerA, Responder: doubles.PeerB, ID: 10})
	nr, _ := message.NewResponse(11, true, false, &r)
	out["resp-new"] = nr
	cr, _ := message.CompleteResponse(12, true, true, nil)
	out["resp-complete"] = cr
	out["resp-update"] = message.UpdateResponse(13, false)
	out["resp-cancel"] = message.CancelResponse(14)
	return out
}

func kindNames() []string {
	return []string{"req-new", "req-restart", "req-update", "req-cancel", "req-voucher", "req-restart-existing", "resp-new", "resp-complete", "resp-update", "resp-cancel"}
}

type sendCase struct {
	OpenTimeoutHalfUnits int // per-attempt stream-open timeout in half units (20 = 10u; 1 = u/2, shorter than every back-off)
	Attempts             int
	Factor               float64
	Pattern              []string // per attempt: ok / fail / hang
	Cancel               string   // never | before-attempt-i | backoff-i | write
	Write                string   // ok | error
	Reset                string   // ok | error
	Kind                 string
}

func (c sendCase) String() string {
	return fmt.Sprintf("open-timeout=%gu attempts=%d factor=%g pattern=%v cancel=%s write=%s reset=%s kind=%s", float64(c.OpenTimeoutHalfUnits)/2, c.Attempts, c.Factor, c.Pattern, c.Cancel, c.Write, c.Reset, c.Kind)
}

func c15Send(x *mc.Cell, c sendCase) {
	x.Executions++
	pv, stack := mc.Bubble(x.T, func() {
		h := newRecHost()
		n := dtnet.NewFromLibp2pHost(h, dtnet.RetryParameters(unit, 4*unit, float64(c.Attempts), c.Factor), dtnet.SendMessageParameters(time.Duration(c.OpenTimeoutHalfUnits)*unit/2, 10*unit))
		ctx, cancel := context.WithCancel(context.Background())
		defer cancel()
		done := make(chan struct{})
		defer close(done)
		var cancelAt time.Time
		doCancel := func() {
			if cancelAt.IsZero() {
				cancelAt = time.Now()
				cancel()
			}
		}
		h.Open = func(i int) string {
			if i < len(c.Pattern) {
				return c.Pattern[i]
			}
			return "fail"
		}
		var ci int
		switch {
		case strings.HasPrefix(c.Cancel, "before-attempt-"):
			fmt.Sscanf(c.Cancel, "before-attempt-%d", &ci)
			h.OnOpen = func(i int) {
				if i == ci {
					doCancel()
				}
			}
		case strings.HasPrefix(c.Cancel, "backoff-"):
			fmt.Sscanf(c.Cancel, "backoff-%d", &ci)
			h.OnOpenFailed = func(i int) {
				if i == ci {
					go func() {
						select {
						case <-time.After(unit / 2):
							doCancel()
						case <-done:
						}
					}()
				}
			}
		case c.Cancel == "write":
			h.OnWrite = doCancel
		}
		if c.Write == "error" {
			h.WriteErr = errWrite
		}
		if c.Reset == "error" {
			h.ResetErr = errReset
		}
		msg := kinds()[c.Kind]
		var err error
		var returnedAt time.Time
		call := mc.Go(func() {
			err = n.SendMessage(ctx, doubles.PeerB, msg)
			returnedAt = time.Now()
		})
		// run to completion: advance the virtual clock in steps so cancellation timers and back-offs fire in order
		for i := 0; i < 2000 && !call.Returned(); i++ {
			mc.Wait()
			if call.Returned() {
				break
			}
			time.Sleep(unit / 4)
		}
		mc.Wait()
		rep := c
		if !call.Returned() {
			x.Violate("C15", "send-did-not-return;cancel="+c.Cancel, "SendMessage did not return: "+c.String(), rep)
			x.Fatal = true
			return
		}
		if call.Panic != nil {
			x.Violate("C15", "send-panicked", fmt.Sprintf("%v\n%s", call.Panic, call.Stack), rep)
			return
		}
		x.Premise++
		opens := len(h.Opens)
		// reference
		firstOK := -1
		for i := 0; i < c.Attempts && i < len(c.Pattern); i++ {
			if c.Pattern[i] == "ok" {
				firstOK = i
				break
			}
		}
		wantOpens := c.Attempts
		if firstOK >= 0 {
			wantOpens = firstOK + 1
		}
		cancelled := !cancelAt.IsZero()
		ctxs := fmt.Sprintf("%s\n  opens=%d err=%v cancelledAt=%v returnedAt=%v streams=%d", c, opens, err, cancelAt, returnedAt, len(h.Streams))
		x.Outcome(fmt.Sprintf("%d|%v|%v", opens, err != nil, cancelled))
		sig := func(s string) string {
			return fmt.Sprintf("send;%s;attempts=%d;cancel=%s;write=%s;open-timeout-shorter-than-backoff=%v", s, c.Attempts, cancelClass(c.Cancel), c.Write, c.OpenTimeoutHalfUnits < 2)
		}
		if opens > c.Attempts {
			x.Violate("C15", sig(fmt.Sprintf("too-many-open-attempts;opens=%d", opens)), ctxs, rep)
		}
		for _, o := range h.Opens {
			if o.Peer != doubles.PeerB {
				x.Violate("C15", sig("stream-to-wrong-peer"), ctxs, rep)
			}
		}
		if !cancelled || c.Cancel == "write" {
			if opens != wantOpens {
				x.Violate("C15", sig(fmt.Sprintf("open-attempts=%d;want=%d", opens, wantOpens)), ctxs, rep)
			}
			wantOK := firstOK >= 0 && c.Write == "ok"
			if (err == nil) != wantOK {
				x.Violate("C15", sig(fmt.Sprintf("result-nil=%v;want=%v", err == nil, wantOK)), ctxs, rep)
			}
			if firstOK >= 0 {
				if len(h.Streams) != 1 {
					x.Violate("C15", sig("streams-opened"), ctxs, rep)
					return
				}
				s := h.Streams[0]
				if c.Write == "ok" {
					d, derr := message.FromNet(bytes.NewReader(s.Written.Bytes()))
					if derr != nil || summary(d) != summary(msg) {
						x.Violate("C15", sig("written-bytes-are-not-the-message"), fmt.Sprintf("%s\n  decoded=%v err=%v", ctxs, d, derr), rep)
					} else {
						// exactly once: nothing after the first message
						rest := s.Written.Bytes()
						var one bytes.Buffer
						_ = d.ToNet(&one)
						if len(rest) != one.Len() {
							x.Violate("C15", sig("message-written-more-than-once"), ctxs, rep)
						}
					}
					if s.Closed != 1 || s.Resets != 0 {
						x.Violate("C15", sig(fmt.Sprintf("stream-closed=%d;resets=%d", s.Closed, s.Resets)), ctxs, rep)
					}
				} else {
					if s.Resets != 1 {
						x.Violate("C15", sig(fmt.Sprintf("failed-write-not-reset;resets=%d", s.Resets)), ctxs, rep)
					}
					if err != errWrite && err != errReset {
						x.Violate("C15", sig("failed-write-not-reported"), ctxs, rep)
					}
				}
			}
		} else {
			// cancelled while opening / backing off: gives up promptly with the context's error
			if err == nil && firstOK < 0 {
				x.Violate("C15", sig("cancelled-send-succeeded"), ctxs, rep)
			}
			// promptly = without the virtual clock moving past the cancel instant, unless a stream was already open (then the send may finish)
			if len(h.Streams) == 0 {
				if !returnedAt.Equal(cancelAt) {
					x.Violate("C15", sig(fmt.Sprintf("not-prompt;delay=%s", returnedAt.Sub(cancelAt))), "the send kept waiting after its context was cancelled: "+ctxs, rep)
				}
				if err == nil {
					x.Violate("C15", sig("cancelled-without-error"), ctxs, rep)
				}
			}
		}
	})
	if pv != nil {
		x.Violate("C15", "panic;send", fmt.Sprintf("%v\n%s", pv, stack), c)
	}
}

func cancelClass(s string) string {
	if i := strings.LastIndex(s, "-"); i > 0 && s != "never" && s != "write" {
		return s[:i]
	}
	return s
}

func c15Outbound(x *mc.Cell, attempts int, full bool) {
	answers := []string{"fail", "ok"}
	if full {
		answers = []string{"fail", "ok", "hang"}
	}
	var pats [][]string
	var gen func(cur []string)
	gen = func(cur []string) {
		if len(cur) == attempts {
			pats = append(pats, append([]string(nil), cur...))
			return
		}
		for _, a := range answers {
			gen(append(cur, a))
		}
	}
	gen(nil)
	for _, ot := range []int{20, 1} {
		for _, factor := range []float64{1, 5} {
			for _, p := range pats {
				cancels := []string{"never", "write"}
				for i := 0; i < attempts; i++ {
					cancels = append(cancels, fmt.Sprintf("before-attempt-%d", i), fmt.Sprintf("backoff-%d", i))
				}
				for _, cn := range cancels {
					for _, wr := range []string{"ok", "error"} {
						for _, rs := range []string{"ok", "error"} {
							if wr == "ok" && rs == "error" {
								continue
							}
							ks := []string{"req-new"}
							if cn == "never" && factor == 1 {
								ks = kindNames()
							}
							for _, k := range ks {
								if x.TimeUp() {
									x.Cap("c15Outbound: time cap")
									return
								}
								c := sendCase{ot, attempts, factor, p, cn, wr, rs, k}
								x.Sample(c.String())
								c15Send(x, c)
							}
						}
					}
				}
			}
		}
	}
}

// ---------------------------------------------------------------- inbound

func encode(m datatransfer.Message) []byte {
	var b bytes.Buffer
	if err := m.ToNet(&b); err != nil {
		panic(err)
	}
	return b.Bytes()
}

func wantCall(name string, m datatransfer.Message, from peer.ID) string {
	d, _ := message.FromNet(bytes.NewReader(encode(m)))
	switch {
	case name == "req-restart-existing":
		return "restart-existing:" + string(from) + ":" + summary(d)
	case strings.HasPrefix(name, "req-"):
		return "request:" + string(from) + ":" + summary(d)
	}
	return "response:" + string(from) + ":" + summary(d)
}

// flipIsRq re-encodes a message envelope with its IsRq discriminator negated.
func flipIsRq(enc []byte) []byte {
	nb := basicnode.Prototype.Any.NewBuilder()
	if err := dagcbor.Decode(nb, bytes.NewReader(enc)); err != nil {
		panic(err)
	}
	n := nb.Build()
	out, err := qp.BuildMap(basicnode.Prototype.Any, n.Length(), func(ma datamodel.MapAssembler) {
		it := n.MapIterator()
		for !it.Done() {
			k, v, err := it.Next()
			if err != nil {
				panic(err)
			}
			ks, _ := k.AsString()
			if ks == "IsRq" {
				b, _ := v.AsBool()
				qp.MapEntry(ma, ks, qp.Bool(!b))
			} else {
				qp.MapEntry(ma, ks, qp.Node(v))
			}
		}
	})
	if err != nil {
		panic(err)
	}
	var buf bytes.Buffer
	if err := dagcbor.Encode(out, &buf); err != nil {
		panic(err)
	}
	return buf.Bytes()
}

type inCase struct {
	Items []string // kind names, or "bad:<class>:<hex>"
}

func c15Inbound(x *mc.Cell, full bool) {
	ks := kinds()
	names := kindNames()
	var bads = map[string][]byte{}
	good := encode(ks["req-new"])
	bads["truncated-half"] = good[:len(good)/2]
	bads["truncated-1"] = good[:1]
	bads["not-cbor"] = []byte{0xff, 0xff, 0xff}
	bads["wrong-type-top"] = []byte{0x01}
	bads["empty-map"] = []byte{0xa0}
	bads["isrq-wrong-type"] = []byte{0xa3, 0x64, 'I', 's', 'R', 'q', 0x01, 0x67, 'R', 'e', 'q', 'u', 'e', 's', 't', 0xf6, 0x68, 'R', 'e', 's', 'p', 'o', 'n', 's', 'e', 0xf6}
	bads["both-bodies-null"] = []byte{0xa3, 0x64, 'I', 's', 'R', 'q', 0xf5, 0x67, 'R', 'e', 'q', 'u', 'e', 's', 't', 0xf6, 0x68, 'R', 'e', 's', 'p', 'o', 'n', 's', 'e', 0xf6}
	// a well-formed envelope whose IsRq flag contradicts the body it carries
	bads["flag-response-body-request"] = flipIsRq(good)
	bads["flag-request-body-response"] = flipIsRq(encode(ks["resp-new"]))
	badNames := []string{"truncated-half", "truncated-1", "not-cbor", "wrong-type-top", "empty-map", "isrq-wrong-type", "both-bodies-null", "flag-response-body-request", "flag-request-body-response"}

	run := func(items []string, nilDelegate bool) {
		x.Executions++
		rep := map[string]any{"items": items, "nil_delegate": nilDelegate}
		pv, stack := mc.Bubble(x.T, func() {
			h := newRecHost()
			n := dtnet.NewFromLibp2pHost(h, dtnet.SendMessageParameters(10*unit, 10*unit))
			rc := &recReceiver{}
			if nilDelegate {
				n.SetDelegate(nil)
			} else {
				n.SetDelegate(rc)
			}
			handler := h.handlers[datatransfer.ProtocolDataTransfer1_2]
			if handler == nil {
				x.Violate("C15", "inbound;no-stream-handler-registered", "", rep)
				return
			}
			var input bytes.Buffer
			var want []string
			badAt := -1
			badClass := ""
			for i, it := range items {
				if m, ok := ks[it]; ok {
					input.Write(encode(m))
					if badAt < 0 {
						want = append(want, wantCall(it, m, doubles.PeerC))
					}
					continue
				}
				b := bads[it]
				input.Write(b)
				if badAt < 0 {
					badAt = i
					// classify with the decoder itself on the remaining bytes
					_, derr := message.FromNet(bytes.NewReader(b))
					if derr == io.EOF || derr == io.ErrUnexpectedEOF {
						badClass = "eof"
					} else if derr != nil {
						badClass = "malformed"
					} else {
						badClass = "decodes"
					}
				}
			}
			s := &recStream{proto: datatransfer.ProtocolDataTransfer1_2, peer: doubles.PeerC, in: bytes.NewReader(input.Bytes())}
			hang, cr := mc.Call(func() { handler(s) })
			mc.Wait()
			if hang {
				x.Violate("C15", "inbound;handler-did-not-return", fmt.Sprint(items), rep)
				x.Fatal = true
				return
			}
			if cr.Panic != nil {
				x.Violate("C15", "inbound;panic", fmt.Sprintf("items=%v: %v\n%s", items, cr.Panic, cr.Stack), rep)
				return
			}
			x.Premise++
			got := rc.calls()
			x.Outcome(fmt.Sprintf("%v|%v|%d", items, got, s.Resets))
			ctxs := fmt.Sprintf("items=%v bad-class=%s\n  dispatched=%v\n  want=%v resets=%d closed=%d", items, badClass, got, want, s.Resets, s.Closed)
			if nilDelegate {
				if len(got) != 0 || s.Resets < 1 {
					x.Violate("C15", "inbound;nil-delegate", ctxs, rep)
				}
				return
			}
			var msgs []string
			errs := 0
			for _, g := range got {
				if g == "error" {
					errs++
				} else {
					msgs = append(msgs, g)
				}
			}
			if badClass == "decodes" {
				return // the "bad" item is acceptable to the decoder; nothing specified
			}
			if strings.Join(msgs, "\n") != strings.Join(want, "\n") {
				x.Violate("C15", fmt.Sprintf("inbound;dispatch-mismatch;bad=%s", badClass), "each inbound message is handed exactly once, in order, to the handler matching its kind with the authenticated peer; none for or after a malformed item: "+ctxs, rep)
			}
			switch badClass {
			case "":
				if errs != 0 || s.Resets != 0 {
					x.Violate("C15", "inbound;error-on-well-formed-stream", ctxs, rep)
				}
			case "malformed":
				if errs != 1 || s.Resets < 1 {
					x.Violate("C15", fmt.Sprintf("inbound;malformed-not-reset-or-reported;errors=%d;resets=%d", errs, s.Resets), ctxs, rep)
				}
			case "eof":
				if errs > 1 {
					x.Violate("C15", "inbound;truncated-reported-more-than-once", ctxs, rep)
				}
			}
		})
		if pv != nil {
			x.Violate("C15", "panic;inbound", fmt.Sprintf("%v\n%s", pv, stack), rep)
		}
	}
	// 1..3 messages of every kind combination
	maxLen := 2
	if full {
		maxLen = 3
	}
	var rec func(cur []string)
	rec = func(cur []string) {
		if len(cur) > 0 {
			run(append([]string(nil), cur...), false)
		}
		if len(cur) == maxLen {
			return
		}
		for _, k := range names {
			rec(append(cur, k))
		}
	}
	rec(nil)
	for _, b := range badNames {
		run([]string{b}, false)
		for _, k := range names {
			run([]string{k, b}, false)
			run([]string{k, b, k}, false)
			run([]string{b, k}, false)
		}
	}
	run([]string{"req-new"}, true)
	run([]string{"not-cbor"}, true)
}

func init() {
	for _, a := range []int{1, 2, 3, 5} {
		a := a
		mc.Register("C15", fmt.Sprintf("outbound/attempts=%d", a), "quick", func(x *mc.Cell) {
			if a == 5 {
				// the full 2^5 pattern product with all cancellation points is left to thorough; quick covers attempts<=3 fully
				c15Outbound(x, 4, false)
				return
			}
			c15Outbound(x, a, false)
		})
		mc.Register("C15", fmt.Sprintf("outbound-full/attempts=%d", a), "thorough", func(x *mc.Cell) { c15Outbound(x, a, true) })
	}
	mc.Register("C15", "inbound", "quick", func(x *mc.Cell) { c15Inbound(x, false) })
	mc.Register("C15", "inbound-full", "thorough", func(x *mc.Cell) { c15Inbound(x, true) })
}
