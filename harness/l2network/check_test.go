package l2network

import (
	"testing"

	"verif/mc"
)

func TestCheck(t *testing.T) { mc.Main(t, "l2network") }
