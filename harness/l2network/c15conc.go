package l2network

import (
	"context"
	"fmt"
	"strings"

	"github.com/libp2p/go-libp2p/core/peer"

	dtnet "github.com/filecoin-project/go-data-transfer/v2/network"

	"verif/doubles"
	"verif/mc"
	"verif/sched"
)

// c15Concurrent: two messages are sent at the same time through one network object to two peers whose
// stream-open attempts follow their own scripts; every stream-open attempt is a scheduling point and the
// back-off waits run on the virtual clock. Whatever the interleaving, each send makes at most the configured
// number of attempts towards its own peer, succeeds exactly when one of those attempts succeeds, and then
// delivers its message exactly once to that peer - the attempt budget of one send is not shared with another.
func c15Concurrent(x *mc.Cell, attempts int, patP, patQ []string, bound int) {
	name := fmt.Sprintf("c15-concurrent/attempts=%d/P=%s/Q=%s/b%d", attempts, strings.Join(patP, ""), strings.Join(patQ, ""), bound)
	filter := func(kind string, obj any) bool {
		s, _ := obj.(string)
		return kind == "stmt" && s == "host:newstream"
	}
	x.Enumerate(name, mc.EnumOpts{MaxDeviations: bound, DeviationCost: sched.Cost, MaxExecutions: 4000}, func(c *mc.Chooser) mc.Exec {
		var ex mc.Exec
		pv, stack := mc.Bubble(x.T, func() {
			h := newRecHost()
			h.Yield = true
			scripts := map[peer.ID][]string{doubles.PeerB: patP, doubles.PeerC: patQ}
			h.OpenFor = func(p peer.ID, k int) string {
				if sc := scripts[p]; k < len(sc) {
					return sc[k]
				}
				return "fail"
			}
			n := dtnet.NewFromLibp2pHost(h, dtnet.RetryParameters(unit, 4*unit, float64(attempts), 2), dtnet.SendMessageParameters(10*unit, 10*unit))
			msg := kinds()["req-cancel"]
			errs := map[peer.ID]error{}
			s := sched.New(filter)
			defer s.Close()
			for _, p := range []peer.ID{doubles.PeerB, doubles.PeerC} {
				p := p
				s.Go("send-to-"+doubles.PeerName(p), func() { errs[p] = n.SendMessage(context.Background(), p, msg) })
			}
			stuck, capped := s.Run(c, 2000, unit/2, 200)
			s.Close()
			mc.Wait()
			rep := mc.EnumReplay(name, c)
			if capped {
				x.Cap(name + ": step cap")
			}
			if len(stuck) > 0 {
				x.Violate("C15", "concurrent-sends;send-did-not-return", fmt.Sprintf("%v never returned; schedule %v", stuck, s.Trace), rep)
				return
			}
			ex.Premise = true
			h.mu.Lock()
			defer h.mu.Unlock()
			out := ""
			for _, p := range []peer.ID{doubles.PeerB, doubles.PeerC} {
				made := 0
				for _, o := range h.Opens {
					if o.Peer == p {
						made++
					}
				}
				wantOK, wantAttempts := false, attempts
				for k := 0; k < attempts; k++ {
					if k < len(scripts[p]) && scripts[p][k] == "ok" {
						wantOK, wantAttempts = true, k+1
						break
					}
				}
				delivered := 0
				for _, st := range h.Streams {
					if st.peer == p && st.Written.Len() > 0 {
						delivered++
					}
				}
				gotOK := errs[p] == nil
				out += fmt.Sprintf("%s:%d/%v ", doubles.PeerName(p), made, gotOK)
				ctx := fmt.Sprintf("peer %s: script %v, configured attempts %d: made %d attempt(s), returned %v, delivered %d time(s); schedule %v", doubles.PeerName(p), scripts[p], attempts, made, errs[p], delivered, s.Trace)
				if made != wantAttempts {
					x.Violate("C15", fmt.Sprintf("concurrent-sends;attempts=%d;want=%d;peer=%s", made, wantAttempts, doubles.PeerName(p)), ctx, rep)
				}
				if gotOK != wantOK {
					x.Violate("C15", fmt.Sprintf("concurrent-sends;success=%v;want=%v;peer=%s", gotOK, wantOK, doubles.PeerName(p)), ctx, rep)
				}
				if wantOK && delivered != 1 || !wantOK && delivered != 0 {
					x.Violate("C15", fmt.Sprintf("concurrent-sends;delivered=%d;peer=%s", delivered, doubles.PeerName(p)), ctx, rep)
				}
			}
			ex.Outcome = out
		})
		if pv != nil {
			x.Violate("C15", "panic;concurrent-sends", fmt.Sprintf("%v\n%s", pv, stack), mc.EnumReplay(name, c))
		}
		return ex
	})
}

func init() {
	f, ok := "fail", "ok"
	cases := [][2][]string{
		{{f, f, ok}, {f, f, ok}},
		{{f, f, f, f}, {ok}},
		{{f, ok}, {f, f, f, ok}},
	}
	mc.Register("C15", "concurrent-sends", "quick", func(x *mc.Cell) {
		for _, cs := range cases {
			c15Concurrent(x, 3, cs[0], cs[1], 2)
		}
	})
	mc.Register("C15", "concurrent-sends", "thorough", func(x *mc.Cell) {
		for _, cs := range cases {
			for _, att := range []int{2, 3, 4} {
				c15Concurrent(x, att, cs[0], cs[1], 4)
			}
		}
	})
}
